"""C02 — QuotaDistributor / LargestRemainder / the named quota functions.

ops
  qd, lr : {'votes': [[id, "p/q"]...], 'n', 'quota': name | 'const:p/q', 'accept_equal', 'on_overaward',
            'prev': [[id, k]...], 'max': [[id, k]...]}        -> [[key, int]...] | {'err': enum}
  quota  : {'quota': name, 'total': "p/q", 'n'}                -> "p/q"

The oracle states the property on the implementation's result with Fractions only; it never looks at the
Lean model.  `_classify` names the input class (decidable from the input alone) that known findings are
scoped by.
"""
import math
import itertools
from fractions import Fraction
from common import *   # noqa

ID = 'C02'
NAMESPACE = 'VL.C02'
LEAN_MODULES = ['VotelibProofs.Props.C02']
GEN_MODULES = ['Quota']
NAMES = Names()
OTHER = 99          # id of a party that holds previous gains but has no votes

QUOTAS = ['hare', 'hare_rounded', 'droop', 'hagenbach_bischoff', 'hagenbach_bischoff_ceil',
          'hagenbach_bischoff_rounded', 'imperiali']
POLICIES = ['error', 'ignore', 'subtract']
INT_QUOTAS = ['droop', 'hare_rounded', 'hagenbach_bischoff_ceil', 'hagenbach_bischoff_rounded']

REQUIRED = ['quota_textbook_hare', 'quota_textbook_hagenbach_bischoff', 'quota_textbook_imperiali', 'quota_textbook_droop',
            'quota_textbook_hagenbach_bischoff_ceil', 'quota_round_half_up', 'quota_textbook_hare_rounded',
            'quota_textbook_hagenbach_bischoff_rounded', 'quota_droop_pos', 'quota_droop_least',
            'qd_whole_quotas', 'wholeSel_get', 'qd_no_overaward', 'qd_policy_error', 'qd_policy_ignore',
            'qd_policy_subtract_total', 'qd_policy_honoured', 'qd_refuses_nonpositive_quota', 'qd_errors', 'lr_errors',
            'qd_error_iff', 'qd_subtract_step', 'qd_subtract_empty',
            'lr_whole_then_remainders', 'lr_floor_plus_01', 'lr_extra_only_eligible', 'lr_largest_remainders',
            'lr_tie_shape', 'lr_tie_seats', 'lr_total', 'lr_short', 'lr_no_remainder_seats', 'lr_policy_error',
            'lr_policy_ignore', 'lr_policy_subtract', 'lr_total_exact', 'lr_total_hare', 'lr_total_hagenbach_bischoff',
            'lr_total_imperiali', 'hare_quota_rule', 'lr_plain_of_quota_gt', 'lr_plain_droop',
            'qd_cap', 'lr_cap', 'lr_cap_total', 'qd_cap_subtract',
            'prefix_qd_cap_witness', 'prefix_qd_cap_negative_witness', 'prefix_lr_cap_witness',
            'prefix_qd_house_witness', 'prefix_qd_policy_error_unnamed_witness']
NAME_MODES = ['str', 'int0', 'empty0', 'person', 'tuple']
REQUIRED_COUNTERS = ['policy_error', 'policy_ignore', 'policy_subtract', 'subtract_tie', 'cap_binds', 'cap_with_prev',
                     'cap_remainder_only', 'remainder_tie', 'accept_equal_edge', 'overaward_imperiali',
                     'overaward_hagenbach_bischoff', 'whole_exceeds_house', 'prev_nonzero', 'prev_other_party',
                     'constant_quota', 'beyond_2^53', 'fraction_votes', 'remainder_short', 'quota_fn',
                     'quota_half', 'lr_plain', 'qd_plain', 'zero_vote_party', 'nonpositive_quota',
                     # generator audit (harness/GENERATOR_CHECKLIST.md)
                     'mag:1e9', 'mag:2^53', 'mag:1e18', 'mag:1e30', 'near_tie_big',
                     'tie_across_wholes', 'tie_across_wholes_big:droop', 'tie_across_wholes_big:hare_rounded',
                     'tie_across_wholes_big:hagenbach_bischoff_ceil', 'tie_across_wholes_big:hagenbach_bischoff_rounded',
                     'tie_across_wholes_big:constant', 'tie_multi_place', 'tie_3plus_members',
                     'subtract_2plus_untied', 'subtract_tie_decrement', 'subtract_level_consumed',
                     'overaward:hare_rounded', 'overaward:hagenbach_bischoff_rounded', 'overaward:hagenbach_bischoff_ceil',
                     'overaward:constant', 'zero_vote_2plus', 'prev_covers_quotas', 'negative_remainder_in_play',
                     'cap_and_prev_same_party',
                     'names:int0', 'names:empty0', 'names:person',
                     'quota_as:callable', 'quota_as:lambda', 'votes_all_fraction', 'fraction_zero_vote',
                     'ctor_defaults', 'ctor_positional', 'call_positional', 'call_omit_empty',
                     'same_object_twice', 'after_refusal', 'pre_with_prev_then_without', 'larger_then_smaller',
                     'other_object_first',
                     # checklist items 10-12
                     'subtract_tie_hit3', 'tie_4plus_for_3plus_places', 'overaward_2plus:error', 'overaward_2plus:ignore',
                     'overaward_2plus:subtract', 'quota_below_one', 'total_below_one', 'shares_sum_to_one',
                     'seats_far_above_voters', 'n_equals_parties', 'n_zero', 'constant_quota_fractional',
                     'constant_quota_fractional_callable', 'aliasing:prev_nonempty', 'aliasing:max_nonempty'] + [
                     'cross:%s:%s:%s%s' % (p_, a_, x_, y_) for p_ in ('error', 'ignore', 'subtract') for a_ in 'TF'
                     for x_ in 'p-' for y_ in 'm-']


# ------------------------------------------------------------------------------------------------
# the specification side (Fractions only)

def textbook_quota(name, total, n):
    """closed forms, written independently of votelib.component.quota"""
    total = Fraction(total)
    if name.startswith('const:'):
        return Fraction(name[6:])
    if name == 'hare':
        return total / n
    if name == 'hare_rounded':
        return Fraction(math.floor(total / n + Fraction(1, 2)))
    if name == 'droop':
        return Fraction(math.floor(total / (n + 1)) + 1)
    if name == 'hagenbach_bischoff':
        return total / (n + 1)
    if name == 'hagenbach_bischoff_ceil':
        return Fraction(math.ceil(total / (n + 1)))
    if name == 'hagenbach_bischoff_rounded':
        return Fraction(math.floor(total / (n + 1) + Fraction(1, 2)))
    if name == 'imperiali':
        return total / (n + 2)
    raise ValueError(name)


class Spec:
    """everything the property talks about, computed from the request alone"""
    def __init__(self, case):
        self.v = {i: Fraction(s) for i, s in case['votes']}
        self.n = case['n']
        self.prev = {i: k for i, k in case.get('prev') or []}
        self.cap = {i: k for i, k in case.get('max') or []}
        self.policy = case['on_overaward']
        self.ae = case['accept_equal']
        self.total_votes = sum(self.v.values())
        self.in_scope = self.total_votes > 0 and self.n >= 1 and all(x >= 0 for x in self.v.values())
        self.q = textbook_quota(case['quota'], self.total_votes, self.n) if self.n >= 1 else None
        self.nonpositive_quota = (self.q is not None and self.q <= 0 and self.total_votes > 0 and self.n >= 1
                                  and all(x >= 0 for x in self.v.values()))
        if self.q is None or self.q <= 0:
            self.in_scope = False
            return
        q = self.q
        self.w = {}
        for c, x in self.v.items():
            w = math.floor(x / q)
            if x == q and not self.ae:
                w = 0
            self.w[c] = w
        self.p = {c: self.prev.get(c, 0) for c in self.v}
        # whole quotas held at the cap, less what previous gains already cover
        self.wcap = {c: min(self.w[c], self.cap[c]) if c in self.cap else self.w[c] for c in self.v}
        self.base = {c: max(self.wcap[c] - self.p[c], 0) for c in self.v}
        self.sum_prev = sum(self.prev.values())
        self.T = sum(self.base.values()) + self.sum_prev
        # a cap binds on the whole quotas
        self.explicit_binds = [c for c in self.v if c in self.cap and self.w[c] > self.cap[c] and self.w[c] > self.p[c]]
        self.house_binds = [c for c in self.v if self.w[c] > self.n and self.w[c] > self.p[c]]

    def cls(self):
        if self.explicit_binds:
            return 'cap_binds_on_whole_quotas'
        if self.house_binds:
            return 'whole_quotas_exceed_house'
        return 'plain'

    def subtract(self):
        """withdraw `over` seats from the smallest margins v - q*j over all awarded seats (c, j); a level set
        that does not fit is a Tie.  None when there are not enough awarded seats to withdraw."""
        over = self.T - self.n
        if over > sum(self.base.values()) or over > 5000:
            return None
        # only the top `over` seats of a party can be withdrawn
        seats = sorted((self.v[c] - self.q * j, c) for c in self.v
                       for j in range(max(self.p[c] + 1, self.p[c] + self.base[c] - max(over, 0) + 1),
                                      self.p[c] + self.base[c] + 1))
        res = {c: b for c, b in self.base.items() if b > 0}
        if over <= 0:
            return res
        t = seats[over - 1][0]
        below = [c for m, c in seats if m < t]
        level = [c for m, c in seats if m == t]
        for c in below + level:
            res[c] -= 1
        if len(below) + len(level) > over:
            res[('tie', tuple(sorted(level)))] = len(level) - (over - len(below))
        return {k: x for k, x in res.items() if x != 0}

    def subtract_info(self):
        """shape of the withdrawal: (over, tie?, withdrawals inside the tied level, a level of 2+ equal margins
        withdrawn completely?)"""
        over = self.T - self.n
        if over <= 0 or over > sum(self.base.values()) or over > 5000:
            return None
        seats = sorted(self.v[c] - self.q * j for c in self.v
                       for j in range(max(self.p[c] + 1, self.p[c] + self.base[c] - over + 1),
                                      self.p[c] + self.base[c] + 1))
        t = seats[over - 1]
        below = [m for m in seats if m < t]
        level = [m for m in seats if m == t]
        tie = len(below) + len(level) > over
        consumed = any(below.count(m) >= 2 for m in set(below)) or (not tie and len(level) >= 2)
        return {'over': over, 'tie': tie, 'in_level': over - len(below), 'level': len(level), 'consumed': consumed}

    def whole_stage(self):
        """expected outcome of the whole-quota stage when no cap binds there: ('err', name) | ('ok', dict) | None"""
        base = {c: b for c, b in self.base.items() if b > 0}
        if self.T > self.n:
            if self.policy == 'error':
                return ('err', 'VotingSystemError')
            if self.policy == 'ignore':
                return ('ok', base)
            s = self.subtract()
            return None if s is None else ('ok', s)
        return ('ok', base)

    def remainder_stage(self, held):
        """held: dict key -> seats after the whole-quota stage.  Returns the expected final dict."""
        gained = {c: held.get(c, 0) + self.p[c] for c in self.v}
        r = self.n - sum(held.values()) - self.sum_prev
        elig = [c for c in self.v if c not in self.cap or gained[c] < self.cap[c]]
        rem = {c: self.v[c] / self.q - gained[c] for c in elig}
        res = dict(held)
        info = {'r': r, 'elig': elig, 'rem': rem, 'tie': False}
        if r <= 0:
            return res, info
        if r >= len(elig):
            for c in elig:
                res[c] = res.get(c, 0) + 1
            return res, info
        srt = sorted(rem.values(), reverse=True)
        t = srt[r - 1]
        above = [c for c in elig if rem[c] > t]
        level = [c for c in elig if rem[c] == t]
        for c in above:
            res[c] = res.get(c, 0) + 1
        if len(above) + len(level) <= r:
            for c in level:
                res[c] = res.get(c, 0) + 1
        else:
            k = ('tie', tuple(sorted(level)))
            res[k] = res.get(k, 0) + r - len(above)
            info['tie'] = True
        return res, info


def _obs_dict(obs):
    """protocol distribution -> dict with ('tie', members) keys"""
    out = {}
    for k, x in obs:
        kk = ('tie', tuple(sorted(k['tie']))) if isinstance(k, dict) else k
        out[kk] = x
    return out


def _nz(d):
    return {k: x for k, x in d.items() if x != 0}


def _cap_clauses(sp, res):
    """clauses that must hold whatever the redistribution rule is"""
    out = []
    tie_members = set()
    for k in res:
        if isinstance(k, tuple):
            tie_members |= set(k[1])
    for c in sp.v:
        got = res.get(c, 0)
        if got < 0:
            out.append(('negative_award', f'party {c} awarded {got}'))
        if c in sp.cap and sp.p[c] <= sp.cap[c]:
            if got + sp.p[c] > sp.cap[c]:
                out.append(('cap_exceeded', f'party {c}: {got}+{sp.p[c]} > cap {sp.cap[c]}'))
            elif sp.w[c] >= sp.cap[c] and got + sp.p[c] != sp.cap[c] and c not in tie_members:
                out.append(('capped_not_at_cap', f'party {c}: whole quotas {sp.w[c]} reach the cap {sp.cap[c]} but it holds {got}+{sp.p[c]}'))
        if c not in sp.explicit_binds and got < sp.base[c] and c not in tie_members:
            out.append(('below_whole_quotas', f'party {c}: {got} < whole quotas {sp.base[c]}'))
    return out


def _cap_checks(sp, res):
    """the cap sentence of the property, on every returned dict: never above the cap and never negative; and, unless
    seats were withdrawn by 'subtract', exactly on the cap when the whole quotas reach it and never below the whole
    quotas otherwise"""
    cl = _cap_clauses(sp, res)
    if sp.T > sp.n and sp.policy == 'subtract':
        cl = [c for c in cl if c[0] in ('negative_award', 'cap_exceeded')]
    return cl


def oracle(case, obs):
    op = case['op']
    if op == 'quota':
        if case['n'] == 0 and case['quota'] in ('hare', 'hare_rounded'):
            return []
        want = num_str(textbook_quota(case['quota'], case['total'], case['n']))
        return [] if obs == want else [('quota_textbook', f'{case["quota"]}({case["total"]}, {case["n"]}) = {obs}, textbook {want}')]
    if isinstance(obs, dict) and str(obs.get('err', '')).split(':')[0] in ALIAS_KINDS:
        # checklist 12: inputs, default arguments, evaluator state and earlier results must survive the call untouched
        return [('aliasing:' + str(obs['err']), 'the call changed an object it does not own')]
    sp = Spec(case)
    if not sp.in_scope:
        # outside the quantifier (the quota is not positive): nothing is specified about seats, but a refusal has to
        # be the declared one (repair eca6e34: VotingSystemError instead of ZeroDivisionError)
        if sp.nonpositive_quota and isinstance(obs, dict) and obs.get('err') != 'VotingSystemError':
            return [('raises:' + str(obs.get('err')), 'non-positive quota: only VotingSystemError is a declared refusal')]
        return []
    is_err = isinstance(obs, dict)
    out = []
    # the result is fully determined: whole quotas held at the caps, the policy, then the remainder stage
    ws = sp.whole_stage()
    if ws is None:            # more previous gains than seats: nothing can be withdrawn; not specified
        return out
    if ws[0] == 'err':
        if is_err and obs.get('err') != ws[1]:
            out.append(('raises:' + str(obs.get('err')), f'{ws[1]} expected'))
        elif not is_err:
            out.append(('policy_error', f'VotingSystemError expected, got {obs}'))
        return out
    if is_err:
        return [('raises:' + str(obs.get('err')), f'expected {ws[1]}')]
    res = _nz(_obs_dict(obs))
    if op == 'qd':
        want = _nz(ws[1])
        if res != want:
            if sp.T > sp.n:
                out.append(('policy_' + sp.policy, f'expected {want}, got {res}'))
            else:
                out.append(('whole_quotas', f'expected {want}, got {res}'))
        out += _cap_checks(sp, res)
        return out
    # lr
    want, info = sp.remainder_stage(ws[1])
    want = _nz(want)
    if res != want:
        if sp.T > sp.n:
            out.append(('policy_' + sp.policy, f'expected {want}, got {res}'))
        else:
            base = sp.base
            cl = None
            tie_members = set()
            for k in set(res) | set(want):
                if isinstance(k, tuple):
                    tie_members |= set(k[1])
            for c in sp.v:
                extra = res.get(c, 0) - base[c]
                if extra not in (0, 1):
                    cl = ('not_floor_plus_01', f'party {c}: {res.get(c, 0)} vs whole quotas {base[c]}')
                    break
                if c in sp.cap and sp.p[c] <= sp.cap[c] and res.get(c, 0) + sp.p[c] > sp.cap[c]:
                    cl = ('cap_exceeded', f'party {c}')
                    break
            if cl is None:
                ties_res = {k: x for k, x in res.items() if isinstance(k, tuple)}
                ties_want = {k: x for k, x in want.items() if isinstance(k, tuple)}
                tot_res = sum(res.values()) + sp.sum_prev
                tot_want = sum(want.values()) + sp.sum_prev
                if tot_res != tot_want:
                    cl = ('total', f'total {tot_res}, expected {tot_want} (seats {sp.n})')
                elif ties_res != ties_want:
                    cl = ('tie_shape', f'expected ties {ties_want}, got {ties_res}')
                else:
                    cl = ('remainder_order', f'expected {want}, got {res}')
            out.append(cl)
    out += [cl for cl in _cap_checks(sp, res) if cl[0] not in [o[0] for o in out]]
    return out


def signature(case, clause):
    """known findings are scoped by (op, input class, symptom group); in the plain class the clause itself"""
    if case['op'] == 'quota':
        return f"quota:{clause}"
    if clause.startswith('aliasing:'):
        return f"{case['op']}:{clause.split(':')[0]}:{clause.split(':')[1]}"
    sp = Spec(case)
    if not sp.in_scope:
        return f"{case['op']}:nonpositive_quota:raises" if clause.startswith('raises:') else f"{case['op']}:out_of_scope:{clause}"
    c = sp.cls()
    if c == 'plain':
        if case['quota'].startswith('const:') and clause == 'raises:AttributeError':
            return f"{case['op']}:constant_quota:{clause}"
        return f"{case['op']}:{clause}"
    group = 'raises' if clause.startswith('raises:') else 'wrong_seats'
    return f"{case['op']}:{c}:{group}"


# ------------------------------------------------------------------------------------------------
# implementation side

def _votes_of(pairs, all_fraction=False):
    out = {}
    for i, s_ in pairs:
        f = Fraction(s_)
        out[NAMES.n(i)] = f if (all_fraction or f.denominator != 1) else int(f)
    return out


def _votes(case):
    return _votes_of(case['votes'], (case.get('how') or {}).get('all_fraction', False))


def _quota_arg(name, quota_as='name'):
    """the quota as the caller may give it: registered name, the registered function object, a caller-written callable
    (computing the textbook value: int when integral, else Fraction), quota.constant(int | Fraction)"""
    import votelib.component.quota as vq
    if quota_as == 'lambda':
        def own_quota(votes, seats):
            x = textbook_quota(name, votes, seats)
            return int(x) if x.denominator == 1 else x
        return own_quota
    if name.startswith('const:'):
        f = Fraction(name[6:])
        return vq.constant(int(f) if f.denominator == 1 else f)
    if quota_as == 'callable':
        return vq.get(name)
    return name


def _construct(cls, case, how):
    import votelib.evaluate.proportional as vp
    q = _quota_arg(case['quota'], how.get('quota_as', 'name'))
    ae, pol = case['accept_equal'], case['on_overaward']
    ctor = how.get('ctor', 'kwargs')
    if ctor == 'positional' and cls is vp.QuotaDistributor:
        return cls(q, ae, pol)
    if ctor == 'defaults':                     # leave out every argument that equals its default
        kw = {}
        if ae is not True:
            kw['accept_equal'] = ae
        if pol != 'error':
            kw['on_overaward'] = pol
        if cls is vp.QuotaDistributor and q == 'droop':
            return cls(**kw)
        return cls(q, **kw)
    return cls(q, accept_equal=ae, on_overaward=pol)


def _call(ev, votes, n, prev, mx, how):
    if how.get('call') == 'positional':
        return ev.evaluate(votes, n, prev, mx)
    if how.get('call') == 'omit_empty':        # rely on the mutable default arguments `prev_gains={}` / `max_seats={}`
        kw = {}
        if prev:
            kw['prev_gains'] = prev
        if mx:
            kw['max_seats'] = mx
        return ev.evaluate(votes, n, **kw)
    return ev.evaluate(votes, n, prev_gains=prev, max_seats=mx)


def _args(c, how):
    return (_votes_of(c['votes'], how.get('all_fraction', False)), c['n'],
            {NAMES.n(i): k for i, k in c.get('prev') or []}, {NAMES.n(i): k for i, k in c.get('max') or []})


def impl(case):
    import votelib.evaluate.proportional as vp
    import votelib.component.quota as vq
    if case['op'] == 'quota':
        f = Fraction(case['total'])
        tot = int(f) if f.denominator == 1 else f
        return guarded(lambda: num_str(vq.get(case['quota'])(tot, case['n'])))
    how = case.get('how') or {}
    cls = vp.QuotaDistributor if case['op'] == 'qd' else vp.LargestRemainder

    def run():
        other = how.get('other_first')
        if other:                              # a differently configured object of the same class, used before ...
            oc = dict(case, **other['config'])
            try:
                _call(_construct(cls, oc, {}), *_args(other['call'], {}), {})
            except Exception:       # noqa
                pass
        ev = _construct(cls, case, how)
        if other:                              # ... and another one built and used between construction and call
            try:
                _call(_construct(cls, oc, {}), *_args(other['call'], {}), {})
            except Exception:       # noqa
                pass
        earlier = []
        for pre in how.get('pre') or []:       # earlier calls on the SAME object; their outcome (also a refusal) is dropped
            try:
                r0 = _call(ev, *_args(pre, how), how)
                earlier.append((r0, list(r0.items())))
            except Exception:       # noqa
                pass
        votes, n, prev, mx = _args(case, how)
        snap = [_snap(votes), _snap(prev), _snap(mx)]
        state = _state(ev)
        try:
            res = _call(ev, votes, n, prev, mx, how)
        finally:
            # aliasing (checklist 12): nothing handed in may change, whether the call returns or refuses
            changed = [nm for nm, d, s0 in zip(('votes', 'prev_gains', 'max_seats'), (votes, prev, mx), snap) if _snap(d) != s0]
            if changed:
                raise AliasingError('InputMutated:' + '+'.join(changed))
            if any(d != {} for d in (cls.evaluate.__defaults__ or ())):
                raise AliasingError('DefaultArgumentMutated')
            if _state(ev) != state:
                raise AliasingError('EvaluatorStateChanged')
        if any(res is d for d in (votes, prev, mx)):
            raise AliasingError('ResultAliasedToInput')
        if any(list(r0.items()) != items0 for r0, items0 in earlier):
            raise AliasingError('EarlierResultChanged')
        out = enc_distribution(res, NAMES)
        res['__scribble__'] = -7               # scribbling on the returned dict must not reach the inputs or the object
        if [_snap(votes), _snap(prev), _snap(mx)] != snap or _state(ev) != state:
            raise AliasingError('ResultSharesStateWithInput')
        return out
    obs = guarded(run)
    if isinstance(obs, dict) and obs.get('err') == 'AliasingError':
        obs = {'err': _LAST_ALIAS[0]}
    return obs


class AliasingError(Exception):
    def __init__(self, what):
        super().__init__(what)
        _LAST_ALIAS[0] = what


_LAST_ALIAS = [None]
ALIAS_KINDS = ('InputMutated', 'DefaultArgumentMutated', 'EvaluatorStateChanged', 'ResultAliasedToInput',
               'EarlierResultChanged', 'ResultSharesStateWithInput')


def _snap(d):
    """identity of the keys, the values and the order of a dict handed to the library"""
    return [(id(k), v) for k, v in d.items()]


def _state(o, depth=0):
    """the evaluator's own __dict__, recursively through the votelib objects it holds (private attributes included)"""
    out = {}
    for k, v in vars(o).items():
        if hasattr(v, '__dict__') and type(v).__module__.startswith('votelib') and depth < 4:
            out[k] = ('obj', id(v), _state(v, depth + 1))
        else:
            out[k] = (id(v), repr(v))
    return out


    return guarded(run)


def model_line(case):
    c = strip_case(case)
    c.pop('how', None)          # the model is a pure function of the request; `how` only varies the Python call
    return c


def compare(case, iobs, mobs):
    if case['op'] == 'quota':
        return None if iobs == mobs else f'impl={iobs} model={mobs}'
    a = canon(iobs)
    b = canon_dist(mobs) if isinstance(mobs, list) else canon(mobs)
    if a != b:
        return f'impl={json.dumps(a)} model={json.dumps(b)}'
    return None


def nontrivial(case, obs):
    if case['op'] == 'quota':
        return True
    return len(case['votes']) >= 2 and not isinstance(obs, dict)


def describe(case):
    if case['op'] == 'quota':
        return f"votelib.component.quota.{case['quota']}({case['total']}, {case['n']})"
    cls = 'QuotaDistributor' if case['op'] == 'qd' else 'LargestRemainder'
    prev = {NAMES.n(i): k for i, k in case.get('prev') or []}
    mx = {NAMES.n(i): k for i, k in case.get('max') or []}
    q = case['quota']
    qa = f"quota.constant(Fraction('{q[6:]}'))" if q.startswith('const:') else repr(q)
    how = case.get('how') or {}
    return (f"{cls}({qa}, accept_equal={case['accept_equal']}, on_overaward={case['on_overaward']!r})"
            f".evaluate({_votes(case)!r}, {case['n']}, prev_gains={prev!r}, max_seats={mx!r})"
            + (f"   # call variant: {json.dumps(how)}" if how else ''))


def shrink_candidates(case):
    if case['op'] == 'quota':
        return
    how = case.get('how') or {}
    for key in list(how):
        c = dict(case)
        c['how'] = {k: v for k, v in how.items() if k != key}
        if not c['how']:
            del c['how']
        yield c
    vs = case['votes']
    for i in range(len(vs)):
        if len(vs) > 1:
            c = dict(case)
            drop = vs[i][0]
            c['votes'] = vs[:i] + vs[i + 1:]
            c['prev'] = [p for p in case.get('prev') or [] if p[0] != drop]
            c['max'] = [p for p in case.get('max') or [] if p[0] != drop]
            yield c
    for key in ('prev', 'max'):
        lst = case.get(key) or []
        for i in range(len(lst)):
            c = dict(case)
            c[key] = lst[:i] + lst[i + 1:]
            yield c
    if case['n'] > 1:
        c = dict(case)
        c['n'] = case['n'] - 1
        yield c
    for i in range(len(vs)):
        f = Fraction(vs[i][1])
        for g in (f / 2, f - 1):
            if g >= 0 and g.denominator == 1 and g != f:
                c = dict(case)
                c['votes'] = vs[:i] + [[vs[i][0], num_str(g)]] + vs[i + 1:]
                yield c


# ------------------------------------------------------------------------------------------------
# generator

SMALL = [0, 1, 2, 3, 4, 5, 6, 8, 10, 12, 20, 30, 50, 60]


def _mk(op, vals, n, quota, ae, pol, prev=None, mx=None, tags=()):
    return {'op': op, 'votes': [[i, num_str(x)] for i, x in enumerate(vals)], 'n': n, 'quota': quota,
            'accept_equal': ae, 'on_overaward': pol,
            'prev': [[i, k] for i, k in (prev or {}).items()], 'max': [[i, k] for i, k in (mx or {}).items()],
            '_tags': list(tags)}


def _rand_quota(rng):
    r = rng.random()
    if r < 0.12:
        return 'const:' + num_str(Fraction(rng.randint(1, 40), rng.choice([1, 1, 1, 2, 3])))
    if r < 0.45:
        return rng.choice(['imperiali', 'hagenbach_bischoff', 'hare'])
    return rng.choice(QUOTAS)


def _rand_vals(rng, m):
    kind = rng.choice(['small', 'small', 'small', 'mid', 'big', 'frac', 'equal'])
    if kind == 'small':
        return [rng.choice(SMALL) for _ in range(m)]
    if kind == 'mid':
        return [rng.randint(0, 1000) for _ in range(m)]
    if kind == 'big':
        b = rng.choice([10 ** 9, 2 ** 53, 10 ** 16, 10 ** 18, 10 ** 25, 10 ** 30])
        return [b * rng.choice([1, 2, 3, 5]) + rng.choice([0, 0, 1, -1, 7]) for _ in range(m)]
    if kind == 'frac':
        return [Fraction(rng.randint(0, 60), rng.choice([1, 2, 3, 4])) for _ in range(m)]
    x = rng.choice([1, 2, 5, 10, 50])
    return [x * rng.choice([1, 1, 1, 2, 3]) for _ in range(m)]


def _random_case(rng):
    m = rng.randint(1, 6)
    vals = _rand_vals(rng, m)
    if sum(vals) == 0:
        vals[0] = rng.choice([1, 5, 60])
    n = rng.randint(1, 12)
    prev, mx = {}, {}
    if rng.random() < 0.35:
        for i in range(m):
            if rng.random() < 0.5:
                prev[i] = rng.randint(0, 3)
        if rng.random() < 0.2:
            prev[OTHER] = rng.randint(0, 2)
    if rng.random() < 0.35:
        for i in range(m):
            if rng.random() < 0.5:
                mx[i] = rng.randint(0, 5)
    qn = _rand_quota(rng)
    if qn.startswith('const:') and max(vals) > 10 ** 6:       # keep the number of whole quotas small
        qn = 'const:' + num_str(Fraction(max(vals), rng.randint(1, 8)) + rng.choice([0, 0, 1]))
    return _mk(rng.choice(['qd', 'lr', 'lr']), vals, n, qn, rng.random() < 0.5,
               rng.choice(POLICIES), prev, mx)


def _directed(rng, k):
    """one case of each anchored mechanism, constructed on purpose"""
    pol = POLICIES[k % 3]
    op = ['qd', 'lr'][(k // 3) % 2]
    ae = (k // 6) % 2 == 0
    x = rng.choice([1, 3, 10, 25, 10 ** 17 + 3])
    # accept_equal edge: Hare, votes q, a*q, b*q with n = 1+a+b  (every party exactly on a multiple of the quota)
    a, b = rng.randint(1, 3), rng.randint(0, 3)
    yield _mk(op, [x, a * x, b * x], 1 + a + b, 'hare', ae, pol)
    yield _mk(op, [x, a * x + rng.randint(0, x - 1) if x > 1 else a * x, b * x], 1 + a + b,
              'const:' + num_str(x), ae, pol)
    # over-award with every party inside the house: m equal parties, imperiali / hagenbach-bischoff
    m = rng.randint(2, 5)
    n = rng.randint(max(2, m - 1), 7)
    jitter = [rng.choice([0, 0, 0, 1]) for _ in range(m)]
    for qn in ('imperiali', 'hagenbach_bischoff'):
        vals = [x * 7 + j for j in jitter]
        yield _mk(op, vals, n, qn, ae, pol)
        yield _mk(op, [2 * x, x, x], 2, qn, ae, pol)
    yield _mk(op, [x] * m, m + 1 + rng.randint(0, 2) * m, 'imperiali', True, 'subtract')
    # remainder ties at the cut (Hare, equal parties, seats not a multiple)
    yield _mk('lr', [x] * m, m + rng.randint(1, m - 1), rng.choice(['hare', 'droop', 'hagenbach_bischoff']), ae, pol)
    yield _mk('lr', [3 * x, x, x, x], rng.choice([1, 2, 4, 5]), 'hare', ae, pol)
    # a cap that binds on the whole quotas, without and with previous gains
    big = [6 * x, 3 * x, x]
    yield _mk(op, big, 10, 'hare', ae, pol, {}, {0: rng.randint(1, 5)})
    yield _mk(op, big, 10, 'hare', ae, pol, {0: rng.randint(1, 2), 1: rng.randint(0, 1)}, {0: rng.randint(2, 5)})
    # a cap that only matters for the remainder seat
    yield _mk('lr', [55 * x, 35 * x, 10 * x], 10, 'hare', ae, pol, {}, {0: 5, 2: rng.choice([1, 2])})
    yield _mk('lr', [47 * x, 16 * x, 37 * x], 10, 'droop', ae, pol, {1: 1}, {0: 4, 1: rng.choice([1, 2])})
    # one party's whole quotas exceed the house (no cap given)
    yield _mk(op, [5 * x, 0], 2, 'imperiali', ae, pol)
    yield _mk(op, [9 * x, x, x], 3, rng.choice(['imperiali', 'hagenbach_bischoff']), ae, pol)
    # previous gains, also of a party without votes
    yield _mk(op, [50 * x, 30 * x, 20 * x], 10, rng.choice(QUOTAS), ae, pol, {0: 2, 1: 3, OTHER: 1}, {})
    yield _mk(op, [50 * x, 30 * x, 20 * x], 10, 'hare', ae, pol, {0: 6, 2: 1}, {})
    # fewer eligible parties than remainder seats
    yield _mk('lr', [3], 10, 'droop', ae, pol)
    yield _mk('lr', [2, 1], 9, 'droop', ae, pol)
    # a quota that rounds to zero: votes fewer than half the seats
    yield _mk(op, [rng.choice([1, 2])], rng.randint(5, 9), 'hare_rounded', ae, pol)
    yield _mk(op, [1, 0, 1], rng.randint(6, 9), 'hagenbach_bischoff_rounded', ae, pol)
    # fractions, zero-vote parties
    yield _mk(op, [Fraction(7, 2) * x, Fraction(5, 3) * x, 0, x], rng.randint(2, 6), rng.choice(QUOTAS), ae, pol)


def _quota_cases(rng, count):
    for k in range(count):
        qn = QUOTAS[k % len(QUOTAS)]
        n = rng.randint(1, 12)
        r = rng.random()
        if r < 0.4:
            tot = rng.randint(0, 200)
        elif r < 0.55:                    # exactly half-way: where half-up and half-even differ
            d = n if qn.startswith('hare') else n + 1
            tot = d * rng.randint(0, 40) + (d // 2 if d % 2 == 0 else 0)
            if d % 2:
                tot = Fraction(d * (2 * rng.randint(0, 40) + 1), 2)
        elif r < 0.8:
            tot = 10 ** rng.choice([16, 25, 30]) + rng.randint(-5, 5)
        else:
            tot = Fraction(rng.randint(0, 500), rng.choice([2, 3, 4, 7]))
        c = {'op': 'quota', 'quota': qn, 'total': num_str(tot), 'n': n, '_tags': ['quota_fn']}
        x = Fraction(tot) / (n if qn.startswith('hare') else n + 1)
        if (x - math.floor(x)) == Fraction(1, 2) and 'rounded' in qn:
            c['_tags'].append('quota_half')
        yield c
    # directed halves
    for qn, d in (('hare_rounded', 0), ('hagenbach_bischoff_rounded', 1)):
        for n in (1, 2, 3, 4):
            for h in (1, 3, 5, 6, 7):
                tot = Fraction(h * (n + d), 2)
                c = {'op': 'quota', 'quota': qn, 'total': num_str(tot), 'n': n, '_tags': ['quota_fn']}
                if h % 2:
                    c['_tags'].append('quota_half')
                yield c


def _exhaustive(tier):
    """small scopes, enumerated completely:
    (i)  every vote vector over {0..3} for up to 3 parties x n <= 4 x 4 quotas (+ two constants) x 3 policies x 2 ops
         x accept_equal;
    (ii) every two-party vector over {0..5} x n <= 4 x previous gains x caps x 3 quotas x 3 policies x 2 ops"""
    for m in (1, 2, 3):
        for vals in itertools.product([0, 1, 2, 3], repeat=m):
            if sum(vals) == 0:
                continue
            for n in (1, 2, 3, 4):
                for qn in ('hare', 'droop', 'hagenbach_bischoff', 'imperiali', 'const:1', 'const:3/2'):
                    for pol in POLICIES:
                        for op in ('qd', 'lr'):
                            for ae in (True, False):
                                yield _mk(op, list(vals), n, qn, ae, pol, tags=['exhaustive'])
    prevs = [{}, {0: 1}, {1: 2}, {0: 1, OTHER: 1}]
    caps = [{}, {0: 0}, {0: 1}, {0: 2}, {1: 1}, {0: 3, 1: 1}]
    for vals in itertools.product([0, 1, 2, 3, 4, 5], repeat=2):
        if sum(vals) == 0:
            continue
        for n in (1, 2, 3, 4):
            for qn in ('hare', 'droop', 'imperiali'):
                for pol in POLICIES:
                    for op in ('qd', 'lr'):
                        for prev in prevs:
                            for mx in caps:
                                if not prev and not mx:
                                    continue
                                yield _mk(op, list(vals), n, qn, True, pol, prev, mx, tags=['exhaustive_caps'])


def _tag(c):
    if c['op'] == 'quota':
        return c
    tags = c['_tags']
    sp = Spec(c)
    if c.get('prev'):
        tags.append('aliasing:prev_nonempty')
    if c.get('max'):
        tags.append('aliasing:max_nonempty')
    if not sp.in_scope:
        tags.append('n_zero' if c['n'] == 0 else 'nonpositive_quota' if sp.nonpositive_quota else 'out_of_scope')
        return c
    cls = sp.cls()
    # checklist 10: parameter values outside the usual range but inside the documented one
    if sp.q < 1:
        tags.append('quota_below_one')
    if sp.total_votes < 1:
        tags.append('total_below_one')
    if sp.total_votes == 1 and any(x.denominator != 1 for x in sp.v.values()):
        tags.append('shares_sum_to_one')
    if sp.n >= 10 * sp.total_votes:
        tags.append('seats_far_above_voters')
    if sp.n == len(sp.v):
        tags.append('n_equals_parties')
    if c['quota'].startswith('const:') and Fraction(c['quota'][6:]).denominator != 1:
        tags.append('constant_quota_fractional')
        if (c.get('how') or {}).get('quota_as') == 'lambda':
            tags.append('constant_quota_fractional_callable')
    # checklist 11: every evaluate() argument crossed with every constructor option
    tags.append('cross:%s:%s:%s%s' % (sp.policy, 'T' if sp.ae else 'F', 'p' if any(sp.prev.values()) else '-',
                                      'm' if sp.cap else '-'))
    if any(abs(x) > 2 ** 53 for x in sp.v.values()):
        tags.append('beyond_2^53')
    if any(x.denominator != 1 for x in sp.v.values()):
        tags.append('fraction_votes')
    if any(x == 0 for x in sp.v.values()):
        tags.append('zero_vote_party')
    if c['quota'].startswith('const:'):
        tags.append('constant_quota')
    if any(k for k in sp.prev.values()):
        tags.append('prev_nonzero')
    if sp.prev.get(OTHER):
        tags.append('prev_other_party')
    if any(x == sp.q for x in sp.v.values()):
        tags.append('accept_equal_edge')
    if cls == 'cap_binds_on_whole_quotas':
        tags.append('cap_binds')
        if any(sp.p[c_] for c_ in sp.explicit_binds):
            tags.append('cap_with_prev')
    if sp.house_binds:
        tags.append('whole_exceeds_house')
    vmax = max(sp.v.values())
    for name, lo, hi in (('mag:1e9', 10 ** 9, 10 ** 12), ('mag:2^53', 2 ** 53 - 1, 2 ** 55),
                         ('mag:1e18', 10 ** 18, 10 ** 21), ('mag:1e30', 10 ** 30, 10 ** 33)):
        if lo <= vmax < hi:
            tags.append(name)
    if sum(1 for x in sp.v.values() if x == 0) >= 2:
        tags.append('zero_vote_2plus')
    if any(sp.w[c_] > 0 and sp.p[c_] >= sp.w[c_] for c_ in sp.v):
        tags.append('prev_covers_quotas')
    if any(sp.p[c_] > sp.w[c_] for c_ in sp.v) and sp.T <= sp.n and c['op'] == 'lr' and sp.n - sp.T > 0:
        tags.append('negative_remainder_in_play')
    if any(c_ in sp.cap and sp.p[c_] > 0 for c_ in sp.v):
        tags.append('cap_and_prev_same_party')
    how = c.get('how') or {}
    if how.get('quota_as') in ('callable', 'lambda'):
        tags.append('quota_as:' + how['quota_as'])
    if how.get('all_fraction'):
        tags.append('votes_all_fraction')
        if any(x == 0 for x in sp.v.values()):
            tags.append('fraction_zero_vote')
    if how.get('ctor') in ('defaults', 'positional'):
        tags.append('ctor_' + how['ctor'])
    if how.get('call') in ('positional', 'omit_empty'):
        tags.append('call_' + how['call'])
    if how.get('pre'):
        tags.append('same_object_twice')
        for pre in how['pre']:
            ps = Spec(dict(c, **pre))
            if not ps.in_scope or (ps.T > ps.n and ps.policy == 'error'):
                tags.append('after_refusal')
            if any(k for _, k in pre.get('prev') or []) and not sp.prev:
                tags.append('pre_with_prev_then_without')
            if ps.in_scope and sum(ps.base.values()) > sum(sp.base.values()):
                tags.append('larger_then_smaller')
    if how.get('other_first'):
        tags.append('other_object_first')
    if sp.T > sp.n:
        tags.append('policy_' + sp.policy)
        qn = c['quota']
        if qn in ('imperiali', 'hagenbach_bischoff'):
            tags.append('overaward_' + qn)
        tags.append('overaward:' + ('constant' if qn.startswith('const:') else qn))
        if sp.T - sp.n >= 2:
            tags.append('overaward_2plus:' + sp.policy)
        if sp.policy == 'subtract':
            s = sp.subtract()
            if s and any(isinstance(k, tuple) for k in s):
                tags.append('subtract_tie')
            si = sp.subtract_info()
            if si and si['tie'] and si['in_level'] >= 3:
                tags.append('subtract_tie_hit3')
            if si:
                if si['over'] >= 2 and not si['tie'] and not si['consumed']:
                    tags.append('subtract_2plus_untied')
                if si['tie'] and si['in_level'] >= 2:
                    tags.append('subtract_tie_decrement')
                if si['consumed']:
                    tags.append('subtract_level_consumed')
    else:
        if cls == 'plain':
            tags.append(c['op'] + '_plain')
        if c['op'] == 'lr':
            ws = sp.whole_stage()
            want, info = sp.remainder_stage(ws[1])
            if info['tie']:
                tags.append('remainder_tie')
                tk = [k for k in want if isinstance(k, tuple)][0]
                if want[tk] >= 2:
                    tags.append('tie_multi_place')
                if len(tk[1]) >= 3:
                    tags.append('tie_3plus_members')
                if len(tk[1]) >= 4 and want[tk] >= 3:
                    tags.append('tie_4plus_for_3plus_places')
                if len({sp.base[m] + sp.p[m] for m in tk[1]}) >= 2:
                    tags.append('tie_across_wholes')
                    qn = c['quota']
                    if vmax >= 10 ** 17 and (qn.startswith('const:') or qn in INT_QUOTAS):
                        tags.append('tie_across_wholes_big:' + ('constant' if qn.startswith('const:') else qn))
            if info['r'] > len(info['elig']):
                tags.append('remainder_short')
            if sp.cap and any(c_ in sp.cap and c_ not in info['elig'] for c_ in sp.v) and info['r'] > 0:
                tags.append('cap_remainder_only')
            # a near tie at the cut at a magnitude beyond 2^53: the last seated and the first unseated remainder
            # differ by at most two votes
            r, elig, rem = info['r'], info['elig'], info['rem']
            if vmax > 2 ** 53 and 0 < r < len(elig):
                srt = sorted(rem.values(), reverse=True)
                if 0 < (srt[r - 1] - srt[r]) * sp.q <= 2:
                    tags.append('near_tie_big')
    return c


_TIE_CACHE = {}


def _tie_across(qn, Q):
    """an lr case at magnitude Q in which parties with DIFFERENT whole-quota counts have exactly equal remainders at
    the cut (integer-valued quota `qn`; Q is a multiple of 6).  Found by a small deterministic search over shapes
    and seat counts, decided with the textbook quota; None when no shape works."""
    key = (qn, Q)
    if key in _TIE_CACHE:
        return _TIE_CACHE[key]
    h, t3 = Q // 2, Q // 3
    shapes = [[1 * Q + h, 3 * Q + h, 2 * Q], [2 * Q + h, 4 * Q + h, Q + 5], [Q + 2 * t3, 3 * Q + 2 * t3, 2 * Q + 2 * t3],
              [Q + t3, 2 * Q + t3, 4 * Q + t3], [Q + h, 2 * Q + h], [3 * Q + h - 1, Q + h - 1, 2 * Q + 2],
              [Q + h + 1, 2 * Q + h + 1, 3 * Q - 2], [2 * Q + t3 - 1, Q + t3 - 1, 3 * Q + t3 - 1, 2]]
    found = None
    for vals in shapes:
        for n in range(2, 16):
            name = 'const:' + str(Q) if qn == 'constant' else qn
            c = _mk('lr', vals, n, name, True, 'ignore')
            sp = Spec(c)
            if not sp.in_scope or sp.T > sp.n:
                continue
            want, info = sp.remainder_stage(sp.whole_stage()[1])
            if info['tie']:
                tk = [k for k in want if isinstance(k, tuple)][0]
                if len({sp.base[m_] + sp.p[m_] for m_ in tk[1]}) >= 2:
                    found = (vals, n, name)
                    break
        if found:
            break
    _TIE_CACHE[key] = found
    return found


def _directed_audit(rng, k):
    """dimensions added by the generator audit (harness/GENERATOR_CHECKLIST.md)"""
    pol = POLICIES[k % 3]
    op = ['qd', 'lr'][(k // 3) % 2]
    ae = (k // 6) % 2 == 0
    X = [10 ** 9, 2 ** 53 - 1, 2 ** 53 + 1, 10 ** 18, 10 ** 30, 7][k % 6]
    # exact remainder ties across different whole-quota counts, integer-valued quotas, at 6*10^17 / 6*10^29
    for qn in INT_QUOTAS + ['constant']:
        f = _tie_across(qn, 6 * 10 ** (17 if k % 2 == 0 else 29))
        if f:
            yield _mk('lr', f[0], f[1], f[2], ae, pol)
    # magnitudes with a near tie: the remainder seat hangs on one vote
    yield _mk('lr', [X + 1, X, X], 4, 'hare', ae, pol)
    yield _mk('lr', [X, X + 1, X + 2, X], rng.choice([2, 5, 6]), rng.choice(['droop', 'hagenbach_bischoff', 'hare_rounded']), ae, pol)
    yield _mk(op, [3 * X + 1, 2 * X, X - 1], rng.randint(2, 7), rng.choice(QUOTAS), ae, pol)
    # 'subtract' withdrawing 2+ seats with pairwise different margins; a tie that is drawn on twice; a level of equal
    # margins withdrawn completely before a later tie
    x = rng.choice([1, 10, 10 ** 18])
    yield _mk(op, [31 * x, 22 * x + 1, 13 * x + 2], rng.choice([3, 4]), 'const:' + str(10 * x), ae, 'subtract')
    yield _mk(op, [50 * x + 3, 30 * x + 2, 20 * x + 1, 9 * x], 2, 'imperiali', ae, 'subtract')
    yield _mk(op, [20 * x] * 3, 4, 'const:' + str(10 * x), ae, 'subtract')
    yield _mk(op, [20 * x] * 3, 2, 'const:' + str(10 * x), ae, 'subtract')
    yield _mk(op, [20 * x, 20 * x, 20 * x, 15 * x], 3, 'const:' + str(10 * x), ae, 'subtract')
    # over-award under every quota that can over-award
    yield _mk(op, [2, 2, 2, 1], 5, 'hare_rounded', ae, pol)
    yield _mk(op, [2, 2, 2, 1], 4, 'hagenbach_bischoff_rounded', ae, pol)
    yield _mk(op, [2 * x, 2 * x, 2 * x], 5, 'hagenbach_bischoff_ceil', ae, pol)
    yield _mk(op, [25 * x, 25 * x + 1, 11 * x], 4, 'const:' + str(10 * x), ae, pol)
    # two or more zero-vote parties; previous gains that cover (or exceed) all of a party's quotas; caps together with
    # previous gains of the same party and of a party that has no votes
    yield _mk(op, [5 * x, 0, 0, 3 * x], rng.randint(2, 6), rng.choice(QUOTAS), ae, pol)
    yield _mk(op, [50 * x, 30 * x, 20 * x], 10, 'hare', ae, pol, {0: 5, 1: 4})
    yield _mk(op, [50 * x, 30 * x, 20 * x], 10, 'droop', ae, pol, {0: rng.randint(4, 6), OTHER: 2}, {0: rng.randint(3, 6), 1: 2})
    yield _mk('lr', [50 * x, 30 * x, 20 * x], 10, 'hare', ae, pol, {1: 1, 2: 2}, {1: 3, 2: 2})
    # ties over several places and among 3+ parties
    m = rng.randint(4, 6)
    yield _mk('lr', [x] * m, m + rng.randint(2, m - 1), 'hare', ae, pol)
    # how the evaluator is built and called
    base = _mk(op, [47 * x, 16 * x, 37 * x, 0], rng.choice([5, 10]), rng.choice(QUOTAS), ae, pol)
    for how in ({'quota_as': 'callable'}, {'quota_as': 'lambda'}, {'all_fraction': True}, {'ctor': 'defaults'},
                {'ctor': 'positional'}, {'call': 'positional'}, {'call': 'omit_empty'}):
        c = dict(base, _tags=[])
        c['how'] = how
        yield c
    yield dict(_mk(op, [X, 3 * X, 2 * X, 0], 6, 'hare', ae, pol), how={'all_fraction': True})
    yield dict(_mk(op, [47 * X, 16 * X, 37 * X], 10, 'droop', ae, pol), how={'all_fraction': True})
    yield dict(_mk(op, [5 * X, 3 * X + 1, 2 * X - 1], 10, 'const:' + str(X), ae, pol), how={'all_fraction': True})
    # exact multiples of a 31-digit quota, typed Fraction: float division would misround 3q/q, 6q/q, 21q/q
    Qc = 10 ** 30 + 7
    yield dict(_mk(op, [3 * Qc, 6 * Qc, 21 * Qc, 5 * Qc], 35 + (k % 2), 'const:' + str(Qc), ae, pol), how={'all_fraction': True})
    yield dict(_mk(op, [12 * Qc, 3 * Qc], 15, 'hare', ae, pol), how={'all_fraction': True})
    # previous gains EXCEEDING a party's quotas: its remainder is negative and must stay behind the zero remainders
    yield _mk('lr', [50 * x, 30 * x, 20 * x], rng.choice([12, 13]), 'const:' + str(10 * x), ae, pol, {1: 4})
    yield _mk('lr', [50 * x, 30 * x + 1, 20 * x], 12, 'const:' + str(10 * x), ae, pol, {1: 5, 2: 1})
    yield dict(_mk('qd', [47 * x, 16 * x, 37 * x], 10, 'droop', True, 'error'), how={'ctor': 'defaults'})
    yield dict(_mk(op, [60, 40], 2, 'const:' + rng.choice(['30', '61/2']), ae, pol), how={'quota_as': 'lambda'})
    # the same object called twice: larger then smaller, after a refusal, previous gains first and then left out
    small = _mk(op, [7 * x, 5 * x, 2 * x], 4, rng.choice(['hare', 'droop', 'imperiali']), ae, pol)
    small['how'] = {'pre': [{'votes': [[0, num_str(70 * x)], [1, num_str(50 * x)], [2, num_str(20 * x)], [3, num_str(9 * x)]],
                             'n': 12, 'prev': [], 'max': []}], 'call': 'omit_empty'}
    yield small
    ref = _mk(op, [50 * x, 30 * x, 20 * x], 10, 'hare', ae, 'error')
    ref['how'] = {'pre': [{'votes': [[0, num_str(90 * x)], [1, num_str(10 * x)]], 'n': 3, 'prev': [[0, 2], [1, 2]], 'max': []},
                          {'votes': [[0, '1']], 'n': 3, 'prev': [], 'max': []}]}
    ref['quota'] = rng.choice(['hare', 'hare_rounded'])
    yield ref
    pw = _mk(op, [50 * x, 30 * x, 20 * x], 10, rng.choice(QUOTAS), ae, pol)
    pw['how'] = {'pre': [{'votes': [[0, num_str(50 * x)], [1, num_str(30 * x)], [2, num_str(20 * x)]], 'n': 10,
                          'prev': [[0, 3], [OTHER, 1]], 'max': [[1, 1]]}], 'call': 'omit_empty'}
    yield pw
    oth = _mk(op, [50 * x, 30 * x, 20 * x], 4, 'imperiali', ae, pol)        # over-awards (5 > 4): the policy decides
    oth['how'] = {'other_first': {'config': {'quota': 'hagenbach_bischoff', 'accept_equal': not ae,
                                             'on_overaward': POLICIES[(k + 1) % 3]},
                                  'call': {'votes': [[0, num_str(9 * x)], [1, num_str(x)]], 'n': 2, 'prev': [], 'max': []}}}
    yield oth


def _directed_1013(rng, k):
    """checklist items 10-12: multiplicity of the rare event, arguments x options, unusual but documented ranges"""
    pol = POLICIES[k % 3]
    op = ['qd', 'lr'][(k // 3) % 2]
    ae = (k // 6) % 2 == 0
    x = rng.choice([1, 7, 10 ** 18])
    # the same tie group drawn on three times by 'subtract' (four level parties, three withdrawals); 4-6 level parties
    # contesting 3+ remainder places
    yield _mk(op, [20 * x] * 4, 5, 'const:' + str(10 * x), ae, 'subtract')
    yield _mk(op, [20 * x] * 4 + [5 * x], 5, 'const:' + str(10 * x), ae, 'subtract', {OTHER: 0})
    m = rng.randint(4, 6)
    yield _mk('lr', [x] * m + [3 * x], m + 3 + 3, 'hare', ae, pol)
    yield _mk('lr', [x] * m, rng.randint(3, m - 1), 'droop', ae, pol)
    # two or more seats over-awarded, under every policy
    for p_ in POLICIES:
        yield _mk(op, [31 * x, 22 * x + 1, 13 * x + 2], 3, 'const:' + str(10 * x), ae, p_)
    # fewer voters than seats, seats far above the voters, quota below one vote, sub-unit and rational totals,
    # shares summing to one
    yield _mk(op, [3, 2], rng.choice([50, 400]), rng.choice(['hare', 'hagenbach_bischoff', 'imperiali', 'droop']), ae, pol)
    yield _mk(op, [Fraction(1, 2), Fraction(1, 3), Fraction(1, 6)], rng.choice([6, 7, 12]),
              rng.choice(['hare', 'hagenbach_bischoff', 'imperiali']), ae, pol)
    yield _mk(op, [Fraction(1, 4), Fraction(1, 5), 0], rng.choice([3, 9]), rng.choice(['hare', 'imperiali', 'droop']), ae, pol)
    yield _mk(op, [Fraction(2, 7), Fraction(5, 7)], 7, 'const:1/7', ae, pol)
    yield dict(_mk(op, [Fraction(7, 2), Fraction(5, 3), 1], 4, 'const:' + rng.choice(['3/4', '5/3', '1/2']), ae, pol),
               how={'quota_as': 'lambda'})
    yield _mk(op, [5 * x, 3 * x, 2 * x], 3, rng.choice(QUOTAS), ae, pol)          # n = number of parties
    # n_seats = 0 where the quota admits it
    yield _mk(op, [7, 3], 0, rng.choice(['droop', 'hagenbach_bischoff', 'imperiali', 'const:2']), ae, pol)
    # prev_gains x max_seats x policy x accept_equal, all sixteen argument patterns of this round's option pair
    vals = [50 * x, 30 * x, 20 * x, 0]
    for pr in ({}, {0: 2, OTHER: 1}, {1: 4}, {0: 1, 2: 1}):
        for mx in ({}, {0: 3}, {1: 2, 3: 0}, {0: 4, 2: 2}):
            for p_, a_ in ((pol, ae), (POLICIES[(k + 1) % 3], not ae)):
                yield _mk(op, vals, rng.choice([6, 10]), QUOTAS[(k + len(pr) + len(mx)) % len(QUOTAS)], a_, p_, pr, mx)


def _vary_how(rng, c):
    """random cases: every third one is built / called differently, every seventh one on a used object"""
    how = {}
    r = rng.random()
    if r < 0.33:
        if rng.random() < 0.5:
            how['quota_as'] = rng.choice(['callable', 'lambda'])
        if rng.random() < 0.3:
            how['all_fraction'] = True
        if rng.random() < 0.4:
            how['ctor'] = rng.choice(['defaults', 'positional'])
        if rng.random() < 0.4:
            how['call'] = rng.choice(['positional', 'omit_empty'])
    if rng.random() < 0.14:
        # an earlier call on the same object: the same parties with up to three times the votes (same magnitude, so
        # that the shared quota setting stays meaningful), more seats, sometimes previous gains
        pv = [[i, num_str(Fraction(v_) * rng.choice([1, 2, 3]) + rng.choice([0, 0, 1]))] for i, v_ in c['votes']]
        pp = [[i, rng.randint(0, 3)] for i, _ in c['votes'] if rng.random() < 0.3]
        how['pre'] = [{'votes': pv, 'n': c['n'] + rng.randint(0, 4), 'prev': pp, 'max': []}]
    if how:
        c['how'] = how
    return c


def generate(rng, tier):
    N = 2500 if tier == 'quick' else 60000
    D = 12 if tier == 'quick' else 200
    Q = 300 if tier == 'quick' else 5000
    for k in range(D):
        for j, c in enumerate(itertools.chain(_directed(rng, k), _directed_audit(rng, k), _directed_1013(rng, k))):
            c['_tags'].append('directed')
            mode = NAME_MODES[(k + j) % len(NAME_MODES)]          # every directed shape under every naming mode
            if mode != 'str':
                c['_names'] = mode
                c['_tags'].append('names:' + mode)
            yield _tag(c)
    for _ in range(N):
        yield _tag(_vary_how(rng, _random_case(rng)))
    for c in _quota_cases(rng, Q):
        yield c
    if tier == 'thorough':
        for c in _exhaustive(tier):
            yield _tag(c)


RULE = ('qd / lr: 1-6 parties, votes from tie-forcing small sets, 0..1000, 10^16..3*10^30 and Fractions, zero-vote parties; '
        'n 1..12; the seven named quotas and constant quotas; accept_equal both ways; the three over-award policies; '
        'prev_gains (incl. a party without votes) and max_seats in 35 % of the cases each; directed cases for every '
        'required counter; thorough tier adds two completely enumerated small scopes: every vote vector over {0..3}^(<=3) x '
        'n<=4 x 6 quotas x 3 policies x 2 ops x accept_equal, and every two-party vector over {0..5}^2 x n<=4 x 4 prev_gains '
        'x 6 max_seats x 3 quotas x 3 policies x 2 ops.  Generator audit (GENERATOR_CHECKLIST.md): magnitudes 10^9 / 2^53+-1 / '
        '10^18 / 10^30 with near ties and with exact remainder ties across different whole-quota counts for every '
        'integer-valued quota; quota given as name / registered callable / caller-written callable / quota.constant(int | '
        'Fraction); votes all typed Fraction (incl. Fraction(0)); constructor by keyword / positional / defaults; evaluate by '
        'keyword / positional / omitted empty arguments; the same object called twice (larger then smaller, after a refusal, '
        'previous gains then none) and another object of the class built and used in between; naming modes str / int0 / '
        'empty0 / person on every directed shape; subtract with 2+ untied withdrawals, a tie drawn on twice, a level '
        'consumed; over-award under every quota that can; 2+ zero-vote parties; previous gains covering or exceeding the '
        'quotas; caps with previous gains.  quota: totals 0..200, exact halves, 10^16..10^30, Fractions; n 1..12.  Non-trivial = at least '
        'two parties and a non-error result (or any quota evaluation); distinct by canonical request.')
NOT_VERIFIED = ['dict insertion order is the protocol order (CPython dict semantics)',
                'a Tie whose members are Tie objects is not representable in the model (answers Model:NestedTie; never observed)',
                'int / Fraction arithmetic of CPython is exact rational arithmetic']
EXHAUSTIVE = {'thorough': False}
UNPROVED = []
TECHNIQUE = ('Lean 4 proofs about an executable model of QuotaDistributor / LargestRemainder (unbounded) + translated quota '
             'functions + differential correspondence with votelib')
LEVEL_TEXT = ('QuotaDistributor.evaluate (incl. _subtract_overaward) and LargestRemainder.evaluate '
              'are modelled line for line in Lean; the quota functions are regenerated from quota.py on every run. Proved for ALL '
              'inputs (no size bound): every named quota equals its textbook closed form; without a binding cap the whole-quota '
              'awards are max(floor(v/q)-prev,0) with the accept_equal edge; error / ignore / subtract are honoured exactly '
              '(subtract: every pass withdraws one seat from the holder(s) of the smallest margin, ties as Tie, final total n); '
              'LargestRemainder = whole quotas + one seat per place of get_n_best over the exact remainders of the parties below '
              'their cap (at most one per party, larger remainders first, ties at the cut exactly the level set), total = n when '
              'the open seats do not outnumber the eligible parties - proved outright for Hare, Hagenbach-Bischoff, Imperiali; '
              'Droop never over-awards; the Hare quota rule floor(share) <= seats <= ceil(share). Caps (after repair 9571110), with no '
              'side condition: a party never exceeds its cap, sits exactly on it when its whole quotas reach it, every other '
              'party keeps at least its whole quotas, and the total is still n when the open seats do not outnumber the parties '
              'below their cap; the policies are honoured for every well-formed request. The repaired defects stay as theorems '
              'about the pre-repair model VL.QDPre.')
LEVEL_NOTE = ('Trusted: Lean kernel + propext/Classical.choice/Quot.sound; translate.py + Py.lean primitives for the quota functions; '
              'the hand-written model is tied to /repo by the differential correspondence (bounded by the generator: 1-6 parties, '
              'n<=12, int/Fraction votes up to 3*10^30, prev_gains/max_seats) and the independent Fraction oracle. Findings C02-a/b/d '
              '(cap overshoot branch, fixed by 9571110), C02-e (constant quota + error, 24bad1e) and C02-c (6adacaa) are replayed '
              'as fixed entries on every run.')
