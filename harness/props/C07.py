"""C07 — BiproportionalEvaluator: both marginals, zero cells, divisor-consistency (multipliers exist),
refusal only when infeasible, termination (wall clock).

Technique: VERIFIED CERTIFICATE CHECKERS.  For every output of the real evaluator the harness computes an
exact certificate (multipliers by multiplicative Bellman-Ford; for a refusal a Hall cut by max-flow) and the
certificate is checked by the Lean functions `VL.Biprop.bipropCheckL` / `infeasibleCheckL` through the driver
(ops `biprop_cert` / `infeasible_cert`), whose soundness is proved for matrices of any size
(`VL.C07.bipropCheck_sound`, `infeasible_sound`).  In addition a fuelled Lean port of the whole evaluator
(`VL.Biprop.evaluate`) is run on the same input and compared step for step (seat matrix, final multipliers,
number of transfers, sequence of adjustment coefficients).
"""
import copy
import atexit
import itertools
import subprocess
from fractions import Fraction
from common import *   # noqa

ID = 'C07'
NAMESPACE = 'VL.C07'
LEAN_MODULES = ['VotelibProofs.Props.C07']
GEN_MODULES = ['Divisor']
REQUIRED = ['bipropCheck_sound', 'bipropCheckL_sound', 'infeasible_sound', 'infeasibleCheckL_sound',
            'isRounding_zero_votes', 'd_hondt_signpost', 'sainte_lague_signpost',
            'd_hondt_signpostDiv', 'sainte_lague_signpostDiv',
            'augment_preserves_columns', 'transfer_cell_up', 'transfer_cell_down', 'transfer_preserves_inv',
            'update_preserves_inv', 'step_done_rows', 'run_ok_rows', 'run_preserves_columns', 'run_ok_sound',
            'evaluate_ok_sound', 'initState_consistent', 'evaluate_sound', 'evaluate_marginals',
            'partySeats_divisor_method', 'districtSeats_divisor_method',
            'step_refusal_justified', 'run_refusal_justified', 'evaluate_refusal_justified',
            'firstAppearance_covers', 'ordCovers_range',
            'step_crash_free', 'run_crash_free', 'evaluate_crash_free',
            'transfer_lowers_flaw', 'update_keeps_flaw', 'pass_lowers_potential', 'run_terminates', 'evaluate_terminates']
REQUIRED_COUNTERS = ['transfer_step', 'coef_update', 'zero_cell', 'refusal', 'tie_in_initial_allocation',
                     'zero_vote_party', 'seats_total', 'seats_dict', 'seats_custom', 'd_hondt', 'sainte_lague',
                     'cert_checked_by_lean', 'cut_checked_by_lean', 'large_counts', 'str_keys', 'init_ok_confirmed',
                     'own_multipliers_certify', 'sparse_dict', 'name_clash', 'name_clash_transfer',
                     # generator audit (GENERATOR_CHECKLIST.md)
                     'votes_fraction', 'votes_fractional', 'falsy_fraction_zero', 'fraction_den_above_1e6',
                     'mag_2p53', 'mag_1e18', 'mag_1e30', 'mag_1e400', 'near_tie_big',
                     'keys_empty0', 'keys_empty0p', 'keys_person', 'keys_person_d',
                     'div_callable', 'signpost_q_explicit',
                     'custom_lr_hare', 'custom_ha_other', 'custom_uniform', 'custom_dict', 'custom_lr_droop', 'custom_qd_hare',
                     'custom_ha_same', 'custom_dict2',
                     'zero_vote_district', 'two_zero_vote_parties', 'single_party_district', 'large_matrix', 'degenerate_dim',
                     'seatless_party', 'seatless_party_tips_district',
                     'second_call_same_object', 'second_call_after_refusal', 'second_call_smaller', 'other_config_first',
                     'party_order_not_by_index', 'sparse_first_district_lacks_party0',
                     'far_from_proportional_dict', 'passes_within_proved_bound']
RULE = ('2-6 districts x 2-6 parties, non-negative integer votes (tiny 0-3, small, mid, up to 10^25; zero cells given as 0 or '
        'as a missing key; zero-vote '
        'parties), D\'Hondt and Sainte-Lague, seats as a total (1..~5m), explicit per-district dict, or custom apportioner '
        '(LargestRemainder hare, HighestAverages of the other rule, uniform int, dict apportioner); only instances whose two '
        'marginal apportionments are tie-free (real HighestAverages and an independent reference agree on that); district / '
        'party keys as disjoint ints, disjoint strs, or CLASHING (party j named like district j; ints or strs, ~20% of cases). '
        'Non-trivial = at least one tie-and-transfer iteration or a refusal; distinct by canonical request.')
NOT_VERIFIED = [
    'termination of the REAL loop is runtime behaviour: monitored by wall clock (5 s per call).  For the Lean port '
    'termination is proved (run_terminates / evaluate_terminates: every pass lowers the measure (flaw/2)*(m+n+2) + room for '
    'labels, so fuel above (flaw0/2 + 1)*(m + n + 2) is never exhausted) and the harness compares the number of passes of '
    'port and implementation on every modelled case; the observed maximum is reported under `assumptions` in the evidence',
    'all theorems about the port (evaluate_sound, evaluate_marginals, evaluate_refusal_justified, evaluate_crash_free, '
    'evaluate_terminates) carry over to votelib only through the differential correspondence (generator bounds), and the '
    'refusal / termination theorems are for q in {0, 1/2}, the two rules of the property',
    'iteration orders: parties in order of first appearance in the input dicts (modelled exactly: firstAppearance of the '
    'presence mask, the harness inserts keys by ascending index); districts in the order of the input dict (= row index); '
    '_districts_unsat iterates a frozenset, modelled as ascending district index (CPython order for the small-int keys of '
    'the correspondence) - with str / object keys that order depends on the hash seed, those cases are certificate-checked only',
    'HighestAverages sorted-list/bisect bookkeeping is modelled as a pool from which the batch of maximal quotients is taken',
    'SIGNPOST_QS lookup: q is read from the real class attribute (or from the explicit signpost_q argument) and passed to '
    'the model',
    'outside the quantifier (D\'Hondt and Sainte-Lague only), observed, not checked: (1) the documented route "other divisor + '
    'explicit signpost_q" does not work for q outside {0, 1/2}: the conjunct int(quotient) == quotient - q of '
    '_is_upgradable/_is_downgradable only holds there, so no cell is ever tied and e.g. BiproportionalEvaluator("danish", '
    'signpost_q=Fraction(2,3)) refuses a plain feasible 3x3 instance ("invalid adjustment coefficient 1"); (2) a '
    'modified_first_coef divisor has a non-stationary first signpost, which no signpost_q can express, so its initial '
    'solution is not consistent with the multipliers; (3) Decimal vote counts raise TypeError inside HighestAverages '
    '(Fraction(Decimal, int)) before the evaluator starts',
]
UNPROVED = []      # for the Lean port everything the property asks is proved (correctness of every returned matrix, refusal
#                    only when infeasible, no crash, termination); what is NOT proved is listed in NOT_VERIFIED: the port
#                    is tied to votelib by the differential correspondence, not by proof
EXHAUSTIVE = {'thorough': True}
TECHNIQUE = ('verified certificate checkers in Lean 4 (soundness proved for matrices of any size) applied to every output of the '
             'real evaluator, exact certificates computed by the harness; plus a fuelled Lean port of tie-and-transfer with '
             'partial-correctness invariant, compared step for step with votelib')
LEVEL_TEXT = ('Every output (seat matrix or refusal) of the real BiproportionalEvaluator on every generated instance is certified by '
              'Lean functions whose soundness is proved without size bound: bipropCheck_sound (both marginals, zero cells, positive '
              'multipliers, every cell a signpost rounding) and infeasible_sound (Hall cut => no matrix exists).  In addition the whole '
              'evaluator (HighestAverages calls, initial solution with tie spreading, initial party multipliers, labelling, transfer, '
              'multiplier update) is ported to Lean and proved partially correct for all matrices, seat totals and both divisor rules: '
              'whatever it returns meets the district apportionment, has the highest-averages party apportionment as column sums (itself '
              'proved a divisor-method apportionment), seats no zero-vote cell and is a cell-wise rounding under its final multipliers '
              '(evaluate_sound, evaluate_marginals), and a VotingSystemError of the port is proved to occur only when no seat matrix with '
              'these marginals and zero cells exists (evaluate_refusal_justified: the labels at the refusal are a Hall cut accepted '
              'by the verified checker); the port is compared step for step with votelib on every check.')
LEVEL_NOTE = ('Trusted: Lean kernel + propext/Classical.choice/Quot.sound; translate.py for the divisor functions; the certificate '
              'search (Bellman-Ford / max-flow) is untrusted - a wrong certificate is rejected by the verified checker, a missing '
              'one is reported as a violation; generator bounds 2-6 x 2-6; termination by wall clock only.')

DIVS = ['d_hondt', 'sainte_lague']
P_OFF = 100          # int party keys are P_OFF + j so that district and party keys do not coincide ...
# ... except in the name-clash modes: keys = 'int_clash' (party j is the int j, like district j) and 'str_clash'
# (party j is called 'd<j>', like district j).  Nothing in the property or in votelib's types forbids a party and a
# district to share a name; the model works on ids, so correspondence and certificate oracle expose any dependence.
KEY_MODES = ('int', 'str', 'int_clash', 'str_clash')


# ------------------------------------------------------------------------------------------------
# independent reference: divisor apportionment (textbook), exact

def _div(name, k):
    return k + 1 if name == 'd_hondt' else 2 * k + 1


def ha_ref(votes, n, divisor):
    """seats per position by the textbook divisor method, None if the n-th and (n+1)-th quotient tie"""
    if n == 0:
        return [0] * len(votes)
    qs = []
    for i, v in enumerate(votes):
        for k in range(n + 1):
            qs.append((Fraction(v, _div(divisor, k)), i))
    qs.sort(key=lambda t: -t[0])
    if len(qs) <= n:
        return None
    if qs[n - 1][0] == qs[n][0]:
        return None
    out = [0] * len(votes)
    for qv, i in qs[:n]:
        out[i] += 1
    return out


def signpost_q(divisor):
    return Fraction(0) if divisor == 'd_hondt' else Fraction(1, 2)


# ------------------------------------------------------------------------------------------------
# certificate search (untrusted; every certificate is checked by the verified Lean function)

def find_multipliers(V, X, q):
    """exact multipliers rho_i, gamma_j > 0 with s(x) <= v*rho*gamma <= s(x+1) on every cell, or a cycle.
    Difference constraints in multiplicative form on the bipartite graph: A_i = rho_i, C_j = 1/gamma_j;
      A_i <= hi_ij * C_j            (v rho gamma <= s(x+1))
      C_j <= A_i / lo_ij   if x>0   (v rho gamma >= s(x))
    Bellman-Ford from the all-ones start; a cycle of weight product < 1 proves that no multipliers exist."""
    m, n = len(V), len(V[0])
    edges = []       # (src, dst, weight, info): val[dst] <= weight * val[src]
    for i in range(m):
        for j in range(n):
            v, x = V[i][j], X[i][j]
            if v == 0:
                if x != 0:
                    return None, [('zero-vote cell holds seats', i, j)]
                continue
            hi = Fraction(x + 1 - q) / v
            edges.append((('C', j), ('A', i), hi, ('hi', i, j)))
            if x > 0:
                lo = Fraction(x - q) / v
                edges.append((('A', i), ('C', j), 1 / lo, ('lo', i, j)))
    val = {('A', i): Fraction(1) for i in range(m)}
    val.update({('C', j): Fraction(1) for j in range(n)})
    pred = {}
    last = None
    for rnd in range(m + n + 1):
        last = None
        for s, d, w, info in edges:
            nv = w * val[s]
            if nv < val[d]:
                val[d] = nv
                pred[d] = (s, info, w)
                last = d
        if last is None:
            break
    if last is not None:
        node = last
        for _ in range(m + n + 1):
            node = pred[node][0]
        cyc, cur = [], node
        prod = Fraction(1)
        while True:
            s, info, w = pred[cur]
            cyc.append((info[0], info[1], info[2], num_str(w)))
            prod *= w
            cur = s
            if cur == node:
                break
        return None, [('cycle', num_str(prod))] + cyc
    rho = [val[('A', i)] for i in range(m)]
    gamma = [1 / val[('C', j)] for j in range(n)]
    return (rho, gamma), None


def _maxflow_cut(V, row, col):
    """max-flow source -> districts (row) -> parties (col) -> sink through cells with votes;
    returns (flow, reachable districts, reachable parties) of the residual graph"""
    m, n = len(V), len(V[0])
    N = m + n + 2
    s, t = m + n, m + n + 1
    INFC = sum(row) + sum(col) + 1
    cap = [[0] * N for _ in range(N)]
    for i in range(m):
        cap[s][i] = row[i]
        for j in range(n):
            if V[i][j] != 0:
                cap[i][m + j] = INFC
    for j in range(n):
        cap[m + j][t] = col[j]
    flow = 0
    while True:
        par = {s: None}
        queue = [s]
        while queue and t not in par:
            u = queue.pop(0)
            for w in range(N):
                if cap[u][w] > 0 and w not in par:
                    par[w] = u
                    queue.append(w)
        if t not in par:
            reach = set(par)
            return flow, sorted(i for i in range(m) if i in reach), sorted(j for j in range(n) if m + j in reach)
        b, w = INFC, t
        while par[w] is not None:
            b = min(b, cap[par[w]][w])
            w = par[w]
        w = t
        while par[w] is not None:
            cap[par[w]][w] -= b
            cap[w][par[w]] += b
            w = par[w]
        flow += b


def find_cut(V, row, col):
    """(S, T) accepted by infeasibleCheck, or None when a seat matrix with these marginals and zero cells exists"""
    flow, S, T = _maxflow_cut(V, row, col)
    if flow < sum(row):
        return S, T               # districts S vote only for parties T and need more than T holds
    Vt = [list(c) for c in zip(*V)]
    flow2, T2, S2 = _maxflow_cut(Vt, col, row)
    if flow2 < sum(col):
        return S2, T2             # parties T2 have votes only in districts S2 and hold more than S2 may take
    return None


# Python twins of the Lean checkers: used ONLY to cross-check the driver's answer (a difference is a harness error)
def _is_rounding(q, t, x):
    return (x == 0 or x - q <= t) and t <= x + 1 - q


def _twin_biprop(q, V, row, col, X, rho, gamma):
    m, n = len(row), len(col)
    if len(V) != m or len(X) != m or any(len(r) != n for r in V) or any(len(r) != n for r in X):
        return False
    if len(rho) != m or len(gamma) != n:
        return False
    return (all(sum(X[i]) == row[i] for i in range(m)) and all(sum(X[i][j] for i in range(m)) == col[j] for j in range(n))
            and all(r > 0 for r in rho) and all(g > 0 for g in gamma)
            and all((V[i][j] != 0 or X[i][j] == 0) and _is_rounding(q, V[i][j] * rho[i] * gamma[j], X[i][j])
                    for i in range(m) for j in range(n)))


def _twin_cut(V, row, col, S, T):
    m, n = len(row), len(col)
    if len(V) != m or any(len(r) != n for r in V):
        return False
    rs = sum(row[i] for i in range(m) if i in S)
    cs = sum(col[j] for j in range(n) if j in T)
    f1 = all(i not in S or j in T or V[i][j] == 0 for i in range(m) for j in range(n)) and cs < rs
    f2 = all(i in S or j not in T or V[i][j] == 0 for i in range(m) for j in range(n)) and rs < cs
    return f1 or f2


# ------------------------------------------------------------------------------------------------
# the verified checkers, through the driver (persistent process)

class _Lean:
    proc = None
    used = 0

    @classmethod
    def ask(cls, line):
        if cls.proc is None or cls.proc.poll() is not None:
            if not os.path.exists(driver_path(ID)):
                return None
            cls.proc = subprocess.Popen([driver_path(ID)], stdin=subprocess.PIPE, stdout=subprocess.PIPE, text=True, bufsize=1)
            atexit.register(cls.close)
        cls.proc.stdin.write(json.dumps(line, separators=(',', ':')) + '\n')
        cls.proc.stdin.flush()
        ans = cls.proc.stdout.readline()
        if not ans:
            raise RuntimeError('C07 driver died on ' + json.dumps(line)[:300])
        cls.used += 1
        return json.loads(ans)

    @classmethod
    def close(cls):
        if cls.proc is not None and cls.proc.poll() is None:
            try:
                cls.proc.stdin.close()
                cls.proc.wait(timeout=5)
            except Exception:
                cls.proc.kill()
        cls.proc = None


def lean_biprop_cert(q, V, row, col, X, rho, gamma):
    line = {'op': 'biprop_cert', 'q': num_str(q), 'votes': [[num_str(v) for v in r] for r in V], 'row': row, 'col': col,
            'x': X, 'rho': [num_str(r) for r in rho], 'gamma': [num_str(g) for g in gamma]}
    twin = _twin_biprop(q, V, row, col, X, rho, gamma)
    ans = _Lean.ask(line)
    if ans is None:
        return twin, 'python-twin (driver missing)'
    if not isinstance(ans, bool):
        raise RuntimeError(f'biprop_cert driver answer {ans!r}')
    if ans != twin:
        raise RuntimeError(f'verified checker and its Python twin differ on {json.dumps(line)}: lean={ans} twin={twin}')
    return ans, 'lean'


def lean_infeasible_cert(V, row, col, S, T):
    line = {'op': 'infeasible_cert', 'votes': [[num_str(v) for v in r] for r in V], 'row': row, 'col': col, 'S': S, 'T': T}
    twin = _twin_cut(V, row, col, S, T)
    ans = _Lean.ask(line)
    if ans is None:
        return twin, 'python-twin (driver missing)'
    if not isinstance(ans, bool):
        raise RuntimeError(f'infeasible_cert driver answer {ans!r}')
    if ans != twin:
        raise RuntimeError(f'verified checker and its Python twin differ on {json.dumps(line)}: lean={ans} twin={twin}')
    return ans, 'lean'


# ------------------------------------------------------------------------------------------------
# running the real evaluator

_PERSONS = {}


def _person(prefix, i):
    """votelib.candidate.Person objects (identity semantics): one object per (prefix, index) for the whole run"""
    import votelib.candidate
    key = (prefix, i)
    if key not in _PERSONS:
        _PERSONS[key] = votelib.candidate.Person(f'{prefix}{i}')
    return _PERSONS[key]


def _dk(case, i):
    k = case.get('keys', 'int')
    if k.startswith('int'):
        return i
    if k == 'empty0':
        return '' if i == 0 else f'd{i}'
    if k == 'person_d':
        return _person('D', i)
    return f'd{i}'


def _pk(case, j):
    k = case.get('keys', 'int')
    if k == 'int':
        return P_OFF + j
    if k == 'int_clash':
        return j
    if k == 'str_clash':
        return f'd{j}'
    if k == 'empty0p':
        return '' if j == 0 else f'p{j}'
    if k == 'person':
        return _person('P', j)
    return f'p{j}'


def _num(s):
    f = Fraction(s)
    return int(f) if f.denominator == 1 else f


def _matrix(case, votes=None):
    """exact values of the cells: int where integral, else Fraction"""
    return [[_num(s) for s in r] for r in (case['votes'] if votes is None else votes)]


def _votes_dict(case, votes=None):
    V = _matrix(case, votes)
    sparse = case.get('sparse', False) and votes is None
    wrap = Fraction if case.get('vtype', 'int') == 'frac' else (lambda v: v)
    return {_dk(case, i): {_pk(case, j): wrap(v) for j, v in enumerate(r) if not (sparse and v == 0)} for i, r in enumerate(V)}


def _apportioner(case, sp=None):
    """(constructor argument `apportioner`, evaluate argument `n_seats`)"""
    import votelib.evaluate.proportional as vp
    sp = sp or case['seats']
    if sp['kind'] == 'total':
        return None, sp['n']
    if sp['kind'] == 'dict':
        return None, {_dk(case, i): r for i, r in enumerate(sp['rows'])}
    a = sp['apportioner']
    if a == 'lr_hare':
        return vp.LargestRemainder('hare'), sp['n']
    if a == 'ha_other':
        return vp.HighestAverages('sainte_lague' if case['divisor'] == 'd_hondt' else 'd_hondt'), sp['n']
    if a == 'uniform':
        return sp['rows'][0], sp['n']
    if a == 'dict':
        return {_dk(case, i): r for i, r in enumerate(sp['rows'])}, sp['n']
    if a == 'lr_droop':
        return vp.LargestRemainder('droop'), sp['n']
    if a == 'qd_hare':
        return vp.QuotaDistributor('hare'), sp['n']
    if a == 'ha_same':
        return vp.HighestAverages(case['divisor']), sp['n']
    if a == 'dict2':       # apportioner dict AND a per-district n_seats dict: the former gives the district seats, the latter the total
        return ({_dk(case, i): r for i, r in enumerate(sp['rows'])}, {_dk(case, i): r for i, r in enumerate(sp['nrows'])})
    raise ValueError(a)


def _total(case, sp=None):
    sp = sp or case['seats']
    if 'nrows' in sp:
        return sum(sp['nrows'])
    return sp['n'] if 'n' in sp else sum(sp['rows'])


def _ctor_args(case):
    """(divisor_function argument, extra keyword arguments) as the case's `divspec` asks:
    name / callable, signpost_q left to the class table or given explicitly (int or Fraction)"""
    import votelib.component.divisor as vd
    ds = case.get('divspec', 'name')
    div = getattr(vd, case['divisor']) if ds.startswith('callable') else case['divisor']
    kw = {}
    if ds.endswith('_q'):
        kw['signpost_q'] = 0 if case['divisor'] == 'd_hondt' else Fraction(1, 2)
    elif ds.endswith('_qF'):
        kw['signpost_q'] = Fraction(0) if case['divisor'] == 'd_hondt' else Fraction(1, 2)
    return div, kw


def _make_evaluator(case, log):
    import votelib.evaluate.proportional as vp

    class Instrumented(vp.BiproportionalEvaluator):
        """the real evaluator; the overridden hooks only record what passes through them"""
        def _initial_solution(self, votes, n_seats):
            r = super()._initial_solution(votes, n_seats)
            log['init'] = copy.deepcopy(r)
            return r

        def _initial_party_coefs(self, votes, seats):
            r = super()._initial_party_coefs(votes, seats)
            log['pc'] = r            # the live dict: updated in place by evaluate
            return r

        def _adj_coef(self, *a, **k):
            c = super()._adj_coef(*a, **k)
            log['updates'].append(c)
            return c

    app, n_seats = _apportioner(case)
    div, kw = _ctor_args(case)
    ev = Instrumented(div, apportioner=app, **kw)
    base_aug = vp.BiproportionalEvaluator._augment_result
    base_quots = vp.BiproportionalEvaluator._calc_quots

    def aug(*a, **k):
        log['transfers'] += 1
        return base_aug(*a, **k)

    def quots(votes, district_coefs, party_coefs):
        log['dc'] = district_coefs   # live dict
        return base_quots(votes, district_coefs, party_coefs)
    ev._augment_result = aug
    ev._calc_quots = quots
    return ev, n_seats


def _dense(case, res):
    m, n = len(case['votes']), len(case['votes'][0])
    out = []
    for i in range(m):
        row = res.get(_dk(case, i), {})
        out.append([row.get(_pk(case, j), 0) for j in range(n)])
    known = {(_dk(case, i), _pk(case, j)) for i in range(m) for j in range(n)}
    extra = [[repr(d), repr(p), repr(v)] for d, r in res.items() for p, v in r.items() if (d, p) not in known and v]
    return out, extra


def impl(case):
    import votelib.evaluate.core as vcore
    m, n = len(case['votes']), len(case['votes'][0])
    votes = _votes_dict(case)
    log = {'transfers': 0, 'updates': [], 'init': None, 'pc': None, 'dc': None}
    obs = {}
    try:
        ev, n_seats = _make_evaluator(case, log)
        # earlier calls: on this very object (state between calls) or on another, differently configured one (class state)
        for pre in case.get('pre', []):
            import votelib.evaluate.proportional as vp
            pv = _votes_dict(case, pre['votes'])
            papp, pn = _apportioner(case, pre['seats'])
            try:
                if pre.get('same', True):
                    call_with_timeout(lambda: ev.evaluate(pv, pn), 5)
                else:
                    call_with_timeout(lambda: vp.BiproportionalEvaluator(pre['divisor'], apportioner=papp).evaluate(pv, pn), 5)
            except Exception:      # noqa  (a refusal or crash of the earlier call is part of the history)
                pass
        log.update({'transfers': 0, 'updates': [], 'init': None, 'pc': None, 'dc': None})
        # the district apportionment the evaluator aims at, by the library's own apportion() call
        try:
            tgt = vcore.apportion(votes, n_seats, ev.apportioner if ev.apportioner is not None else ev._eval)
            if any(isinstance(k, vcore.Tie) for k in tgt):
                obs['row_impl'] = 'tie'
            else:
                obs['row_impl'] = [tgt.get(_dk(case, i), 0) for i in range(m)]
        except Exception as e:      # noqa
            obs['row_impl'] = 'err:' + err_name(e)
        res = call_with_timeout(lambda: ev.evaluate(votes, n_seats), 5)
        seats, extra = _dense(case, res)
        obs['seats'] = seats
        if extra:
            obs['extra_cells'] = extra
        obs['transfers'] = log['transfers']
        obs['updates'] = [num_str(Fraction(c)) for c in log['updates']]
        dc = log['dc'] or {}
        pc = log['pc'] or {}
        obs['dc'] = [num_str(Fraction(dc.get(_dk(case, i), 1))) for i in range(m)]
        obs['pc'] = [num_str(Fraction(pc.get(_pk(case, j), 1))) for j in range(n)]
    except Exception as e:      # noqa
        obs['err'] = err_name(e)
        obs['msg'] = str(e)[:120]
        obs['transfers'] = log['transfers']
        obs['n_updates'] = len(log['updates'])
    if log['init'] is not None:
        obs['init'] = _dense(case, log['init'])[0]
    return obs


# ------------------------------------------------------------------------------------------------
# the property, stated on the implementation's observable

def _targets(case, obs):
    """(row target, col target) by the independent reference; None component = tie (outside the domain)"""
    V = _matrix(case)
    m, n = len(V), len(V[0])
    total = _total(case)
    col = ha_ref([sum(V[i][j] for i in range(m)) for j in range(n)], total, case['divisor'])
    sp = case['seats']
    if sp['kind'] == 'total':
        row = ha_ref([sum(r) for r in V], total, case['divisor'])
    elif sp['kind'] == 'dict' or sp['apportioner'] in ('uniform', 'dict', 'dict2'):
        row = list(sp['rows'])
    else:
        ri = obs.get('row_impl')
        row = list(ri) if isinstance(ri, list) else None     # the custom apportioner's own answer
    return row, col


def oracle(case, obs):
    V = _matrix(case)
    m, n = len(V), len(V[0])
    q = signpost_q(case['divisor'])
    row, col = _targets(case, obs)
    if row is None or col is None:
        return []                  # a marginal apportionment ties: outside the quantifier of the property
    _note_passes(case, obs, row)
    if 'err' in obs:
        if obs['err'] == 'Timeout':
            return [('non_termination', 'no result within 5 s')]
        if obs['err'] == 'VotingSystemError':
            cut = find_cut(V, row, col)
            if cut is None:
                return [('unjustified_refusal', f"{obs.get('msg')}: a seat matrix with these marginals and zero cells exists "
                                                f"(max-flow saturates) row={row} col={col}")]
            ok, how = lean_infeasible_cert(V, row, col, cut[0], cut[1])
            if not ok:
                raise RuntimeError(f'cut {cut} found by max-flow rejected by the verified checker: {strip_case(case)}')
            _tag(case, 'cut_checked_by_lean' if how == 'lean' else 'checked_by_python_twin_only')
            return []
        if obs['err'] == 'KeyError' and case.get('sparse') and any(v == 0 for r in V for v in r):
            return [('crash_sparse', f"KeyError {obs.get('msg')} on a district dict that omits a zero cell")]
        if obs['err'] == 'TypeError' and case.get('keys', 'int').startswith('person') and "'<' not supported" in (obs.get('msg') or ''):
            return [('crash_unorderable', f"TypeError {obs.get('msg')}: candidate / constituency objects that define no order")]
        return [('crash', f"{obs['err']}: {obs.get('msg')}")]
    X = obs['seats']
    out = []
    if obs.get('extra_cells'):
        out.append(('malformed_output', f"cells outside the input matrix: {obs['extra_cells']}"))
    if any((not isinstance(x, int)) or isinstance(x, bool) or x < 0 for r in X for x in r):
        out.append(('malformed_output', 'seat counts must be non-negative integers'))
        return out
    rs = [sum(r) for r in X]
    cs = [sum(X[i][j] for i in range(m)) for j in range(n)]
    if rs != row:
        out.append(('district_totals', f'district totals {rs} != district apportionment {row}'))
    if cs != col:
        out.append(('party_totals', f'party totals {cs} != highest-averages apportionment {col}'))
    if any(V[i][j] == 0 and X[i][j] != 0 for i in range(m) for j in range(n)):
        out.append(('seat_without_votes', 'a cell without votes holds a seat'))
    mult, why = find_multipliers(V, X, q)
    if mult is None:
        if not any(c == 'seat_without_votes' for c, _ in out):
            out.append(('no_multipliers', f'no positive multipliers make every cell a rounding: {why}'))
    if not out:
        ok, how = lean_biprop_cert(q, V, row, col, X, mult[0], mult[1])
        if not ok:
            raise RuntimeError(f'multipliers found by Bellman-Ford rejected by the verified checker: {strip_case(case)}')
        _tag(case, 'cert_checked_by_lean' if how == 'lean' else 'checked_by_python_twin_only')
        # the evaluator's own final multipliers are a certificate too (the loop invariant, observed on the real code)
        try:
            own = lean_biprop_cert(q, V, row, col, X, [Fraction(r) for r in obs['dc']], [Fraction(g) for g in obs['pc']])[0]
        except (KeyError, ValueError):
            own = None
        if own is not None:
            _tag(case, 'own_multipliers_certify' if own else 'own_multipliers_do_not_certify')
    return out


PASSES = {'max': 0, 'max_ratio': Fraction(0), 'where': None, 'cases': 0, 'above_proved_bound': 0, 'max_bound_ratio': Fraction(0)}
ASSUMPTIONS = ['(filled in at run time) passes of the tie-and-transfer loop observed']


def _note_passes(case, obs, row):
    """passes of the `while True` loop of the real evaluator (transfers + coefficient updates + the final test) against
    seats + districts x parties and against the proved bound (flaw0/2 + 1)(m + n + 2) of VL.C07.evaluate_terminates"""
    m, n = len(case['votes']), len(case['votes'][0])
    nup = len(obs['updates']) if 'updates' in obs else obs.get('n_updates', 0)
    passes = obs.get('transfers', 0) + nup + 1
    seats = _total(case)
    ref = seats + m * n
    PASSES['cases'] += 1
    if passes > PASSES['max']:
        PASSES['max'] = passes
    if Fraction(passes, ref) > PASSES['max_ratio']:
        PASSES['max_ratio'] = Fraction(passes, ref)
        PASSES['where'] = f'{passes} passes, {seats} seats, {m}x{n}'
    _tag(case, 'passes_le_seats_plus_cells' if passes <= ref else 'passes_gt_seats_plus_cells')
    if obs.get('init') is not None and row is not None:
        flaw0 = sum(abs(sum(r) - t) for r, t in zip(obs['init'], row))
        bound = (flaw0 // 2 + 1) * (m + n + 2)
        PASSES['max_bound_ratio'] = max(PASSES['max_bound_ratio'], Fraction(passes, bound))
        if passes > bound:
            PASSES['above_proved_bound'] += 1
            _tag(case, 'passes_ABOVE_proved_bound')
        else:
            _tag(case, 'passes_within_proved_bound')
    ASSUMPTIONS[0] = (f"observed on {PASSES['cases']} evaluations of this run: at most {PASSES['max']} passes of the loop; the largest "
                      f"ratio passes / (seats + districts x parties) is {float(PASSES['max_ratio']):.3f} ({PASSES['where']}); the largest "
                      f"ratio passes / proved bound (flaw0/2 + 1)(m + n + 2) is {float(PASSES['max_bound_ratio']):.3f}; "
                      f"{PASSES['above_proved_bound']} evaluations above the proved bound")


def signature(case, clause):
    if case.get('keys', 'int').endswith('_clash'):
        return f'biprop:name_clash:{clause}'      # input class: a party bears the name of a district
    return f'biprop:{clause}'


def nontrivial(case, obs):
    return ('err' in obs and obs['err'] == 'VotingSystemError') or obs.get('transfers', 0) > 0 or bool(obs.get('updates'))


# ------------------------------------------------------------------------------------------------
# correspondence with the Lean port

def model_line(case):
    import votelib.evaluate.proportional as vp
    if not case.get('keys', 'int').startswith('int'):
        return None          # str keys: frozenset order depends on the hash seed (certificate-checked only)
    sp = case['seats']
    kw = _ctor_args(case)[1]
    qv = kw['signpost_q'] if 'signpost_q' in kw else vp.BiproportionalEvaluator.SIGNPOST_QS.get(case['divisor'])
    if qv is None or (sp['kind'] != 'total' and 'rows' not in sp):
        return None
    line = {'op': 'biprop_eval', 'divisor': case['divisor'], 'q': num_str(Fraction(qv)), 'votes': case['votes'],
            'total': _total(case), 'rows': None if sp['kind'] == 'total' else sp['rows'], 'fuel': 20000}
    if case.get('sparse'):
        # which cells are keys of the district dicts: the model derives `all_parties` (order of first appearance) from it
        line['present'] = [[v != 0 for v in r] for r in _matrix(case)]
    return line


def compare(case, iobs, mobs):
    if isinstance(mobs, dict) and 'votes_ok' in mobs:
        # the decidable hypotheses of evaluate_ok_sound must hold on real inputs (else the theorem is vacuous there)
        if mobs.get('mask_ok') is not True or mobs.get('ord_covers') is not True:
            return f'hypothesis maskOk / ordCovers of the refusal theorems fails on a generated input: {json.dumps(mobs)[:200]}'
        if mobs.get('ord') != sorted(mobs.get('ord')):
            _tag(case, 'party_order_not_by_index')
        if mobs.get('votes_ok') is not True or mobs.get('has_votes') is not True:
            return f'hypothesis votesOk / hasVotes of evaluate_sound fails on a generated input: {json.dumps(mobs)[:200]}'
        if mobs.get('init_ok') is False:
            return 'stateOk fails for the initial state although initState_consistent proves it: model/driver mismatch'
        if mobs.get('init_ok') is True:
            _tag(case, 'init_ok_confirmed')
    if 'err' in iobs:
        if isinstance(mobs, dict) and mobs.get('err') == iobs['err']:
            return None
        return f"impl raised {iobs['err']} ({iobs.get('msg')}), model {json.dumps(mobs)[:300]}"
    if not isinstance(mobs, dict) or 'err' in mobs:
        return f'impl returned a matrix, model {json.dumps(mobs)[:300]}'
    for k in ('seats', 'transfers', 'updates', 'dc', 'pc'):
        if iobs.get(k) != mobs.get(k):
            return f'{k}: impl={json.dumps(iobs.get(k))} model={json.dumps(mobs.get(k))}'
    return None


# ------------------------------------------------------------------------------------------------
# generator

KEY_CHOICES = (['int'] * 12 + ['str'] * 2 + ['int_clash'] * 3 + ['str_clash'] + ['empty0', 'empty0p', 'person', 'person_d'])
DIVSPECS = ['name'] * 5 + ['callable', 'name_q', 'callable_q', 'name_qF']
CUSTOM = ['lr_hare', 'ha_other', 'uniform', 'dict', 'lr_droop', 'qd_hare', 'ha_same', 'dict2']
BIG = {'mag_2p53': 2 ** 53, 'mag_1e18': 10 ** 18, 'mag_1e30': 10 ** 30, 'mag_1e400': 10 ** 400}


def _mk(rng, V, divisor, seats, keys='int', sparse=False, tags=(), vtype='int', divspec='name', pre=None):
    c = {'op': 'biprop', 'divisor': divisor, 'votes': [[num_str(v) for v in r] for r in V], 'seats': seats, 'keys': keys,
         'sparse': sparse, 'vtype': vtype, 'divspec': divspec, '_tags': list(tags)}
    if pre:
        c['pre'] = pre
    return c


def _cell(rng, kind):
    if kind == 'tiny':
        return rng.choice([0, 1, 1, 2, 2, 3])
    if kind == 'small':
        return rng.choice([0, 1, 2, 3, 4, 5, 6, 8, 10, 12])
    if kind == 'mid':
        return rng.randint(0, 1000)
    if kind == 'large':
        return rng.randint(10 ** 5, 10 ** 7)
    if kind == 'huge':
        return 10 ** rng.choice([9, 12, 18, 25]) + rng.randint(-1000, 1000)
    if kind == 'mixed':
        return rng.choice([0, 1, 3, 17, 250, 4000, 10 ** 6 + 7, 10 ** 12 + 39])
    if kind in BIG:               # near ties and exact ties at a large magnitude
        return BIG[kind] * rng.choice([1, 1, 1, 2, 3]) + rng.choice([-1, 0, 0, 1, 1, 2, 7])
    if kind == 'frac':            # Fraction-valued counts (weighted ballots), incl. Fraction(0) and tiny differences
        return Fraction(rng.randint(0, 60), rng.choice([1, 2, 3, 4, 7, 10 ** 7 + 19]))
    if kind == 'frac12':          # Fractions that differ in the 12th digit
        return Fraction(rng.choice([1, 2, 3, 5]) * 10 ** 12 + rng.randint(-2, 2), 10 ** 12)
    return rng.randint(0, 30)


def _rand_matrix(rng, m, n, kind, pzero, zero_row=False):
    V = [[(0 if rng.random() < pzero else max(_cell(rng, kind), 0)) for _ in range(n)] for _ in range(m)]
    for i in range(m):             # every district casts at least one vote ...
        if not any(V[i]):
            V[i][rng.randrange(n)] = max(_cell(rng, kind), 1)
    if zero_row and m >= 2:        # ... unless a district without any vote is asked for
        V[rng.randrange(m)] = [0] * n
    return V


def _rand_rows(rng, m, total):
    cuts = sorted(rng.randint(0, total) for _ in range(m - 1))
    return [b - a for a, b in zip([0] + cuts, cuts + [total])]


def _seat_spec(rng, V, divisor, kind=None, apportioner=None):
    m = len(V)
    kind = kind or rng.choice(['total', 'total', 'dict', 'custom', 'custom'])
    total = rng.randint(1, max(2, rng.choice([m, 2 * m, 3 * m, 5 * m])))
    rsum = [sum(x) for x in V]
    if kind == 'total':
        return {'kind': 'total', 'n': total}
    if kind == 'dict':
        if rng.random() < 0.6:     # a plausible apportionment: proportional by another rule, so that most are feasible
            rows = ha_ref(rsum, total, 'sainte_lague' if divisor == 'd_hondt' else 'd_hondt') or _rand_rows(rng, m, total)
        else:
            rows = _rand_rows(rng, m, total)
        return {'kind': 'dict', 'rows': rows}
    a = apportioner or rng.choice(CUSTOM)
    if a == 'uniform':
        k = rng.randint(1, 4)
        return {'kind': 'custom', 'apportioner': 'uniform', 'n': k * m, 'rows': [k] * m}
    if a in ('dict', 'dict2'):
        rows = _rand_rows(rng, m, total) if rng.random() < 0.4 else (ha_ref(rsum, total, divisor) or _rand_rows(rng, m, total))
        if a == 'dict':
            return {'kind': 'custom', 'apportioner': 'dict', 'n': total, 'rows': rows}
        # the n_seats dict only contributes its sum (the seats the parties get); mostly the same sum, sometimes not
        nrows = _rand_rows(rng, m, total if rng.random() < 0.8 else total + rng.choice([-1, 1]))
        return {'kind': 'custom', 'apportioner': 'dict2', 'rows': rows, 'nrows': nrows}
    return {'kind': 'custom', 'apportioner': a, 'n': total}


def _tag(case, t):
    if t not in case.setdefault('_tags', []):
        case['_tags'].append(t)


def _admit(case):
    """admission = the two marginal apportionments are tie-free, decided by the independent reference alone (a wrong Tie or
    a wrong marginal of the implementation stays in and is judged by the oracle); tags from what the real code did"""
    V = _matrix(case)
    m, n = len(V), len(V[0])
    total = _total(case)
    if total < 1:
        return None
    obs = impl(case)
    row, col = _targets(case, obs)
    if row is None or col is None:
        return None
    sp = case['seats']
    if sp['kind'] == 'custom' and 'rows' not in sp:
        sp['rows'] = list(row)
    tags = case['_tags']
    T = lambda t: _tag(case, t)      # noqa
    T(case['divisor'])
    T('seats_' + sp['kind'])
    if sp['kind'] == 'custom':
        T('custom_' + sp['apportioner'])
    keys = case.get('keys', 'int')
    if keys.startswith('str'):
        T('str_keys')
    if keys in ('empty0', 'empty0p', 'person', 'person_d'):
        T('keys_' + keys)
    if keys.endswith('_clash'):
        T('name_clash')
        if obs.get('transfers', 0) > 0:
            T('name_clash_transfer')
    ds = case.get('divspec', 'name')
    if ds.startswith('callable'):
        T('div_callable')
    if ds != 'name' and ds != 'callable':
        T('signpost_q_explicit')
    cells = [v for r in V for v in r]
    if case.get('vtype') == 'frac':
        T('votes_fraction')
        if any(isinstance(v, Fraction) for v in cells):
            T('votes_fractional')
        if any(v == 0 for v in cells):
            T('falsy_fraction_zero')
    if any(isinstance(v, Fraction) and v.denominator > 10 ** 6 for v in cells):
        T('fraction_den_above_1e6')
    if any(v == 0 for v in cells):
        T('zero_cell')
    zc = sum(1 for j in range(n) if all(V[i][j] == 0 for i in range(m)))
    if zc >= 1:
        T('zero_vote_party')
    if zc >= 2:
        T('two_zero_vote_parties')
    if any(not any(r) for r in V):
        T('zero_vote_district')
    if any(sum(1 for v in r if v != 0) == 1 for r in V):
        T('single_party_district')
    if max(m, n) >= 7:
        T('large_matrix')
    if min(m, n) == 1:
        T('degenerate_dim')
    if any(v >= 10 ** 5 for v in cells):
        T('large_counts')
    for name, b in BIG.items():
        if any(b // 2 <= v < b * 4 for v in cells):
            T(name)
    big = sorted(v for v in cells if v >= 2 ** 52)
    if any(0 <= y - x <= 2 for x, y in zip(big, big[1:])):
        T('near_tie_big')
    if obs.get('transfers', 0) > 0:
        T('transfer_step')
    if obs.get('updates') or obs.get('n_updates'):
        T('coef_update')
    if obs.get('err') == 'VotingSystemError':
        T('refusal')
    # a Tie inside a per-party allocation of the initial solution (reference: the k-th and (k+1)-th quotient of the column tie)
    if any(col[j] and ha_ref([V[i][j] for i in range(m)], col[j], case['divisor']) is None for j in range(n)):
        T('tie_in_initial_allocation')
    # a party with votes but without a seat whose votes nevertheless decide the district apportionment
    if sp['kind'] == 'total':
        seatless = [j for j in range(n) if col[j] == 0 and any(V[i][j] for i in range(m))]
        if seatless:
            T('seatless_party')
            without = ha_ref([sum(V[i][j] for j in range(n) if j not in seatless) for i in range(m)], total, case['divisor'])
            if without is not None and without != row:
                T('seatless_party_tips_district')
    if sp['kind'] == 'dict' and not any(v == 0 for v in cells):
        prop = ha_ref([sum(r) for r in V], total, case['divisor'])
        if prop is not None and 2 * sum(abs(a - b) for a, b in zip(prop, row)) >= total and obs.get('transfers', 0) >= 3:
            T('far_from_proportional_dict')
    for pre in case.get('pre', []):
        if pre.get('same', True):
            T('second_call_same_object')
            if pre.get('_refuses'):
                T('second_call_after_refusal')
            if len(pre['votes']) * len(pre['votes'][0]) > m * n:
                T('second_call_smaller')
        else:
            T('other_config_first')
    return case


def _random_case(rng):
    r = rng.random()
    if r < 0.04:
        m, n = rng.randint(6, 8), rng.randint(6, 8)
    elif r < 0.06:
        m, n = rng.choice([(1, rng.randint(2, 5)), (rng.randint(2, 5), 1)])
    else:
        m, n = rng.randint(2, 6), rng.randint(2, 6)
    kind = rng.choice(['tiny', 'small', 'small', 'mid', 'mid', 'large', 'huge', 'mixed', 'any', 'frac', 'frac', 'frac12',
                       'mag_2p53', 'mag_1e18', 'mag_1e30'])
    if rng.random() < 0.01:
        kind = 'mag_1e400'
    pzero = rng.choice([0, 0, 0.1, 0.25, 0.5])
    V = _rand_matrix(rng, m, n, kind, pzero, zero_row=rng.random() < 0.05)
    if rng.random() < 0.08 and n >= 2:
        for j in rng.sample(range(n), 2 if (n >= 3 and rng.random() < 0.5) else 1):
            for i in range(m):
                V[i][j] = 0
        for i in range(m):
            if not any(V[i]) and rng.random() < 0.9:
                free = [j for j in range(n) if any(V[k][j] for k in range(m))] or [0]
                V[i][rng.choice(free)] = 1 + rng.randint(0, 5)
    divisor = rng.choice(DIVS)
    keys = rng.choice(KEY_CHOICES)
    sparse = rng.random() < 0.06 and any(v == 0 for r in V for v in r)
    vtype = 'frac' if kind.startswith('frac') or rng.random() < 0.1 else 'int'
    return _mk(rng, V, divisor, _seat_spec(rng, V, divisor), keys=keys, sparse=sparse, vtype=vtype,
               divspec=rng.choice(DIVSPECS), tags=['sparse_dict'] if sparse else [])


def _directed_refusal(rng):
    """an infeasible instance: district 0 votes only for party 0 and is to get more seats than party 0 holds
    (explicit per-district dict), or a sparse block matrix with a total"""
    m, n = rng.randint(2, 5), rng.randint(2, 5)
    divisor = rng.choice(DIVS)
    V = _rand_matrix(rng, m, n, 'small', 0.2)
    V[0] = [rng.randint(1, 9)] + [0] * (n - 1)
    total = rng.randint(m + 1, 4 * m)
    col = ha_ref([sum(V[i][j] for i in range(m)) for j in range(n)], total, divisor)
    if col is None or col[0] + 1 > total:
        return None
    rows = [col[0] + 1] + _rand_rows(rng, m - 1, total - col[0] - 1)
    return _mk(rng, V, divisor, {'kind': 'dict', 'rows': rows}, tags=['directed_refusal'])


def _directed_tie(rng):
    """equal cells inside a column so that the per-party allocation ends in a Tie (the 7aec924 family)"""
    m, n = rng.randint(3, 5), rng.randint(2, 4)
    divisor = rng.choice(DIVS)
    V = _rand_matrix(rng, m, n, 'small', 0.05)
    j = rng.randrange(n)
    a, b = rng.sample(range(m), 2)
    V[a][j] = V[b][j] = rng.randint(1, 6)
    return _mk(rng, V, divisor, {'kind': 'total', 'n': rng.randint(m, 4 * m)}, tags=['directed_tie'])


def _directed_zero_party(rng):
    m, n = rng.randint(2, 5), rng.randint(3, 6)
    divisor = rng.choice(DIVS)
    V = _rand_matrix(rng, m, n, rng.choice(['small', 'mid']), 0.1)
    for j in rng.sample(range(n), rng.choice([1, 2]) if n >= 4 else 1):
        for i in range(m):
            V[i][j] = 0
    for i in range(m):
        if not any(V[i]):
            free = [j for j in range(n) if any(V[k][j] for k in range(m))] or [0]
            V[i][rng.choice(free)] = rng.randint(1, 9)
    return _mk(rng, V, divisor, _seat_spec(rng, V, divisor, 'total'), tags=['directed_zero_party'])


def _directed_seatless(rng):
    """a small party without a seat, concentrated in one district, whose votes tip that district's seat"""
    m, n = rng.randint(2, 4), rng.randint(3, 5)
    divisor = rng.choice(DIVS)
    V = _rand_matrix(rng, m, n, 'mid', 0.0)
    j = n - 1
    for i in range(m):
        V[i][j] = 0
    V[rng.randrange(m)][j] = rng.randint(20, 200)
    return _mk(rng, V, divisor, {'kind': 'total', 'n': rng.randint(2, 2 * m)}, tags=['directed_seatless'])


def _directed_shapes(rng):
    """shapes the code branches on: a district without votes, a district with a single party, big near ties, 7x7..8x8, 1xn"""
    r = rng.randrange(5)
    divisor = rng.choice(DIVS)
    if r == 0:
        m, n = rng.randint(2, 5), rng.randint(2, 5)
        V = _rand_matrix(rng, m, n, 'small', 0.1, zero_row=True)
    elif r == 1:
        m, n = rng.randint(2, 5), rng.randint(2, 5)
        V = _rand_matrix(rng, m, n, 'mid', 0.1)
        i = rng.randrange(m)
        V[i] = [0] * n
        V[i][rng.randrange(n)] = rng.randint(1, 500)
    elif r == 2:
        m, n = rng.randint(2, 4), rng.randint(2, 4)
        V = _rand_matrix(rng, m, n, rng.choice(list(BIG)), 0.1)
    elif r == 3:
        m, n = rng.randint(7, 8), rng.randint(6, 8)
        V = _rand_matrix(rng, m, n, rng.choice(['small', 'mid', 'large']), rng.choice([0, 0.2]))
    else:
        m, n = rng.choice([(1, rng.randint(2, 5)), (rng.randint(2, 5), 1)])
        V = _rand_matrix(rng, m, n, 'mid', 0.0)
    return _mk(rng, V, divisor, _seat_spec(rng, V, divisor, rng.choice(['total', 'total', 'dict'])), tags=['directed_shape'])


def _directed_config(rng):
    """every key mode, every way of giving the divisor / signpost_q, every kind of apportioner, Fraction votes: a fixed share"""
    m, n = rng.randint(2, 5), rng.randint(2, 5)
    divisor = rng.choice(DIVS)
    what = rng.randrange(4)
    kind = 'frac' if what == 3 else rng.choice(['small', 'mid', 'large'])
    V = _rand_matrix(rng, m, n, kind, rng.choice([0, 0.15]))
    keys = rng.choice(['empty0', 'empty0p', 'person', 'person_d']) if what == 0 else rng.choice(['int', 'int', 'int_clash', 'str'])
    divspec = rng.choice(['callable', 'name_q', 'callable_q', 'name_qF']) if what == 1 else 'name'
    seats = _seat_spec(rng, V, divisor, 'custom', rng.choice(CUSTOM)) if what == 2 else _seat_spec(rng, V, divisor, 'total')
    return _mk(rng, V, divisor, seats, keys=keys, vtype='frac' if what == 3 else 'int', divspec=divspec, tags=['directed_config'])


def _directed_sparse_order(rng):
    """sparse dicts whose first district lacks party 0: `all_parties` (order of first appearance) is not the index order"""
    m, n = rng.randint(2, 5), rng.randint(3, 5)
    V = _rand_matrix(rng, m, n, rng.choice(['small', 'tiny', 'mid']), 0.3)
    V[0][0] = 0
    if not any(V[0]):
        V[0][1] = 3
    return _mk(rng, V, rng.choice(DIVS), {'kind': 'total', 'n': rng.randint(m, 4 * m)}, sparse=True,
               tags=['sparse_dict', 'sparse_first_district_lacks_party0'])


def _directed_far_dict(rng):
    """feasible per-district dictionaries far from the vote shares (every cell has votes, so any row vector with the right
    sum is feasible): many transfer passes; a too small bound on the passes refuses these"""
    m, n = rng.randint(2, 6), rng.randint(2, 6)
    divisor = rng.choice(DIVS)
    V = [[rng.randint(1, 1000) for _ in range(n)] for _ in range(m)]
    total = rng.randint(2 * m, 8 * m)
    r = rng.random()
    if r < 0.4:                    # everything to one district
        rows = [0] * m
        rows[rng.randrange(m)] = total
    elif r < 0.7:                  # proportional to the votes, assigned to the districts in reverse order of size
        prop = ha_ref([sum(x) for x in V], total, divisor) or _rand_rows(rng, m, total)
        order = sorted(range(m), key=lambda i: sum(V[i]))
        rows = [0] * m
        for i, s_ in zip(order, sorted(prop, reverse=True)):
            rows[i] = s_
    else:
        rows = _rand_rows(rng, m, total)
    return _mk(rng, V, divisor, {'kind': 'dict', 'rows': rows}, keys=rng.choice(['int', 'int', 'str']), tags=['directed_far_dict'])


def _directed_history(rng):
    """the same evaluator object used before (larger matrix first; a refused instance first), or another configuration first"""
    m, n = rng.randint(2, 4), rng.randint(2, 4)
    divisor = rng.choice(DIVS)
    V = _rand_matrix(rng, m, n, rng.choice(['small', 'mid']), 0.1)
    r = rng.randrange(3)
    pm, pn = (rng.randint(m, 6), rng.randint(n, 6)) if r != 2 else (m, n)
    PV = _rand_matrix(rng, pm, pn, rng.choice(['small', 'mid', 'large']), 0.2)
    pre = {'votes': [[num_str(v) for v in row] for row in PV], 'divisor': divisor, 'same': True,
           'seats': {'kind': 'total', 'n': rng.randint(1, 3 * pm)}}
    if r == 1:                     # an infeasible earlier call: district 0 votes for party 0 only and wants everything
        PV[0] = [5] + [0] * (pn - 1)
        PV[1][1 % pn] = max(PV[1][1 % pn], 50)
        tot = rng.randint(pm + 2, 3 * pm)
        pre['votes'] = [[num_str(v) for v in row] for row in PV]
        pre['seats'] = {'kind': 'dict', 'rows': [tot] + [0] * (pm - 1)}
        pre['_refuses'] = True
    if r == 2:                     # another object of the class, configured differently, runs first
        pre['same'] = False
        pre['divisor'] = 'sainte_lague' if divisor == 'd_hondt' else 'd_hondt'
    return _mk(rng, V, divisor, _seat_spec(rng, V, divisor, 'total'), keys=rng.choice(['int', 'int', 'str']), pre=[pre],
               tags=['directed_history'])


def _exhaustive():
    """small scopes, thorough tier: every matrix over a small alphabet, every total, both rules"""
    for (m, n, alpha, tmax) in [(2, 2, range(0, 6), 7), (2, 3, (0, 1, 2, 4), 6), (3, 2, (0, 1, 2, 4), 6), (3, 3, (0, 1, 3), 4)]:
        for cells in itertools.product(alpha, repeat=m * n):
            V = [list(cells[i * n:(i + 1) * n]) for i in range(m)]
            if any(not any(r) for r in V):
                continue
            for total in range(1, tmax + 1):
                for divisor in DIVS:
                    yield _mk(None, V, divisor, {'kind': 'total', 'n': total}, tags=['exhaustive'])


def _gen(rng, tier):
    N = 3000 if tier == 'quick' else 12000
    D = 60 if tier == 'quick' else 400
    k = 0
    tries = 0
    while k < N and tries < 20 * N:
        tries += 1
        c = _admit(_random_case(rng))
        if c is not None:
            k += 1
            yield c
    for maker, want, cnt in [(_directed_refusal, 'refusal', D), (_directed_tie, 'tie_in_initial_allocation', D),
                             (_directed_zero_party, 'zero_vote_party', D // 2),
                             (_directed_seatless, 'seatless_party_tips_district', D // 2),
                             (_directed_shapes, 'directed_shape', 2 * D), (_directed_config, 'directed_config', 4 * D),
                             (_directed_history, 'directed_history', 2 * D),
                             (_directed_sparse_order, 'sparse_first_district_lacks_party0', 4 * D),
                             (_directed_far_dict, 'far_from_proportional_dict', 2 * D)]:
        got = 0
        tries = 0
        while got < cnt and tries < 60 * cnt:
            tries += 1
            c = maker(rng)
            c = _admit(c) if c is not None else None
            if c is not None and want in c['_tags']:
                got += 1
                yield c
    # the witnesses of the repaired defects and their neighbourhood
    for c in _witness_cases():
        c = _admit(c)
        if c is not None:
            yield c
    if tier == 'thorough':
        for c in _exhaustive():
            c = _admit(c)
            if c is not None:
                yield c


def _witness_cases():
    yield _mk(None, [[3, 2], [5, 10], [3, 2]], 'd_hondt', {'kind': 'total', 'n': 10}, tags=['witness_7aec924'])
    yield _mk(None, [[3, 2, 0], [5, 10, 0]], 'd_hondt', {'kind': 'total', 'n': 6}, tags=['witness_514f123'])
    yield _mk(None, [[3, 2], [5, 10], [3, 2]], 'd_hondt', {'kind': 'total', 'n': 10}, keys='str', tags=['witness_7aec924'])
    for km in ('int', 'str', 'int_clash', 'str_clash'):      # the name-clash witness next to its disjoint-name twins
        yield _mk(None, [[100, 2], [21, 21]], 'd_hondt', {'kind': 'total', 'n': 3}, keys=km, tags=['witness_name_clash'])
    yield _mk(None, [[3, 0], [5, 10]], 'd_hondt', {'kind': 'total', 'n': 4}, sparse=True, tags=['witness_ac330c6', 'sparse_dict'])
    yield _mk(None, [[3, 0, 1], [5, 10, 0], [0, 4, 1]], 'sainte_lague', {'kind': 'total', 'n': 5}, sparse=True,
              tags=['witness_ac330c6', 'sparse_dict'])
    # candidate objects without an order (Person as party / as district) on a matrix that needs the labelling search
    for km in ('person', 'person_d'):
        yield _mk(None, [[30, 5, 11], [7, 40, 9], [12, 13, 14]], 'd_hondt', {'kind': 'total', 'n': 9}, keys=km,
                  tags=['witness_unorderable'])


def generate(rng, tier):
    return _gen(rng, tier)


def shrink_candidates(case):
    V = case['votes']
    m, n = len(V), len(V[0])
    sp = case['seats']

    def with_(V2, sp2):
        c = dict(case)
        c['votes'] = V2
        c['seats'] = sp2
        c['_tags'] = []
        return c
    if case.get('pre'):
        c = dict(case)
        c['pre'] = case['pre'][1:]
        c['_tags'] = []
        yield c
    for k, dflt in (('vtype', 'int'), ('divspec', 'name'), ('sparse', False)):
        if case.get(k, dflt) != dflt:
            c = dict(case)
            c[k] = dflt
            c['_tags'] = []
            yield c
    if m > 2:
        for i in range(m):
            sp2 = dict(sp)
            for rk in ('rows', 'nrows'):
                if rk in sp:
                    sp2[rk] = sp[rk][:i] + sp[rk][i + 1:]
            if 'rows' in sp and sp['kind'] == 'custom' and sp['apportioner'] not in ('uniform', 'dict', 'dict2'):
                sp2.pop('rows')
            yield with_(V[:i] + V[i + 1:], sp2)
    if n > 2:
        for j in range(n):
            yield with_([r[:j] + r[j + 1:] for r in V], dict(sp))
    if 'n' in sp and sp['n'] > 1 and sp.get('apportioner') != 'uniform':
        sp2 = dict(sp)
        sp2['n'] = sp['n'] - 1
        if sp['kind'] == 'custom' and sp['apportioner'] not in ('dict',):
            sp2.pop('rows', None)
        if sp.get('apportioner') != 'dict':
            yield with_(V, sp2)
    for i in range(m):
        for j in range(n):
            v = Fraction(V[i][j])
            if v > 1:
                V2 = [list(r) for r in V]
                V2[i][j] = num_str(Fraction(int(v) // 2))
                yield with_(V2, dict(sp))


def describe(case):
    app, n_seats = _apportioner(case)
    div, kw = _ctor_args(case)
    extra = ''.join(f', {k}={v!r}' for k, v in kw.items())
    hist = ''.join(f"  [after {'the same object' if p.get('same', True) else 'another ' + p['divisor'] + ' object'} evaluated "
                   f"{_votes_dict(case, p['votes'])!r}, {_apportioner(case, p['seats'])[1]!r}]" for p in case.get('pre', []))
    return (f"BiproportionalEvaluator({div!r}, apportioner={app!r}{extra}).evaluate({_votes_dict(case)!r}, {n_seats!r}){hist}")
