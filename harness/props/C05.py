"""C05 — Condorcet methods elect the Condorcet winner, stay in the Smith set, follow their defining computation."""
import itertools
import json
from fractions import Fraction
from common import *   # noqa
from props import _condorcet_common as CC

ID = 'C05'
NAMESPACE = 'VL.C05'
LEAN_MODULES = ['VotelibProofs.Props.C05']
GEN_MODULES = ['PairwinScorer']
REQUIRED = ['winning_votes_is_textbook', 'margins_is_textbook', 'pairwise_opposition_is_textbook', 'scorePairs_is_textbook',
            'cw_copeland', 'cw_minimax_wv', 'cw_minimax_margins', 'cw_schulze', 'cw_benham', 'cw_tideman',
            'cw_rankedpairs_partial', 'cw_kemeny_partial', 'kemeny_is_argmax', 'kemeny_refusal',
            'copeland_in_smith', 'schulze_in_smith', 'kemeny_in_smith', 'rankedpairs_in_smith', 'tideman_in_smith',
            'lockPairs_acyclic', 'isPath_iff', 'benham_tie_refused_not_outsider', 'eliminateOne_no_mixed_tie', 'no_contest_refused',
            'benham_in_smith', 'subset_preserves_pairwise', 'wf_of_profileOK', 'copeland_defining', 'copeland2o_defining', 'copeland2o_tied_members', 'copeland2o_scores', 'minimax_defining', 'worstDefeat_is_max', 'widestPaths_correct', 'schulze_defining', 'winWeight_is_win_count',
            'no_candidate_dropped_copeland', 'no_candidate_dropped_minimax', 'no_candidate_dropped_schulze',
            'cw_rankedpairs_witness', 'cw_kemeny_witness', 'rankedpairs_dropped_witness', 'minimax_never_loser_fixed',
            'benham_elimination_tie_refused', 'tideman_elimination_tie_refused', 'tideman_last_tie_refused',
            'tidemanN_one', 'tideman_all_seats_example', 'lone_candidate_elected']
UNPROVED = ['cw_rankedpairs (rankedPairs sc v 1 = ok [w]): FALSE as stated on the current code (cw_rankedpairs_witness: refusal '
            'although a Condorcet winner exists); proved instead: cw_rankedpairs_partial (whenever it answers, it answers [w])',
            'cw_kemeny (kemenyYoung v 1 = ok [w]): FALSE as stated on the current code (cw_kemeny_witness: refusal when a lower '
            'place ties); proved instead: cw_kemeny_partial (elects exactly w or refuses with NotImplementedError)',
            'rankedpairs no_candidate_dropped: FALSE (rankedpairs_dropped_witness)']
NAME_MODES = ['str', 'int0', 'empty0', 'person', 'tuple']
REQUIRED_COUNTERS = ['converter', 'converter_no_bottom', 'has_cw', 'sparse_never_loser', 'all_tied', 'cycle', 'from_ranked', 'uab_true',
                     'uab_false', 'n_all', 'n_one', 'hybrid', 'second_order_used', 'fraction', 'missing_pair',
                     # generator audit (GENERATOR_CHECKLIST.md)
                     'ntype:decimal', 'ntype:decimal_long', 'ntype:float_dyadic', 'ntype:float_nd', 'ntype:fraction_all',
                     'zero_count', 'big', 'close_fraction',
                     'wtype:fraction', 'wtype:bigint', 'wtype:decimal', 'wtype:float',
                     'names:int0', 'names:empty0', 'names:person',
                     'cands_6_7', 'shared3', 'shared3_first', 'only_in_shared', 'shared_first', 'long_cycle', 'tied_seats_3',
                     'tideman_multi', 'tideman_schwartz', 'schwartz_sensitive', 'scorer_sensitive', 'uab_sensitive',
                     'twice', 'after_refusal', 'ctor_fresh', 'ctor_callable', 'centre_squeeze', 'rp_turnout_cycle']
RULE = ('pairwise dictionaries over 2-5 candidates (6 occasionally) as in C06 (sparse / dense / tied / zero-count entries, '
        'int and Fraction counts, shuffled insertion order) and dictionaries derived with the real RankedToCondorcetVotes '
        '(unranked_at_bottom True and False) from profiles with truncated ballots and shared ranks; every entry of '
        'condorcet.EVALUATORS with every 1 <= n_seats <= #candidates; Benham and TidemanAlternative on the ranked profiles '
        'with one seat; TidemanAlternative also with 2..m seats and with the Schwartz set selector; counts and ballot weights '
        'as int / Fraction / Decimal (short and 7 decimals) / float (dyadic, non-dyadic) / integers of 10^9..10^30 and Fractions '
        'differing in the 12th digit; candidates as strings, ints incl. 0, the empty string, Person objects; profiles of up to 7 '
        'candidates, shared ranks of 3-4, long majority cycles; evaluator objects from the registry, freshly constructed (by name '
        'and by scorer callable) and called twice (after a larger input, after a refusal); '
        'thorough: every assignment of five pair states to <= 4 candidates x every evaluator x every n. '
        'Non-trivial = at least 3 candidates and a result that is not an error.')
NOT_VERIFIED = ['dict insertion order is the protocol order (CPython dict semantics)',
                'int/Fraction/float-infinity comparison is exact comparison',
                'iteration order of Python sets: second-order Copeland `tied` (modelled as ascending ids; the order inside runs '
                'of equal second-order scores is canonicalised), Schulze `all_candidates` and Kemeny-Young permutations '
                '(results do not depend on it), the frozenset `unranked` and shared ranks in RankedToCondorcetVotes '
                '(only the insertion order of the pairwise dictionary depends on it; Benham/Tideman results do not)',
                'reading: ballot weights are rational (int / Fraction; the interface is typed Dict[RankedVoteType, int]); Benham and '
                'TidemanAlternative raise TypeError for Decimal / float weights once a first rank is shared (Gregory equal split, '
                'as every STV configuration does) - outside the quantifier, not generated for the hybrids, not a finding; '
                'Decimal / float weights only go to the converters; Decimal / float COUNTS of pairwise dictionaries only go to the '
                'evaluators that merely compare counts (Copeland, Schulze, minimax and ranked pairs by winning votes / pairwise '
                'opposition), never to margins or Kemeny-Young',
                'minimax: float -inf (which survives only for a lone candidate) is modelled as a rational above all finite negated '
                'counter-scores (get_n_best only compares)']
EXHAUSTIVE = {'thorough': True}
NAMES = CC.NAMES

EVALS = ['rankedpairs_winvotes', 'rankedpairs_margins', 'rankedpairs_pwo', 'copeland_2o', 'copeland_raw', 'schulze',
         'kemeny_young', 'minimax_winvotes', 'minimax_margins', 'minimax_pwo']
CW_METHODS = [e for e in EVALS if e != 'minimax_pwo']
SMITH_METHODS = ['rankedpairs_winvotes', 'rankedpairs_margins', 'rankedpairs_pwo', 'copeland_2o', 'copeland_raw', 'schulze',
                 'kemeny_young']


def _mk_eval(name, votes, n, tags):
    return {'op': 'eval', 'name': name, 'votes': votes, 'n': n, '_tags': list(tags)}


def _mk_hybrid(op, profile, tags):
    return {'op': op, 'profile': profile, '_tags': list(tags) + ['hybrid']}


DIRECTED = [
    ([(0, 1, 3), (0, 2, 3), (1, 2, 2), (2, 1, 1)], 'd_cw_never_loser'),
    ([(0, 1, 1), (1, 0, 1), (0, 2, 1), (2, 0, 1), (1, 2, 1), (2, 1, 1)], 'd_all_tied'),
    ([(0, 1, 3), (2, 3, 2)], 'd_disconnected'),
    ([(0, 1, 3), (1, 0, 1), (0, 2, 3), (2, 0, 1), (1, 2, 2), (2, 1, 2)], 'd_cw_lower_tie'),
    ([(0, 1, 3), (1, 0, 1), (1, 2, 3), (2, 1, 1), (2, 0, 3), (0, 2, 1)], 'd_cycle'),
    ([(0, 1, 3), (1, 2, 3), (2, 0, 3)], 'd_cycle_sparse'),
    ([(0, 2, 3), (1, 2, 3), (2, 1, 1)], 'd_never_loser_vs_undefeated'),
    ([(0, 1, 3), (0, 2, 3), (0, 3, 3), (0, 4, 3), (1, 2, 2), (3, 4, 2)], 'd_cw_two_chains'),
    ([(0, 1, 3), (0, 2, 2)], 'd_two_sinks'),
    ([(0, 1, 2), (1, 0, 2), (2, 3, 2), (3, 2, 2), (0, 2, 3), (2, 0, 1), (0, 3, 3), (3, 0, 1), (1, 2, 3), (2, 1, 1),
      (1, 3, 1), (3, 1, 3)], 'd_second_order'),
]

DIRECTED_PROFILES = [
    ([[[0, 1, 2], '2'], [[1, 2, 0], '2'], [[2, 0, 1], '2']], 'p_cycle_tied_elimination'),
    ([[[0, 1], '1'], [[1, 0], '1']], 'p_two_tied'),
    ([[[0, 1, 2], '3'], [[1, 2, 0], '2'], [[2, 0, 1], '2']], 'p_cycle'),
    ([[[0, 1, 2], '4'], [[1, 0, 2], '3'], [[2, 1, 0], '2']], 'p_cw_not_plurality'),
    ([[[[0, 1], 2], '2'], [[2, 0], '1'], [[1], '1']], 'p_shared_first'),
    ([[[0], '2'], [[1], '2'], [[2], '1']], 'p_bullets'),
    ([[[0], '5']], 'p_single_candidate'),
    ([[[2, 1, 3], '1'], [[2, 1], '1'], [[1, 2, 3], '2'], [[0, 2, 1, 3], '3'], [[3, 1, 2, 0], '3']], 'p_benham_tie_drops_smith'),
    # a candidate (3) that occurs only inside shared ranks; a 3-way shared rank
    ([[[0, [1, 3], 2], '3'], [[[1, 2, 3], 0], '2'], [[2, [0, 3]], '2']], 'p_only_in_shared'),
    # the even split of a 3-way shared FIRST rank decides the elimination (a split by two ends in an elimination tie)
    ([[[[1, 2, 3], 0], '2'], [[0, 2], '1'], [[1, 0, 3], '1']], 'p_shared3_first_split'),
    # Smith {0,1,2,3} but Schwartz {0,1,2}: 3 ties 0 and beats nobody of the cycle, everybody beats 4
    ([[[0, 1, 2, 3, 4], '3'], [[1, 2, 0, 3, 4], '3'], [[2, 0, 1, 3, 4], '3'], [[3, 0, 1, 2, 4], '9'], [[1, 2, 0, 4], '0']],
     'p_smith_vs_schwartz'),
]

# pairwise dictionaries on which the options of an evaluator change the outcome (sensitivity witnesses)
DIRECTED_SENSITIVE = [
    # winning votes vs margins: 0 beats 1 by 10:9 (wv 10, margin 1), 1 beats 2 by 6:1 (wv 6, margin 5), 2 beats 0 by 8:4 (wv 8, margin 4)
    ([(0, 1, 10), (1, 0, 9), (1, 2, 6), (2, 1, 1), (2, 0, 8), (0, 2, 4)], 'scorer_sensitive'),
    # five candidates all tied: three and more tied seats
    ([(a, b, 2) for a in range(5) for b in range(5) if a != b], 'tied_seats_3'),
]


def _pairwise_cases(rng, votes, tags, evals=None, ns=None):
    m = len(CC.cands_of({'votes': votes}))
    for name in (evals or EVALS):
        for n in (ns or range(1, m + 1)):
            yield _mk_eval(name, votes, n, tags)


WT_EVALS_COMPARE_ONLY = ['copeland_2o', 'copeland_raw', 'schulze', 'minimax_winvotes', 'minimax_pwo', 'rankedpairs_winvotes',
                         'rankedpairs_pwo']      # never add or subtract counts: exact also on non-dyadic floats


def _hybrid_cases(rng, prof, tags, wtype='int', multi=True):
    """Benham, TidemanAlternative (Smith / Schwartz selector; one seat and several), both converters"""
    tags = list(tags) + (['wtype:' + wtype] if wtype != 'int' else [])
    m = len(CC.profile_cands(prof))
    if wtype in ('decimal', 'float'):
        # the hybrids are typed Dict[RankedVoteType, int] and share the STV transfer code, which raises TypeError for Decimal / float
        # weights as soon as a first rank is shared; non-rational weights are outside C05's quantifier: converters only
        for uab in (True, False):
            c = {'op': 'to_condorcet', 'profile': prof, 'uab': uab, '_wtype': wtype,
                 '_tags': tags + ['converter'] + ([] if uab else ['converter_no_bottom'])}
            yield c
        return
    out = [_mk_hybrid('benham', prof, tags), _mk_hybrid('tideman', prof, tags)]
    sw = _mk_hybrid('tideman', prof, tags + ['tideman_schwartz'])
    sw['smith'] = False
    out.append(sw)
    if multi and m >= 2:
        for n in sorted({2, m, rng.randint(2, m)}):
            t = _mk_hybrid('tideman', prof, tags + ['tideman_multi'])
            t['n'] = n
            t['smith'] = rng.random() < 0.75
            out.append(t)
    out.append({'op': 'to_condorcet', 'profile': prof, '_tags': tags + ['converter']})
    out.append({'op': 'to_condorcet', 'profile': prof, 'uab': False, '_tags': tags + ['converter', 'converter_no_bottom']})
    for c in out:
        if wtype != 'int':
            c['_wtype'] = wtype
        yield c


def _variants(rng, cases):
    """state between calls and constructor forms: about one case in six is evaluated on a freshly constructed evaluator
    (by scorer name / by scorer callable), about one in six after another call of the same object (a larger input, or one it
    refuses)"""
    for c in cases:
        if c['op'] in ('eval', 'benham', 'tideman'):
            r = rng.random()
            if r < 0.09:
                c['_ctor'] = 'fresh'
                c['_tags'].append('ctor_fresh')
            elif r < 0.17 and c['op'] == 'eval' and (c['name'].startswith('rankedpairs') or c['name'].startswith('minimax')):
                c['_ctor'] = 'callable'
                c['_tags'].append('ctor_callable')
            elif r < 0.34:
                c['_pre'] = rng.choice(['larger', 'refusal'])
                c['_tags'] += ['twice'] + (['after_refusal'] if c['_pre'] == 'refusal' else [])
        yield c


def _gen(rng, tier):
    N = 300 if tier == 'quick' else 2500
    for ent, tag in DIRECTED + DIRECTED_SENSITIVE:
        m = 1 + max(max(a, b) for a, b, _ in ent)
        perm = list(range(m))
        rng.shuffle(perm)
        e2 = [[perm[a], perm[b], num_str(c)] for a, b, c in ent]
        rng.shuffle(e2)
        yield from _pairwise_cases(rng, e2, [tag, 'directed'])
    for prof, tag in DIRECTED_PROFILES:
        yield from _hybrid_cases(rng, prof, [tag, 'directed'])
    # unranked_at_bottom changes the outcome: bullet ballots
    prof = [[[0], '3'], [[1, 2], '2'], [[2, 1], '2']]
    for uab in (True, False):
        yield from _pairwise_cases(rng, CC.profile_to_pairwise(prof, uab), ['directed', 'uab_sensitive', 'from_ranked',
                                                                           'uab_true' if uab else 'uab_false'])
    # centre squeeze: candidate 0 beats everybody pairwise but has the fewest first preferences (so an elimination method that
    # overlooks the Condorcet winner elects somebody else); under every naming mode - in int0 / empty0 candidate 0 is FALSY
    for t in range(9 if tier == 'quick' else 90):
        a, b = rng.randint(3, 9), rng.randint(3, 9)
        c = rng.randint(1, min(a, b) - 1)
        if not (a < b + c and b < a + c):
            a = b = c + 1
        prof = [[[1, 0, 2], str(a)], [[2, 0, 1], str(b)], [[0, 1, 2] if rng.random() < 0.5 else [0, 2, 1], str(c)]]
        if rng.random() < 0.4:
            prof = [[bl + [3], w] for bl, w in prof]          # a common loser below
        rng.shuffle(prof)
        for op in ('benham', 'tideman'):
            cs = _mk_hybrid(op, prof, ['centre_squeeze', 'directed'])
            cs['_names'] = ['str', 'int0', 'empty0'][t % 3]
            cs['_tags'].append('names:' + cs['_names'])
            yield cs
    # majority cycles in which the pairs have different turnouts, so that the order of the defeats by margin differs from their
    # order by raw count (truncated ballots, sparse dictionaries): the lock order of ranked pairs by margins is decided by the
    # configured strength, not by the count
    yield from _pairwise_cases(rng, [[0, 1, '10'], [1, 2, '20'], [2, 1, '15'], [2, 0, '14'], [0, 2, '7']],
                               ['directed', 'turnout_cycle'])
    prof = [[[1, 0], '5'], [[2, 1], '9'], [[0, 2, 1], '3'], [[0], '7']]
    yield from _pairwise_cases(rng, CC.profile_to_pairwise(prof, True), ['directed', 'turnout_cycle', 'from_ranked', 'uab_true'])
    for t in range(25 if tier == 'quick' else 250):
        m = rng.choice([3, 3, 4])
        order = list(range(m))
        rng.shuffle(order)
        ent = []
        for i in range(m):
            a, b = order[i], order[(i + 1) % m]
            lose = rng.randint(0, 12)
            win = lose + rng.randint(1, 9)
            ent.append([a, b, str(win)])
            if lose or rng.random() < 0.3:
                ent.append([b, a, str(lose)])
        if m == 4:          # the two diagonals
            for a, b in ((order[0], order[2]), (order[1], order[3])):
                lose = rng.randint(0, 12)
                win = lose + rng.randint(1, 9)
                if rng.random() < 0.5:
                    a, b = b, a
                ent += [[a, b, str(win)], [b, a, str(lose)]]
        rng.shuffle(ent)
        yield from _pairwise_cases(rng, ent, ['directed', 'turnout_cycle'],
                                   evals=['rankedpairs_margins', 'rankedpairs_winvotes', 'rankedpairs_pwo'])
    # ballots that start with a shared rank of three or four candidates (the Gregory split of first preferences)
    for t in range(12 if tier == 'quick' else 120):
        m = rng.choice([4, 5, 6])
        prof = CC.random_profile(rng, m, n_ballots=rng.randint(2, 5), max_shared=3)
        g = rng.choice([3, 3, 4])
        head = sorted(rng.sample(range(m), g))
        rest = [c for c in range(m) if c not in head]
        rng.shuffle(rest)
        prof = [[[head] + rest[:rng.randint(0, len(rest))], str(rng.randint(2, 7))]] + [bw for bw in prof if bw[0] and bw[0][0] != head]
        yield from _hybrid_cases(rng, prof, ['from_ranked', 'shared_first_directed'], multi=False)
    # long majority cycles without a Condorcet winner (4-7 candidates), through every evaluator and both hybrids
    import families
    for t in range(6 if tier == 'quick' else 60):
        m = rng.choice([4, 5, 5, 6, 7])
        prof = families.gen_ranked_cycle(rng, m)
        yield from _hybrid_cases(rng, prof, ['ranked_cycle', 'from_ranked'])
        votes = CC.profile_to_pairwise(prof, True)
        ev = [e for e in EVALS if e != 'kemeny_young' or m <= 6]
        yield from _pairwise_cases(rng, votes, ['ranked_cycle', 'from_ranked', 'uab_true'], evals=ev,
                                   ns=sorted({1, 2, len(CC.profile_cands(prof))}))
    # profiles of 5-7 candidates with shared ranks of up to four, every weight type
    for t in range(20 if tier == 'quick' else 200):
        m = rng.choice([5, 6, 6, 7])
        wtype = CC.WTYPES[t % len(CC.WTYPES)]
        prof = CC.random_profile(rng, m, n_ballots=rng.randint(3, 8), wtype=wtype, max_shared=4)
        yield from _hybrid_cases(rng, prof, ['from_ranked', 'large_profile'], wtype=wtype)
        votes = CC.profile_to_pairwise(prof, rng.random() < 0.5)
        if votes:
            mm = len(CC.cands_of({'votes': votes}))
            ev = [e for e in EVALS if e != 'kemeny_young' or mm <= 6]
            yield from _pairwise_cases(rng, votes, ['from_ranked', 'large_profile'], evals=ev, ns=sorted({1, mm, rng.randint(1, mm)}))
    for k in range(N):
        r = rng.random()
        m = rng.choice([2, 3, 3, 4, 4, 4, 5, 5]) if rng.random() < 0.95 else 6
        if r < 0.55:
            kind = rng.choice(['dense', 'sparse', 'sparse', 'tied', 'plain'])
            votes = CC.random_pairwise(rng, m, kind)
            if not votes:
                continue
            tags = ['kind_' + kind]
            # numeric type of the counts: about a third of the small integer dictionaries are re-typed
            if rng.random() < 0.35 and all('/' not in s and len(s) < 6 for _, _, s in votes):
                nt = CC.NTYPES[k % len(CC.NTYPES)]
                votes = CC.retype_votes(votes, nt)
                for c in _pairwise_cases(rng, votes, tags + ['ntype:' + nt],
                                         evals=None if nt == 'fraction_all' else WT_EVALS_COMPARE_ONLY):
                    c['_ntype'] = nt
                    yield c
            else:
                yield from _pairwise_cases(rng, votes, tags)
        else:
            wtype = rng.choice(['int'] * 6 + CC.WTYPES[1:])
            prof = CC.random_profile(rng, m, wtype=wtype)
            for uab in (True, False):
                votes = CC.profile_to_pairwise(prof, uab)
                if votes:
                    yield from _pairwise_cases(rng, votes, ['from_ranked', 'uab_true' if uab else 'uab_false'])
            yield from _hybrid_cases(rng, prof, ['from_ranked'], wtype=wtype, multi=rng.random() < 0.5)
    if tier == 'thorough':
        for m in (2, 3, 4):
            for votes in CC.exhaustive_pairwise(m, CC.PAIR_STATES):
                if votes:
                    yield from _pairwise_cases(rng, votes, ['exhaustive'])
        for votes in CC.exhaustive_pairwise(3, CC.PAIR_STATES_EXT):
            if votes:
                yield from _pairwise_cases(rng, votes, ['exhaustive', 'exhaustive_ext'])
        # all profiles of <= 3 ballots out of the strict / truncated rankings of 3 candidates, weights 1-2
        balls = [list(p) for r in (1, 2, 3) for p in itertools.permutations(range(3), r)] + [[[0, 1], 2], [2, [0, 1]], [[0, 1, 2]]]
        for combo in itertools.combinations(range(len(balls)), 3):
            for ws in itertools.product(['1', '2'], repeat=3):
                prof = [[balls[i], w] for i, w in zip(combo, ws)]
                yield _mk_hybrid('benham', prof, ['exhaustive'])
                yield _mk_hybrid('tideman', prof, ['exhaustive'])
                t = _mk_hybrid('tideman', prof, ['exhaustive', 'tideman_multi'])
                t['n'] = 2
                yield t


def generate(rng, tier):
    for c in _variants(rng, _gen(rng, tier)):
        if c['op'] == 'eval':
            c['_tags'] += CC.features(c)
            m = len(CC.cands_of(c))
            c['_tags'].append('n_all' if c['n'] == m else 'n_one' if c['n'] == 1 else 'n_mid')
            if any('/' in s for _, _, s in c['votes']):
                c['_tags'].append('fraction')
            if any(Fraction(s) == 0 for _, _, s in c['votes']):
                c['_tags'].append('zero_count')
            if any(Fraction(s) >= 10 ** 9 for _, _, s in c['votes']):
                c['_tags'].append('big')
            if any(Fraction(s).denominator >= 10 ** 12 for _, _, s in c['votes']) and '_ntype' not in c:
                c['_tags'].append('close_fraction')
            if c['name'] == 'copeland_2o' and _copeland_boundary_tie(c):
                c['_tags'].append('second_order_used')
            if c['name'] == 'rankedpairs_margins' and _turnout_cycle(c):
                c['_tags'].append('rp_turnout_cycle')
        else:
            c['_tags'] += CC.profile_features(c['profile'])
            if c['op'] == 'tideman' and not c.get('smith', True):
                d = CC.own_pairwise(c['profile'])
                pc = sorted({x for p in d for x in p})
                if pc and CC.smith_set(d, pc) != CC.schwartz_set(d, pc):
                    c['_tags'].append('schwartz_sensitive')
        yield c


def _turnout_cycle(c):
    """no Condorcet winner, all (margin, count) keys distinct, and the pairs sort differently by margin and by raw count"""
    d = CC.dmap(c)
    cands = CC.cands_of(c)
    if CC.condorcet_winner(d, cands):
        return False
    keys = list(d)
    mk = {p: (d[p] - d.get((p[1], p[0]), 0), d[p]) for p in keys}
    if len(set(mk.values())) != len(keys):
        return False
    return sorted(keys, key=lambda p: mk[p], reverse=True) != sorted(keys, key=lambda p: (d[p], mk[p][0]), reverse=True)


def _copeland_boundary_tie(c):
    d = CC.dmap(c)
    cands = CC.cands_of(c)
    sc = sorted(_copeland_scores(d, cands).values(), reverse=True)
    n = c['n']
    return n < len(sc) and sc[n - 1] == sc[n]


# ------------------------------------------------------------------------------------------------
# implementation

def _hybrid_pairwise(case):
    """pairwise counts (protocol ids) of a hybrid case from the definition (own converter, unranked candidates at the bottom)"""
    return CC.own_pairwise(case['profile'], True)


_FRESH = {
    'rankedpairs_winvotes': lambda vc, ps: vc.RankedPairs('winning_votes'),
    'rankedpairs_margins': lambda vc, ps: vc.RankedPairs(pairwin_scoring='margins'),
    'rankedpairs_pwo': lambda vc, ps: vc.RankedPairs('pairwise_opposition'),
    'copeland_2o': lambda vc, ps: vc.Copeland(second_order=True),
    'copeland_raw': lambda vc, ps: vc.Copeland(second_order=False),
    'schulze': lambda vc, ps: vc.Schulze(),
    'kemeny_young': lambda vc, ps: vc.KemenyYoung(),
    'minimax_winvotes': lambda vc, ps: vc.MinimaxCondorcet('winning_votes'),
    'minimax_margins': lambda vc, ps: vc.MinimaxCondorcet(pairwin_scoring='margins'),
    'minimax_pwo': lambda vc, ps: vc.MinimaxCondorcet('pairwise_opposition'),
}
_CALLABLE = {
    'rankedpairs_winvotes': lambda vc, ps: vc.RankedPairs(ps.winning_votes),
    'rankedpairs_margins': lambda vc, ps: vc.RankedPairs(ps.margins),
    'rankedpairs_pwo': lambda vc, ps: vc.RankedPairs(ps.pairwise_opposition),
    'minimax_winvotes': lambda vc, ps: vc.MinimaxCondorcet(ps.winning_votes),
    'minimax_margins': lambda vc, ps: vc.MinimaxCondorcet(ps.margins),
    'minimax_pwo': lambda vc, ps: vc.MinimaxCondorcet(ps.pairwise_opposition),
}
_SHARED = {}          # one hybrid object per configuration, reused by every case of the run (state between calls)


def _decoy_votes(kind):
    """another input for the same evaluator object, evaluated first: a larger dense dictionary over five candidates (own names,
    disjoint from the case's), or one the refusing evaluators refuse (two disconnected tied majorities)"""
    if kind == 'larger':
        return {(f'z{a}', f'z{b}'): 1 + (3 * a + 5 * b) % 7 for a in range(5) for b in range(5) if a != b}
    return {('z0', 'z1'): 2, ('z1', 'z0'): 2, ('z2', 'z3'): 2, ('z3', 'z2'): 2}


def _decoy_profile(kind):
    if kind == 'larger':
        return {('z0', 'z1', 'z2', 'z3', 'z4'): 3, ('z1', 'z2', 'z3', 'z4', 'z0'): 2, ('z2', 'z3', 'z4', 'z0', 'z1'): 2,
                ('z4', 'z3'): 1}
    return {('z0', 'z1', 'z2'): 2, ('z1', 'z2', 'z0'): 2, ('z2', 'z0', 'z1'): 2}        # elimination tie: IndexError


def impl(case):
    import votelib.evaluate.condorcet as vc
    import votelib.evaluate.sequential as vs
    import votelib.component.pairwin_scorer as ps
    import votelib.convert
    ctor, pre = case.get('_ctor'), case.get('_pre')
    if case['op'] == 'eval':
        votes = CC.votes_dict(case)
        if ctor == 'fresh':
            ev = _FRESH[case['name']](vc, ps)
        elif ctor == 'callable':
            ev = _CALLABLE[case['name']](vc, ps)
        else:
            ev = vc.EVALUATORS[case['name']]
        if pre:
            guarded(lambda: ev.evaluate(_decoy_votes(pre), 2))
        return guarded(lambda: enc_selection(ev.evaluate(votes, case['n']), NAMES))
    prof = CC.profile_dict(case['profile'], case.get('_wtype'))
    if case['op'] == 'to_condorcet':
        conv = votelib.convert.RankedToCondorcetVotes(unranked_at_bottom=case.get('uab', True))
        return guarded(lambda: sorted([NAMES.i(a), NAMES.i(b), num_str(Fraction(c))] for (a, b), c in conv.convert(prof).items()))
    smith = case.get('smith', True)
    key = (case['op'], smith)
    if ctor == 'fresh' or key not in _SHARED:
        if case['op'] == 'benham':
            ev = vs.Benham()
        else:
            ev = vs.TidemanAlternative() if smith and ctor != 'fresh' else \
                vs.TidemanAlternative(set_selector=vc.SmithSet() if smith else vc.SchwartzSet())
        if ctor != 'fresh':
            _SHARED[key] = ev
    else:
        ev = _SHARED[key]
    if pre:
        guarded(lambda: ev.evaluate(_decoy_profile(pre), 1))
    if case['op'] == 'benham':
        return guarded(lambda: enc_selection(ev.evaluate(prof, 1), NAMES))
    if case['op'] == 'tideman':
        return guarded(lambda: enc_selection(ev.evaluate(prof, case.get('n', 1)), NAMES))
    raise ValueError(case['op'])


# ------------------------------------------------------------------------------------------------
# oracle: the property on the implementation's observable, from d(x, y) = votes.get((x, y), 0) only

def _copeland_scores(d, cands):
    b = CC.beats_fn(d)
    return {c: sum(1 for o in cands if o != c and b(c, o)) - sum(1 for o in cands if o != c and b(o, c)) for c in cands}


def _worst_defeat(d, cands, kind):
    out = {}
    for c in cands:
        vals = []
        for o in cands:
            if o == c:
                continue
            x, y = d.get((o, c), 0), d.get((c, o), 0)
            vals.append((x if x > y else 0) if kind == 'winvotes' else (x - y) if kind == 'margins' else x)
        out[c] = max(vals) if vals else 0
    return out


def _strongest_paths(d, cands):
    b = CC.beats_fn(d)
    P = {(x, y): (d.get((x, y), 0) if b(x, y) else 0) for x in cands for y in cands if x != y}
    for k in cands:
        for i in cands:
            for j in cands:
                if len({i, j, k}) == 3:
                    P[i, j] = max(P[i, j], min(P[i, k], P[k, j]))
    return P


def _kemeny_best(d, cands):
    best, arg = None, []
    for p in itertools.permutations(cands):
        s = sum(d.get((p[i], p[j]), 0) for i in range(len(p)) for j in range(i + 1, len(p)))
        if best is None or s > best:
            best, arg = s, [p]
        elif s == best:
            arg.append(p)
    return arg


def _rankedpairs_forced(d, cands, kind):
    """locked majorities when all strengths are distinct: returns the forced prefix of the ranking (every place where
    exactly one remaining candidate has no locked defeat from a remaining candidate), and whether the whole order is
    forced; None when two pairs have the same strength (the defining computation then has a tie in the lock order)"""
    keys = list(d.keys())

    def strength(p):
        x, y = d[p], d.get((p[1], p[0]), 0)
        s = (x if x > y else 0) if kind == 'winvotes' else (x - y) if kind == 'margins' else x
        return (s, x)
    st = [strength(p) for p in keys]
    if len(set(st)) != len(st):
        return None
    order = sorted(keys, key=strength, reverse=True)
    locked = []

    def path(a, b):
        seen, todo = {a}, [a]
        while todo:
            u = todo.pop()
            for x, y in locked:
                if x == u and y not in seen:
                    seen.add(y)
                    todo.append(y)
        return b in seen
    for x, y in order:
        if not path(y, x):
            locked.append((x, y))
    remaining = list(cands)
    prefix = []
    while remaining:
        src = [c for c in remaining if not any((o, c) in locked for o in remaining)]
        if len(src) != 1:
            break
        prefix.append(src[0])
        remaining.remove(src[0])
    return prefix, not remaining


def _rankedpairs_situation(case, kind):
    """the locked graph with equal strengths taken in dictionary order (two stable sorts: the documented behaviour), peeled
    source by source: 'several_sources' when some round does not have exactly one source (the recorded refusal of
    _build_ranking), 'leftover' when more than one candidate is left without an outgoing locked pair at the end (the recorded
    dropping of candidates), else 'total_order'"""
    d = CC.dmap(case)
    keys = [(a, b) for a, b, _ in case['votes']]

    def strength(p):
        x, y = d[p], d.get((p[1], p[0]), 0)
        s = (x if x > y else 0) if kind == 'winvotes' else (x - y) if kind == 'margins' else x
        return (s, x)
    order = sorted(keys, key=strength, reverse=True)
    locked = []

    def path(a, b):
        seen, todo = {a}, [a]
        while todo:
            u = todo.pop()
            for x, y in locked:
                if x == u and y not in seen:
                    seen.add(y)
                    todo.append(y)
        return b in seen
    for x, y in order:
        if not path(y, x):
            locked.append((x, y))
    edges, ranked = list(locked), []
    while edges:
        src = {x for x, _ in edges} - {y for _, y in edges}
        if len(src) != 1:
            return 'several_sources'
        w = src.pop()
        ranked.append(w)
        edges = [e for e in edges if e[0] != w]
    left = [c for c in CC.cands_of(case) if c not in ranked]
    return 'leftover' if len(left) > 1 else 'total_order'


NEVER_REFUSE = ['copeland_2o', 'copeland_raw', 'schulze', 'minimax_winvotes', 'minimax_margins', 'minimax_pwo']


def _listed(obs):
    out = set()
    for x in obs:
        if isinstance(x, dict):
            out |= set(x['tie'])
        else:
            out.add(x)
    return out


def oracle(case, obs):
    out = []
    if case['op'] == 'to_condorcet':      # correspondence only: ties the converter model used by the hybrids to the code
        return [('raises:' + obs['err'], 'converter')] if isinstance(obs, dict) else []
    hybrid = case['op'] != 'eval'
    if hybrid:
        d = _hybrid_pairwise(case)
        cands = CC.profile_cands(case['profile'])
        pw_cands = sorted({c for p in d for c in p})
        name, n = case['op'], case.get('n', 1)
    else:
        d = CC.dmap(case)
        cands = CC.cands_of(case)
        pw_cands = cands
        name, n = case['name'], case['n']
    m = len(cands)
    cw = CC.condorcet_winner(d, pw_cands) if len(pw_cands) >= 2 else []
    if hybrid and set(pw_cands) != set(cands):
        cw = []          # a candidate outside every pairwise contest: no head-to-head winner over all
    err = obs.get('err') if isinstance(obs, dict) else None

    # (0) undeclared exceptions are never a reported tie or a declared refusal
    if err is not None and err not in DECLARED:
        out.append((f'raises:{err}' + (':single_candidate' if m <= 1 else ''), 'undeclared exception'))
        return out
    # (0') a lone candidate takes the seat (hybrids; there is no pairwise contest to look at)
    if hybrid and m == 1 and err is None and obs != [cands[0]]:
        out.append(('lone_candidate_not_elected', f'only candidate {cands[0]}, got {obs}'))
    # (1) Condorcet winner, one seat
    if cw and n == 1 and (hybrid or name in CW_METHODS) and err is None and obs != [cw[0]]:
        out.append(('cw_not_elected', f'Condorcet winner {cw[0]}, got {obs}'))
    if err is not None:
        # a declared refusal: acceptable only where the defining computation does not determine the places asked for.  Each
        # clause names the situation (computed here, independently) in which the refusal occurs, so that a listed finding covers
        # only the recorded behaviour
        cw1 = bool(cw) and n == 1
        if hybrid:
            if cw1:
                out.append(('refuses_with_cw', f'{err} although {cw[0]} beats everybody'))
        elif name in NEVER_REFUSE:
            out.append((f'refuses_unexpectedly:{err}', 'this evaluator has no refusal'))
        elif name == 'kemeny_young':
            arg = _kemeny_best(d, cands)
            if err != 'NotImplementedError':
                out.append((f'refuses_other:{err}', 'Kemeny-Young only refuses with NotImplementedError'))
            elif len(arg) == 1:
                out.append(('refuses_unique_best', f'refusal although the best order {arg[0]} is unique'))
            elif len({p[:n] for p in arg}) == 1:
                # recorded: several best orders exist, they differ only below the places asked for
                out.append(('refuses_with_cw' if cw1 else 'refuses_determined',
                            f'all {len(arg)} best orders agree on the first {n} places {arg[0][:n]}'))
        elif name.startswith('rankedpairs'):
            kind = name.split('_')[1]
            sit = _rankedpairs_situation(case, kind)
            fr = _rankedpairs_forced(d, cands, kind)
            if err != 'VotingSystemError':
                out.append((f'refuses_other:{err}', 'ranked pairs only refuses with VotingSystemError'))
            elif sit != 'several_sources':
                out.append(('refuses_' + sit, 'refusal although every round of the locked graph has exactly one source'))
            elif cw1:
                # recorded: the locked graph has several sources in a later round, the first place is the Condorcet winner
                out.append(('refuses_with_cw', f'{err} although {cw[0]} beats everybody'))
            elif fr is not None and len(fr[0]) >= n:
                out.append(('refuses_determined', f'locked majorities force {fr[0][:n]}'))
        return out
    # (2) Smith set, one seat (Tideman alternative with the Schwartz selector: the Schwartz set)
    schwartz = hybrid and not case.get('smith', True)
    if n == 1 and (hybrid or name in SMITH_METHODS) and len(pw_cands) >= 1 and (not hybrid or set(pw_cands) == set(cands)):
        smith = CC.schwartz_set(d, pw_cands) if schwartz else CC.smith_set(d, pw_cands)
        if obs and not (_listed(obs[:1]) & smith if isinstance(obs[0], dict) else obs[0] in smith):
            out.append(('schwartz_violation' if schwartz else 'smith_violation',
                        f'first place {obs[0]} outside the {"Schwartz" if schwartz else "Smith"} set {sorted(smith)}'))
    if hybrid and n >= 2:
        # several seats (Tideman alternative): one tier per seat among the candidates not seated yet
        if any(isinstance(x, dict) for x in obs) or len(set(obs)) != len(obs) or len(obs) != min(n, m) \
                or not set(obs) <= set(cands):
            out.append(('tier_shape', f'{len(obs)} places for {n} seats and {m} candidates: {obs}'))
        else:
            if cw and obs[0] != cw[0]:
                out.append(('cw_not_first', f'Condorcet winner {cw[0]}, got {obs}'))
            for k, c in enumerate(obs):
                rest = [x for x in cands if x not in obs[:k]]
                dr = {(x, y): v for (x, y), v in d.items() if x in rest and y in rest}
                rc = sorted({x for pq in dr for x in pq})
                if set(rc) != set(rest):
                    break            # a remaining candidate outside every remaining contest: no set to compare with
                sset = CC.schwartz_set(dr, rc) if schwartz else CC.smith_set(dr, rc)
                if c not in sset:
                    out.append(('tier_outside_set', f'seat {k + 1} goes to {c}, outside the {"Schwartz" if schwartz else "Smith"} '
                                                    f'set {sorted(sset)} of the candidates left'))
                    break
    if hybrid:
        return out
    # (3) nobody dropped when every candidate can be seated
    if n == m and _listed(obs) != set(cands):
        where = ''
        if name.startswith('rankedpairs') and _rankedpairs_situation(case, name.split('_')[1]) == 'total_order':
            where = '_total_order'      # recorded only where the locked pairs leave several candidates without an outgoing pair
        out.append(('candidate_dropped' + where, f'{sorted(set(cands) - _listed(obs))} missing from {obs}'))
    # (4) defining computation, up to reported ties
    vals = None
    if name == 'copeland_raw':
        vals = _copeland_scores(d, cands)
    elif name.startswith('minimax'):
        wd = _worst_defeat(d, cands, name.split('_')[1])
        vals = {c: -v for c, v in wd.items()}
    elif name == 'schulze':
        P = _strongest_paths(d, cands)
        vals = {c: sum(1 for o in cands if o != c and P[c, o] > P[o, c]) for c in cands}
    if vals is not None:
        v = CC.nbest_violations(vals, n, obs)
        if v:
            out.append(('defining', '; '.join(f'{a}: {b}' for a, b in v)))
    if name == 'copeland_2o':
        sc = _copeland_scores(d, cands)
        srt = sorted(sc.values(), reverse=True)
        if n >= m or srt[n - 1] != srt[n]:
            v = CC.nbest_violations(sc, n, obs)
        else:
            tau = srt[n - 1]
            above = [c for c in cands if sc[c] > tau]
            level = [c for c in cands if sc[c] == tau]
            b = CC.beats_fn(d)
            so = {c: sum(sc[o] for o in cands if o != c and b(c, o)) for c in level}
            head, tail = obs[:len(above)], obs[len(above):]
            v = []
            if any(isinstance(x, dict) for x in head) or sorted(head) != sorted(above) \
                    or any(sc[x] < sc[y] for x, y in zip(head, head[1:])):
                v.append(('head', f'expected the candidates above the boundary {sorted(above)} first'))
            v += CC.nbest_violations(so, n - len(above), tail)
        if v:
            out.append(('defining', '; '.join(f'{a}: {b}' for a, b in v)))
    if name == 'kemeny_young':
        arg = _kemeny_best(d, cands)
        if len(arg) == 1:
            if obs != list(arg[0][:n]):
                out.append(('defining', f'best order {arg[0]}, got {obs}'))
        elif not any(isinstance(x, dict) for x in obs):
            if len({p[:n] for p in arg}) > 1:
                out.append(('defining', f'{len(arg)} best orders differ in the first {n} places but no tie is reported'))
            elif obs != list(arg[0][:n]):
                out.append(('defining', f'best orders start with {arg[0][:n]}, got {obs}'))
    if name.startswith('rankedpairs'):
        # independent ranked pairs (all three scorers, every n): majorities sorted by the configured strength, equal strengths by
        # the raw count (the library's secondary key), locked unless they close a cycle; applied where the lock order is determined
        # (all (strength, count) keys pairwise distinct)
        fr = _rankedpairs_forced(d, cands, name.split('_')[1])
        if fr is not None:
            prefix, total = fr
            k = min(n, len(prefix))
            if obs[:k] != prefix[:k]:
                out.append(('locked_order', f'locked majorities force {prefix[:k]}, got {obs}'))
            elif n > len(prefix) and len(obs) > len(prefix) and not any(isinstance(x, dict) for x in obs[len(prefix):]):
                out.append(('silent_tie', f'places after {prefix} are not determined by the locked majorities but '
                                          f'{obs} reports no tie'))
    return out


def signature(case, clause):
    if case['op'] == 'eval':
        fam = case['name'].split('_')[0]
        return f'{fam}:{clause}'
    return f"{case['op']}:{clause}"


def compare(case, iobs, mobs):
    if case['op'] == 'eval' and case['name'] == 'copeland_2o' and isinstance(mobs, dict) and 'res' in mobs:
        if isinstance(iobs, dict):
            return f'impl={iobs} model={mobs}'
        res, grp = canon(mobs['res']), mobs['grp']
        io = canon(iobs)
        if len(io) != len(res) or len(grp) != len(res):
            return f'impl={io} model={res}'

        def runs(lst):
            out, i = [], 0
            while i < len(lst):
                j = i
                while j < len(lst) and grp[j] == grp[i]:
                    j += 1
                out.append(sorted(json.dumps(x, sort_keys=True) for x in lst[i:j]))
                i = j
            return out
        if runs(io) != runs(res):
            return f'impl={io} model={res} groups={grp}'
        return None
    if case['op'] == 'to_condorcet' and isinstance(mobs, list):
        mobs = sorted(mobs)
    if canon(iobs) != canon(mobs):
        return f'impl={json.dumps(canon(iobs))} model={json.dumps(canon(mobs))}'
    return None


def nontrivial(case, obs):
    if isinstance(obs, dict):
        return False
    if case['op'] == 'eval':
        return len(CC.cands_of(case)) >= 3
    return len(case['profile']) >= 2


def shrink_candidates(case):
    if case['op'] == 'eval':
        vs = case['votes']
        for i in range(len(vs)):
            if len(vs) > 1:
                c = dict(case)
                c['votes'] = vs[:i] + vs[i + 1:]
                m = len(CC.cands_of(c))
                c['n'] = min(case['n'], m)
                yield c
        if case['n'] > 1:
            c = dict(case)
            c['n'] = case['n'] - 1
            yield c
    else:
        pr = case['profile']
        for i in range(len(pr)):
            if len(pr) > 1:
                c = dict(case)
                c['profile'] = pr[:i] + pr[i + 1:]
                yield c
        for i, (b, w) in enumerate(pr):
            if len(b) > 1:
                c = dict(case)
                c['profile'] = pr[:i] + [[b[:-1], w]] + pr[i + 1:]
                yield c


def describe(case):
    if case['op'] == 'eval':
        return (f"votelib.evaluate.condorcet.EVALUATORS[{case['name']!r}]" + (f" ({case['_ctor']} instance)" if case.get('_ctor') else '')
                + f".evaluate({CC.votes_dict(case)!r}, {case['n']})" + (f" after a {case['_pre']} input" if case.get('_pre') else ''))
    if case['op'] == 'to_condorcet':
        return (f"votelib.convert.RankedToCondorcetVotes(unranked_at_bottom={case.get('uab', True)})"
                f".convert({CC.profile_dict(case['profile'], case.get('_wtype'))!r})")
    cls = 'Benham()' if case['op'] == 'benham' else \
        'TidemanAlternative()' if case.get('smith', True) else 'TidemanAlternative(SchwartzSet())'
    return (f"votelib.evaluate.sequential.{cls}.evaluate({CC.profile_dict(case['profile'], case.get('_wtype'))!r}, "
            f"{case.get('n', 1)})" + (f" after a {case['_pre']} input" if case.get('_pre') else ''))


TECHNIQUE = ('Lean 4 proofs of Condorcet-winner consistency and no-candidate-dropped for the modelled evaluators (unbounded) '
             '+ differential correspondence of every registered Condorcet evaluator and both hybrids with votelib')
LEVEL_TEXT = ('All ten registered Condorcet evaluators, the three pairwise win scorers, Benham and TidemanAlternative (with the ranked-vote '
              'plumbing they use) are modelled line for line and tied to /repo by a differential correspondence on every check plus an '
              'oracle of the property clauses on the implementation.  Proved for all well-formed pairwise dictionaries (no size bound): '
              'Copeland (both variants), minimax by winning votes and by margins, Schulze, Benham and Tideman alternative elect exactly '
              'the Condorcet winner for one seat; ranked pairs (all three scorers) and Kemeny-Young never elect anybody else (they '
              'answer [w] or refuse); Kemeny-Young answers only with the head of the unique best order; every candidate Copeland names '
              'or Schulze names for one seat, and the first place of every Kemeny-Young, ranked-pairs, Benham and Tideman-alternative answer, lies in the Smith set; the locked pairs of ranked pairs are acyclic; the widest_paths table of Schulze is the max over chains of the min win count; Copeland ranks by wins minus losses and minimax by the worst defeat over all opponents (absent pair = 0:0); Copeland, Schulze and minimax list every '
              'candidate when there are as many seats as candidates.  Where the current code does not meet the '
              'property (ranked pairs and Kemeny-Young refusals with a Condorcet winner, ranked pairs dropping candidates) the negation is proved on a concrete witness and the defect '
              'is a listed open finding.')
LEVEL_NOTE = ('Trusted: Lean kernel + propext/Classical.choice/Quot.sound; the correspondence harness (bounded by its generator: 2-6 '
              'candidates, int/Fraction counts, profiles of up to 6 ballots); CPython dict order, set iteration order canonicalised as '
              'listed under modelled-not-verified.')
