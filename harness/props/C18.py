"""C18 — evaluation is pure: inputs untouched, no state carried between calls.

Op `history`: a case names a list of TARGETS (public evaluator / converter / validator classes found by
reflection, module-level singletons) and a call sequence of length <= 6.  The implementation runs the sequence
on ONE SHARED instance per target and the same calls on FRESH instances (fresh arguments each time), and
observes: outputs (or exception classes) of both runs, a deep snapshot of every argument before / after each
call, `vars(obj)` of the shared instances before / after each call, the `__defaults__` / `__kwdefaults__`
containers of every function of the library after the run, and — for seeded random components — a repetition of
every call on a second fresh instance.  The oracle states the property on these observations; the Lean
state-machine models (PAV coefficient cache, Borda scorer state, reseeding RNG) are driven through the driver on
the same call sequences and compared with the observable state of the implementation (`obj._coefs`,
`scorer.n_candidates/_scores`) and its outputs.
"""
import os
import sys
import copy
import signal
import hashlib
import json
import types
import inspect
import importlib
import itertools
from fractions import Fraction
from decimal import Decimal
from common import *   # noqa

ID = 'C18'
NAMESPACE = 'VL.C18'
LEAN_MODULES = ['VotelibProofs.Props.C18']
GEN_MODULES = ['RankScore']

VOTELIB_MODULES = [
    'votelib.util', 'votelib.candidate', 'votelib.vote', 'votelib.convert', 'votelib.persist',
    'votelib.component.core', 'votelib.component.divisor', 'votelib.component.quota',
    'votelib.component.pairwin_scorer', 'votelib.component.rankscore', 'votelib.component.transfer',
    'votelib.evaluate.core', 'votelib.evaluate.proportional', 'votelib.evaluate.sequential',
    'votelib.evaluate.approval', 'votelib.evaluate.cardinal', 'votelib.evaluate.condorcet',
    'votelib.evaluate.auxiliary', 'votelib.evaluate.openlist', 'votelib.evaluate.threshold',
    'votelib.crit.proportionality',
]


def _mods():
    return [importlib.import_module(m) for m in VOTELIB_MODULES]


# ------------------------------------------------------------------------------------------------
# codec: tagged JSON <-> Python values.  Every call argument is stored in the case in tagged form and decoded
# afresh for every call, so that the shared and the fresh run never share an argument object.
#   int / str / None / bool         themselves
#   {"F": "p/q"}  Fraction          {"X": "1.5"} Decimal
#   {"D": [[k, v], ...]}  dict (insertion order)      {"L": [...]} list     {"T": [...]} tuple
#   {"S": [...]} frozenset          {"O": [kind, name, ...]} candidate object (memoised per decode)

def F(x):
    x = Fraction(x)
    return int(x) if x.denominator == 1 else {'F': f'{x.numerator}/{x.denominator}'}


def D(pairs):
    return {'D': [[k, v] for k, v in pairs]}


def L(xs):
    return {'L': list(xs)}


def T(xs):
    return {'T': list(xs)}


def S(xs):
    return {'S': list(xs)}


NAME_MODES = ['str', 'int0', 'empty0', 'person']        # candidate naming: 'c3' as it is | the int 3 | '' for candidate 0 (falsy names)
_CNAME = __import__('re').compile(r'c\d+')


_PERSONS = {}          # naming mode 'person': ONE Person object per candidate and history, shared by all its calls and runs
                       # (identity-hashed objects: new objects per call would make set iteration order, hence outcomes that
                       # depend on it, differ between the runs for a reason that has nothing to do with state)


class _Dec:
    def __init__(self, mode=None):
        self.memo = {}
        self.mode = mode

    def obj(self, spec):
        import votelib.candidate as vc
        key = json.dumps(spec)
        if key in self.memo:
            return self.memo[key]
        kind = spec[0]
        if kind == 'Party':
            o = vc.PoliticalParty(spec[1], number=spec[2] if len(spec) > 2 else None,
                                  properties=dict(spec[3]) if len(spec) > 3 else None)
        elif kind == 'Coalition':
            o = vc.Coalition([self.obj(['Party', p]) for p in spec[2]], name=spec[1])
        elif kind == 'Person':
            party = self.obj(['Party', spec[3]]) if len(spec) > 3 and spec[3] else None
            o = vc.Person(spec[1], number=spec[2] if len(spec) > 2 else None, candidacy_for=party,
                          properties=dict(spec[4]) if len(spec) > 4 else None)
        elif kind == 'Constituency':
            o = vc.Constituency(spec[1])
        elif kind == 'NOTA':
            o = vc.NoneOfTheAbove('NOTA')
        else:
            raise ValueError(spec)
        self.memo[key] = o
        return o

    def __call__(self, x):
        if isinstance(x, dict):
            (tag, v), = x.items()
            if tag == 'F':
                return Fraction(v)
            if tag == 'X':
                return Decimal(v)
            if tag == 'fl':
                return float(v)
            if tag == 'D':
                return {self._key(k): self(val) for k, val in v}
            if tag == 'L':
                return [self(e) for e in v]
            if tag == 'T':
                return tuple(self(e) for e in v)
            if tag == 'S':
                return frozenset(self(e) for e in v)
            if tag == 'O':
                return self.obj(v)
            raise ValueError(x)
        if isinstance(x, str) and self.mode in ('int0', 'empty0', 'person') and _CNAME.fullmatch(x):
            if self.mode == 'int0':
                return int(x[1:])
            if self.mode == 'person':       # candidate objects with identity semantics
                if x not in _PERSONS:
                    _PERSONS[x] = self.obj(['Person', x, int(x[1:])])
                return _PERSONS[x]
            return '' if x == 'c0' else x
        return x

    def _key(self, k):
        return self(k)


def decode(x):
    return _Dec()(x)


def _name(o):
    import votelib.candidate as vc
    if isinstance(o, vc.CandidateObject.__mro__[0]) and hasattr(o, 'name'):
        return f'{type(o).__name__}:{o.name}'
    return None


ENC_NODE_BUDGET = 20000        # nodes per snapshot; what lies beyond is encoded as an opaque token
ENC_DEPTH = 12                 # nesting depth of objects (attribute walks); containers may nest to 4 x this
_ADDR = __import__('re').compile(r'0x[0-9a-fA-F]+')


class _EncState:
    __slots__ = ('nodes', 'seen')

    def __init__(self):
        self.nodes = 0
        self.seen = set()          # ids of the objects on the CURRENT path (cycle detection); an object that occurs several
                                   # times is encoded in full each time, so that the encoding does not depend on the order in
                                   # which a set happens to be iterated — the node budget bounds the total


def enc(x, ordered=False, _depth=0, _st=None):
    """canonical JSON-able form of an output / argument / attribute value.  TOTAL: bounded by a node budget and a depth limit,
    cycles become a reference token, modules / classes /
    functions / methods are encoded by name, random generators by a digest of their state, anything unknown by its type name
    and an address-free repr.
    ordered=False: dict items and set members sorted (outputs); ordered=True: dict insertion order kept
    (argument and state snapshots: reordering a caller's dict counts as mutation)."""
    import votelib.evaluate.core as vcore
    if _st is None:
        _st = _EncState()
    _st.nodes += 1
    if x is None or isinstance(x, (bool, str)):
        return x
    if isinstance(x, int):
        return x
    if isinstance(x, Fraction):
        return {'F': f'{x.numerator}/{x.denominator}'}
    if isinstance(x, Decimal):
        return {'X': str(x)}
    if isinstance(x, float):
        return {'f': repr(x)}
    if _st.nodes > ENC_NODE_BUDGET:
        return {'opaque': 'budget', 'type': type(x).__name__}
    if _depth > 4 * ENC_DEPTH:
        return {'opaque': 'depth', 'type': type(x).__name__}
    if isinstance(x, vcore.Tie):
        return {'Tie': sorted((enc(e, ordered, _depth + 1, _st) for e in x), key=_sk)}
    if isinstance(x, dict):
        items = [[enc(k, ordered, _depth + 1, _st), enc(v, ordered, _depth + 1, _st)] for k, v in x.items()]
        if not ordered:
            items.sort(key=lambda p: _sk(p[0]))
        return {'D': items}
    if isinstance(x, list):
        return {'L': [enc(e, ordered, _depth + 1, _st) for e in x]}
    if isinstance(x, tuple):
        return {'T': [enc(e, ordered, _depth + 1, _st) for e in x]}
    if isinstance(x, (set, frozenset)):
        return {'S': sorted((enc(e, ordered, _depth + 1, _st) for e in x), key=_sk)}
    if isinstance(x, types.ModuleType):
        return {'module': x.__name__}
    if isinstance(x, type):
        return {'class': f'{x.__module__}.{x.__qualname__}'}
    if isinstance(x, (types.FunctionType, types.BuiltinFunctionType, types.MethodType, types.MethodWrapperType,
                      types.WrapperDescriptorType, types.MethodDescriptorType)):
        return {'fn': f"{getattr(x, '__module__', None)}.{getattr(x, '__qualname__', type(x).__name__)}"}
    if isinstance(x, (bytes, bytearray)):
        return {'b': bytes(x[:64]).hex()}
    import random as _random
    if isinstance(x, _random.Random):
        try:
            return {'rng': hashlib.sha1(repr(x.getstate()).encode()).hexdigest()[:16]}
        except Exception:
            return {'rng': 'system'}
    if callable(x) and not hasattr(x, '__dict__'):
        return {'fn': type(x).__name__}
    # library / candidate objects: class + attributes, each object once per snapshot
    if id(x) in _st.seen:
        return {'ref': type(x).__name__}
    if _depth > ENC_DEPTH:
        return {'opaque': 'depth', 'type': type(x).__name__}
    try:
        attrs = vars(x)
    except TypeError:
        return {'obj': type(x).__name__, 'repr': _ADDR.sub('0x', repr(x))[:80]}
    _st.seen.add(id(x))
    try:
        return {'obj': type(x).__name__,
                'vars': [[k, enc(v, ordered, _depth + 1, _st)] for k, v in sorted(attrs.items(), key=lambda kv: str(kv[0]))]}
    finally:
        _st.seen.discard(id(x))


def _sk(j):
    return json.dumps(j, sort_keys=True, default=str)


def outcome(fn):
    """run fn(); -> {'ok': enc(result)} | {'exc': class name}"""
    try:
        return {'ok': enc(call_with_timeout(fn, 3))}
    except Exception as e:      # noqa
        return {'exc': type(e).__name__}


# ------------------------------------------------------------------------------------------------
# input generators (tagged form).  Small, tie-prone, with Fractions now and then.

CN = ['c0', 'c1', 'c2', 'c3', 'c4']


def g_count(rng, frac=True):
    r = rng.random()
    if frac and r < 0.12:
        return F(Fraction(rng.randint(1, 9), rng.choice([2, 3, 4])))
    return rng.choice([1, 1, 2, 2, 3, 4, 5, 6, 7, 10, 12, 20, 31])


def g_cands(rng, lo=2, hi=4):
    return CN[:rng.randint(lo, hi)]


def g_simple(rng, cands=None, frac=True, zero=False):
    cands = cands or g_cands(rng)
    cs = list(cands)
    rng.shuffle(cs)
    return D([(c, 0 if zero and rng.random() < 0.15 else g_count(rng, frac)) for c in cs])


def g_ranking(rng, cands, shared=True):
    k = rng.randint(1, len(cands))
    pick = rng.sample(cands, k)
    out = []
    i = 0
    while i < len(pick):
        if shared and i + 2 < len(pick) and rng.random() < 0.08:
            out.append(S(sorted(pick[i:i + 3])))
            i += 3
        elif shared and i + 1 < len(pick) and rng.random() < 0.15:
            out.append(S(sorted(pick[i:i + 2])))
            i += 2
        else:
            out.append(pick[i])
            i += 1
    return T(out)


def g_ranked(rng, cands=None, shared=True, nb=None):
    cands = cands or g_cands(rng, 2, 4)
    seen, pairs = set(), []
    for _ in range(nb or rng.randint(1, 5)):
        b = g_ranking(rng, cands, shared)
        k = json.dumps(b, sort_keys=True)
        if k in seen:
            continue
        seen.add(k)
        pairs.append((b, g_count(rng, frac=False)))
    return D(pairs)


def g_approval(rng, cands=None, nb=None):
    cands = cands or g_cands(rng, 2, 4)
    seen, pairs = set(), []
    for _ in range(nb or rng.randint(1, 5)):
        b = sorted(rng.sample(cands, rng.randint(1, len(cands))))
        if tuple(b) in seen:
            continue
        seen.add(tuple(b))
        pairs.append((S(b), g_count(rng, frac=False)))
    return D(pairs)


def g_score(rng, cands=None, nb=None):
    cands = cands or g_cands(rng, 2, 4)
    seen, pairs = set(), []
    for _ in range(nb or rng.randint(1, 4)):
        cs = sorted(rng.sample(cands, rng.randint(1, len(cands))))
        b = [T([c, rng.randint(0, 5)]) for c in cs]
        k = json.dumps(b)
        if k in seen:
            continue
        seen.add(k)
        pairs.append((S(b), g_count(rng, frac=False)))
    return D(pairs)


def g_condorcet(rng, cands=None):
    cands = cands or g_cands(rng, 2, 4)
    pairs = []
    for a in cands:
        for b in cands:
            if a != b and rng.random() < 0.85:
                pairs.append((T([a, b]), rng.randint(0, 9)))
    if not pairs:
        pairs.append((T([cands[0], cands[1]]), 3))
    rng.shuffle(pairs)
    return D(pairs)


def g_mj(rng, cands=None):
    cands = cands or g_cands(rng, 2, 4)
    return D([(c, D([(g, rng.randint(1, 6)) for g in sorted(rng.sample(range(6), rng.randint(1, 3)))])) for c in cands])


DN = ['d0', 'd1', 'd2']


def g_const(rng, inner, nd=None):
    ds = (CN if rng.random() < 0.12 else DN)[:nd or rng.randint(1, 3)]       # name clash: a district named like a candidate
    return D([(d, inner(rng)) for d in ds])


def g_gains(rng, cands=None, hi=2):
    cands = cands or g_cands(rng, 1, 4)
    cs = [c for c in cands if rng.random() < 0.6]
    return D([(c, rng.randint(0, hi)) for c in cs])


def g_caps(rng, cands=None):
    cands = cands or g_cands(rng, 1, 4)
    cs = [c for c in cands if rng.random() < 0.6]
    return D([(c, rng.randint(1, 4)) for c in cs])


def g_nested_gains(rng, hi=2):
    return D([(d, g_gains(rng, hi=hi)) for d in DN[:rng.randint(1, 3)] if rng.random() < 0.8])


def g_selection(rng, cands=None):
    cands = cands or g_cands(rng, 1, 4)
    return L(rng.sample(cands, rng.randint(1, len(cands))))


def g_seats(rng, hi=3):
    return rng.randint(1, hi)


def kw_prev_max(rng, k, nested=False, p=0.5):
    """prev_gains / max_seats are OMITTED half of the time so that the shared `{}` defaults are what runs"""
    if rng.random() < p:
        k['prev_gains'] = g_nested_gains(rng) if nested else g_gains(rng)
    if rng.random() < p * 0.7:
        k['max_seats'] = (D([(d, g_caps(rng)) for d in DN[:rng.randint(1, 3)]]) if nested else g_caps(rng))
    return k


def call(m, *a, **k):
    return {'m': m, 'a': list(a), 'k': k}


# call-sequence generators by protocol of the target

def c_eval_simple_n(rng, prev=False):
    k = kw_prev_max(rng, {}) if prev else {}
    return call('evaluate', g_simple(rng, zero=True), g_seats(rng), **k)


def c_eval_simple_dist(rng):
    return c_eval_simple_n(rng, prev=True)


def c_eval_rounds_list(rng, rounds=2):
    """votes in every documented form: one dict for all rounds, or a LIST (or tuple) of per-round dicts that is shorter than,
    as long as, or longer than the number of rounds"""
    cs = g_cands(rng, 2, 4)
    form = rng.choice(['dict', 'shorter', 'equal', 'longer', 'tuple'])
    k = kw_prev_max(rng, {})
    if form == 'dict':
        v = g_simple(rng, cs, frac=False)
    else:
        n = {'shorter': rng.randint(1, rounds - 1), 'equal': rounds, 'longer': rounds + 1, 'tuple': rng.randint(1, rounds)}[form]
        sets = [g_simple(rng, cs, frac=False) for _ in range(n)]
        v = T(sets) if form == 'tuple' else L(sets)
    c = call('evaluate', v, rng.randint(2, 8), **k)
    c['_form'] = form
    return c


def c_eval_simple_seatless(rng):
    return call('evaluate', g_simple(rng))


def c_eval_simple_seatless_dist(rng):
    return call('evaluate', g_simple(rng), **kw_prev_max(rng, {}))


def c_eval_simple_sel(rng):
    v = g_simple(rng)
    if rng.random() < 0.5:
        return call('evaluate', v)
    return call('evaluate', v, g_seats(rng))


def c_eval_ranked_n(rng, shared=True, hi=2):
    return call('evaluate', g_ranked(rng, shared=shared), g_seats(rng, hi))


def c_eval_ranked_noshared(rng):
    return c_eval_ranked_n(rng, shared=False)


def c_eval_ranked_1(rng):
    return call('evaluate', g_ranked(rng, shared=False), 1)


def c_eval_ranked_dist(rng):
    return call('evaluate', g_ranked(rng, shared=rng.random() < 0.5), g_seats(rng, 3), **kw_prev_max(rng, {}, p=0.3))


def c_eval_approval_n(rng):
    return call('evaluate', g_approval(rng), g_seats(rng, 3))


def c_eval_score_n(rng):
    return call('evaluate', g_score(rng), g_seats(rng, 2))


def c_eval_score_dist(rng):
    return call('evaluate', g_score(rng), g_seats(rng, 3), **kw_prev_max(rng, {}, p=0.3))


def c_eval_mj(rng):
    return call('evaluate', g_mj(rng), g_seats(rng, 2))


def c_eval_condorcet_n(rng):
    return call('evaluate', g_condorcet(rng), g_seats(rng, 2))


def c_eval_condorcet(rng):
    return call('evaluate', g_condorcet(rng))


def c_eval_const_dist(rng):
    return call('evaluate', g_const(rng, lambda r: g_simple(r, frac=False)), g_seats(rng, 4),
                **kw_prev_max(rng, {}, nested=True))


def c_eval_const_dist_dictseats(rng):
    v = g_const(rng, lambda r: g_simple(r, frac=False))
    if rng.random() < 0.5:
        n = D([(d, rng.randint(0, 3)) for d, _ in v['D']])
    else:
        n = g_seats(rng, 4)
    return call('evaluate', v, n, **kw_prev_max(rng, {}, nested=True))


def c_conv(g):
    return lambda rng: call('convert', g(rng))


def c_calc(rng, caps=True):
    v = g_simple(rng, frac=False)
    cs = [c for c, _ in v['D']]
    return call('calculate', v, rng.randint(2, 6),
                prev_gains=g_gains(rng, cs, hi=3), **({'max_seats': g_caps(rng)} if caps and rng.random() < 0.2 else {}))


def _c_calc_const(rng):
    cs = g_cands(rng, 2, 3)
    v = g_const(rng, lambda r: g_simple(r, cs, frac=False))
    pg = D([(d, g_gains(rng, cs, hi=2)) for d, _ in v['D'] if rng.random() < 0.8])
    return call('calculate', v, rng.randint(3, 6), prev_gains=pg)


# ------------------------------------------------------------------------------------------------
# targets: every public evaluator / converter / validator class (constructed with default-ish arguments) and the
# module-level singletons.  `make` builds a FRESH instance; `shared` (optional) returns the object to be used as
# the shared instance (module singletons).  `gen(rng)` produces one call.  `seed`: the component is seeded random
# (must repeat); `random`: unseeded / order-based by documentation — excluded from `history_dependent` only.

def _targets():
    import votelib.candidate as vcand
    import votelib.vote as vvote
    import votelib.convert as vconv
    import votelib.evaluate.core as vcore
    import votelib.evaluate.proportional as vprop
    import votelib.evaluate.sequential as vseq
    import votelib.evaluate.approval as vapp
    import votelib.evaluate.cardinal as vcard
    import votelib.evaluate.condorcet as vcond
    import votelib.evaluate.auxiliary as vaux
    import votelib.evaluate.openlist as vopen
    import votelib.evaluate.threshold as vthr
    import votelib.component.transfer as vtrans
    import votelib.component.rankscore as vrs
    Tt = {}

    def add(name, make, gen, cls=None, **kw):
        assert name not in Tt, name
        e = {'name': name, 'make': make, 'gen': gen}
        e.update(kw)
        probe = make()
        e['cls'] = cls or type(probe)
        Tt[name] = e

    HA = vprop.HighestAverages
    # --- proportional distributors
    add('HighestAverages', lambda: HA(), c_eval_simple_dist)
    add('HighestAverages:sl', lambda: HA('sainte_lague'), c_eval_simple_dist)
    add('LargestRemainder', lambda: vprop.LargestRemainder('hare'), c_eval_simple_dist)
    add('LargestRemainder:droop', lambda: vprop.LargestRemainder('droop'), c_eval_simple_dist)
    add('QuotaDistributor', lambda: vprop.QuotaDistributor(), c_eval_simple_dist)
    add('QuotaDistributor:sub', lambda: vprop.QuotaDistributor('hare', on_overaward='subtract'), c_eval_simple_dist)
    add('PureProportionality', lambda: vprop.PureProportionality(), c_eval_simple_dist)
    add('VotesPerSeat', lambda: vprop.VotesPerSeat(3), c_eval_simple_seatless_dist)
    add('BiproportionalEvaluator', lambda: vprop.BiproportionalEvaluator('sainte_lague'),
        lambda rng: call('evaluate', _g_biprop(rng), rng.randint(2, 6)))
    # --- core wrappers
    add('Plurality', lambda: vcore.Plurality(), c_eval_simple_sel)
    add('MultistageDistributor', lambda: vcore.MultistageDistributor([HA(), vprop.LargestRemainder('hare')]),
        c_eval_rounds_list, rounds=2)
    add('MultistageDistributor:quota_ha', lambda: vcore.MultistageDistributor([vprop.QuotaDistributor('hare'), HA()]),
        c_eval_rounds_list, rounds=2)
    add('MultistageDistributor:three', lambda: vcore.MultistageDistributor([HA(), HA('sainte_lague'), vprop.LargestRemainder('droop')]),
        (lambda rng: c_eval_rounds_list(rng, 3)), rounds=3)
    add('MultistageDistributor:depth2',
        lambda: vcore.MultistageDistributor([vcore.ByConstituency(HA()), vcore.ByConstituency(HA('sainte_lague'))], depth=2),
        c_eval_const_dist)
    add('UnusedVotesDistributor:votes_forms',
        lambda: vcore.UnusedVotesDistributor([vprop.QuotaDistributor('hare'), HA()]), c_eval_rounds_list, rounds=2)
    add('UnusedVotesDistributor',
        lambda: vcore.UnusedVotesDistributor([vprop.QuotaDistributor('hare'), HA()]),
        lambda rng: call('evaluate', g_simple(rng, frac=False), g_seats(rng, 4),
                         **({'prev_gains': g_gains(rng)} if rng.random() < 0.5 else {})))
    add('UnusedVotesDistributor:depth2',
        lambda: vcore.UnusedVotesDistributor([vcore.ByConstituency(vprop.QuotaDistributor('hare')),
                                              vcore.ByConstituency(HA())], quota_functions=['hare'], depth=2),
        lambda rng: call('evaluate', g_const(rng, lambda r: g_simple(r, frac=False)), D([(d, rng.randint(1, 3)) for d in DN]),
                         **({'prev_gains': g_nested_gains(rng)} if rng.random() < 0.6 else {})))
    add('AdjustedSeatCount', lambda: vcore.AdjustedSeatCount(vcore.AllowOverhang(HA()), HA()),
        lambda rng: call('evaluate', g_simple(rng, frac=False), rng.randint(2, 6), prev_gains=g_gains(rng, hi=3),
                         **({'max_seats': g_caps(rng)} if rng.random() < 0.2 else {})))
    add('AdjustedSeatCount:level', lambda: vcore.AdjustedSeatCount(vcore.LevelOverhang(HA()), HA()),
        lambda rng: call('evaluate', g_simple(rng, frac=False), rng.randint(2, 6), prev_gains=g_gains(rng, hi=3)))
    add('AllowOverhang', lambda: vcore.AllowOverhang(HA()), c_calc)
    add('LevelOverhang', lambda: vcore.LevelOverhang(HA()), lambda rng: c_calc(rng, caps=False))
    add('LevelOverhangByConstituency', lambda: vcore.LevelOverhangByConstituency(vcore.ByConstituency(HA()), HA()),
        _c_calc_const)
    add('SeatCountCalculator', lambda: vcore.SeatCountCalculator(), c_calc)
    add('PostConverted', lambda: vcore.PostConverted(vcore.Plurality(), vconv.SelectionToDistribution()), c_eval_simple_sel)
    add('PreConverted', lambda: vcore.PreConverted(vconv.RankedToFirstPreference(), vcore.Plurality()), c_eval_ranked_noshared)
    add('PreConverted:borda', lambda: vcore.PreConverted(vconv.RankedToPositionalVotes(vrs.Borda()), vcore.Plurality()),
        c_eval_ranked_n, state_ok=('converter.rank_scorer',))
    add('Conditioned', lambda: vcore.Conditioned(vthr.RelativeThreshold(Fraction(1, 10)), HA()), c_eval_simple_dist)
    add('Conditioned:prevgain',
        lambda: vcore.Conditioned(vthr.AlternativeThresholds([vthr.RelativeThreshold(Fraction(1, 5)),
                                                              vthr.PreviousGainThreshold(vthr.AbsoluteThreshold(1))]), HA()),
        c_eval_simple_dist)
    add('Conditioned:depth2',
        lambda: vcore.Conditioned(vthr.RelativeThreshold(Fraction(1, 10)), vcore.ByConstituency(HA()), depth=2),
        c_eval_const_dist)
    add('ByConstituency', lambda: vcore.ByConstituency(HA()), c_eval_const_dist_dictseats)
    add('ByConstituency:apportioned', lambda: vcore.ByConstituency(HA(), apportioner=vprop.LargestRemainder('hare'),
                                                                  preselector=vthr.RelativeThreshold(Fraction(1, 20))),
        c_eval_const_dist)
    add('ByConstituency:selector', lambda: vcore.ByConstituency(vcore.Plurality(), apportioner=1),
        lambda rng: call('evaluate', g_const(rng, lambda r: g_simple(r, frac=False))))
    add('ByParty', lambda: vcore.ByParty(HA()), lambda rng: call('evaluate', g_const(rng, lambda r: g_simple(r, frac=False)), g_seats(rng, 4),
                                                                 **kw_prev_max(rng, {}, nested=True, p=0.3)))
    add('ByParty:alloc', lambda: vcore.ByParty(HA(), vprop.LargestRemainder('hare')),
        lambda rng: call('evaluate', g_const(rng, lambda r: g_simple(r, frac=False)), g_seats(rng, 4)))
    add('PreApportioned', lambda: vcore.PreApportioned(vcore.ByConstituency(HA()), vprop.LargestRemainder('hare')),
        c_eval_const_dist)
    add('PreApportioned:int', lambda: vcore.PreApportioned(vcore.ByConstituency(HA()), 2),
        lambda rng: call('evaluate', g_const(rng, lambda r: g_simple(r, frac=False)), **kw_prev_max(rng, {}, nested=True)))
    add('RemovedApportionment', lambda: vcore.RemovedApportionment(vcore.ByConstituency(HA(), apportioner=2)),
        lambda rng: call('evaluate', g_const(rng, lambda r: g_simple(r, frac=False)),
                         rng.choice([None, D([(d, 1) for d in DN]), 2]), **kw_prev_max(rng, {}, nested=True)))
    add('FixedSeatCount', lambda: vcore.FixedSeatCount(vcore.Plurality(), 2), c_eval_simple_seatless)
    add('FixedSeatCount:dist', lambda: vcore.FixedSeatCount(HA(), 3), c_eval_simple_seatless_dist)
    add('TieBreaking', lambda: vcore.TieBreaking(vcore.Plurality(), vaux.InputOrderSelector()), c_eval_simple_sel)
    add('TieBreaking:sortitor', lambda: vcore.TieBreaking(vcore.Plurality(), vaux.Sortitor(seed=11)), c_eval_simple_sel, seed=11)
    add('TieBreaking:ballots', lambda: vcore.TieBreaking(vcore.Plurality(), vaux.RandomUnrankedBallotSelector(seed=13)),
        c_eval_simple_sel, seed=13)
    add('PartyListEvaluator', lambda: vcore.PartyListEvaluator(HA()), _c_partylist_closed)
    add('PartyListEvaluator:open', lambda: vcore.PartyListEvaluator(HA(), vopen.ThresholdOpenList(jump_fraction=Fraction(1, 10))),
        _c_partylist_open)
    add('UnknownEvaluator', lambda: vcore.UnknownEvaluator(), c_eval_simple_sel)
    # --- thresholds / open lists
    add('AbsoluteThreshold', lambda: vthr.AbsoluteThreshold(3), c_eval_simple_seatless)
    add('RelativeThreshold', lambda: vthr.RelativeThreshold(Fraction(1, 5)), c_eval_simple_seatless)
    add('AlternativeThresholds',
        lambda: vthr.AlternativeThresholds([vthr.AbsoluteThreshold(4), vthr.PreviousGainThreshold(vthr.AbsoluteThreshold(1))]),
        lambda rng: call('evaluate', g_simple(rng), **({'prev_gains': g_gains(rng)} if rng.random() < 0.5 else {})))
    add('PreviousGainThreshold', lambda: vthr.PreviousGainThreshold(vthr.AbsoluteThreshold(1)),
        lambda rng: call('evaluate', g_simple(rng), g_gains(rng)))
    add('PropertyBracketer', lambda: vthr.PropertyBracketer('minority', {True: None}, default=vthr.AbsoluteThreshold(3)),
        lambda rng: call('evaluate', _g_party_votes(rng, props=True)))
    add('CoalitionMemberBracketer',
        lambda: vthr.CoalitionMemberBracketer({1: vthr.RelativeThreshold(Fraction(1, 10)), 2: vthr.RelativeThreshold(Fraction(1, 5))},
                                              vthr.RelativeThreshold(Fraction(3, 10))),
        lambda rng: call('evaluate', _g_party_votes(rng, coal=True)))
    add('ThresholdOpenList', lambda: vopen.ThresholdOpenList(jump_fraction=Fraction(1, 10)), _c_openlist)
    add('ThresholdOpenList:quota', lambda: vopen.ThresholdOpenList(quota_function='hare', quota_fraction=Fraction(1, 4), accept_equal=True),
        _c_openlist)
    add('ListOrderTieBreaker', lambda: vopen.ListOrderTieBreaker(vcore.Plurality()), _c_openlist)
    # --- approval / cardinal
    add('ProportionalApproval', lambda: vapp.ProportionalApproval(), c_eval_approval_n, model='pav')
    add('SequentialProportionalApproval', lambda: vapp.SequentialProportionalApproval(), c_eval_approval_n)
    add('QuotaSelector', lambda: vapp.QuotaSelector(), c_eval_simple_n)
    add('QuotaSelector:select', lambda: vapp.QuotaSelector('hare', on_more_over_quota='select'), c_eval_simple_n)
    add('ScoreVoting', lambda: vcard.ScoreVoting(), c_eval_score_n)
    add('ScoreVoting:sum', lambda: vcard.ScoreVoting('sum', unscored_value=0), c_eval_score_n)
    add('MajorityJudgment', lambda: vcard.MajorityJudgment(), c_eval_score_n)
    add('MajorityJudgment:plus', lambda: vcard.MajorityJudgment(tie_breaking='plus'), c_eval_score_n)
    add('STAR', lambda: vcard.STAR(), c_eval_score_n)
    add('STAR:rp', lambda: vcard.STAR(runoff_evaluator='rankedpairs_winvotes'), c_eval_score_n)
    add('AllocatedScoreDistributor', lambda: vcard.AllocatedScoreDistributor(), c_eval_score_dist)
    add('AllocatedScoreSelector', lambda: vcard.AllocatedScoreSelector(), c_eval_score_n)
    # --- condorcet
    for nm, mk in [('CondorcetWinner', vcond.CondorcetWinner), ('SmithSet', vcond.SmithSet), ('SchwartzSet', vcond.SchwartzSet)]:
        add(nm, mk, c_eval_condorcet)
    for nm, mk in [('Copeland', vcond.Copeland), ('Copeland:first', lambda: vcond.Copeland(second_order=False)),
                   ('KemenyYoung', vcond.KemenyYoung), ('MinimaxCondorcet', vcond.MinimaxCondorcet),
                   ('MinimaxCondorcet:margins', lambda: vcond.MinimaxCondorcet('margins')),
                   ('RankedPairs', vcond.RankedPairs), ('RankedPairs:margins', lambda: vcond.RankedPairs('margins')),
                   ('Schulze', vcond.Schulze)]:
        add(nm, mk, c_eval_condorcet_n)
    # --- sequential
    add('TransferableVoteSelector', lambda: vseq.TransferableVoteSelector(), c_eval_ranked_n)
    add('TransferableVoteSelector:irv', lambda: vseq.TransferableVoteSelector(quota_function=None), c_eval_ranked_1)
    add('TransferableVoteSelector:hare', lambda: vseq.TransferableVoteSelector(transferer=vtrans.Hare(seed=5), quota_function='droop'),
        lambda rng: c_eval_ranked_n(rng, shared=rng.random() < 0.5), seed=5)
    add('TransferableVoteSelector:hare_unseeded', lambda: vseq.TransferableVoteSelector(transferer='Hare'),
        c_eval_ranked_noshared, random=True)
    add('TransferableVoteDistributor', lambda: vseq.TransferableVoteDistributor(), c_eval_ranked_dist)
    add('TransferableVoteDistributor:hare', lambda: vseq.TransferableVoteDistributor(transferer=vtrans.Hare(seed=3)),
        c_eval_ranked_dist, seed=3)
    add('TransferableVoteSelector.nth_count', lambda: vseq.TransferableVoteSelector(),
        lambda rng: call('nth_count', g_ranked(rng, shared=False), g_seats(rng, 2), rng.randint(1, 3)))
    add('TransferableVoteSelector.next_count', lambda: vseq.TransferableVoteSelector(), _c_next_count)
    add('TransferableVoteDistributor.next_count', lambda: vseq.TransferableVoteDistributor(),
        lambda rng, carried=None: _c_next_count(rng, dist=True, carried=carried), carried=True)
    add('TransferableVoteDistributor:hare.next_count', lambda: vseq.TransferableVoteDistributor(transferer=vtrans.Hare(seed=3)),
        lambda rng, carried=None: _c_next_count(rng, dist=True, carried=carried), seed=3, carried=True)
    add('PreferenceAddition', lambda: vseq.PreferenceAddition(), c_eval_ranked_n)
    add('PreferenceAddition:oklahoma', lambda: vseq.PreferenceAddition(lambda i: Fraction(1, i + 1)), c_eval_ranked_n)
    add('TidemanAlternative', lambda: vseq.TidemanAlternative(), c_eval_ranked_1)
    add('TidemanAlternative:schwartz', lambda: vseq.TidemanAlternative(vcond.SchwartzSet()), c_eval_ranked_1)
    add('Benham', lambda: vseq.Benham(), c_eval_ranked_1)
    add('Baldwin', lambda: vseq.Baldwin(), c_eval_ranked_noshared, state_ok=('converter.rank_scorer',))
    # --- auxiliary
    add('InputOrderSelector', lambda: vaux.InputOrderSelector(), c_eval_simple_sel)
    add('CandidateNumberRanker', lambda: vaux.CandidateNumberRanker(),
        lambda rng: call('evaluate', _g_person_votes(rng), g_seats(rng, 2)))
    add('RFC3797Selector', lambda: vaux.RFC3797Selector([5, [3, 1, 2], 77]), c_eval_simple_sel)
    add('Sortitor', lambda: vaux.Sortitor(seed=7), c_eval_simple_sel, seed=7)
    add('Sortitor:seed8', lambda: vaux.Sortitor(seed=8), c_eval_simple_sel, seed=8)
    add('Sortitor:unseeded', lambda: vaux.Sortitor(), c_eval_simple_sel, random=True)
    add('RandomUnrankedBallotSelector', lambda: vaux.RandomUnrankedBallotSelector(seed=7), c_eval_simple_sel, seed=7)
    add('RandomUnrankedBallotSelector:unseeded', lambda: vaux.RandomUnrankedBallotSelector(), c_eval_simple_sel, random=True)
    # --- transferers
    add('Gregory', lambda: vtrans.Gregory(), _c_transfer, carried=True)
    add('Hare', lambda: vtrans.Hare(seed=9), _c_transfer, seed=9, carried=True)
    add('Hare:unseeded', lambda: vtrans.Hare(), _c_transfer, random=True)
    add('Gregory.subtract', lambda: vtrans.Gregory(), _c_subtract, carried=True)
    add('Hare.subtract', lambda: vtrans.Hare(seed=9), _c_subtract, seed=9, carried=True)
    # the counting protocol driven by the caller, count by count: every next_count gets the allocation the previous one returned
    add('stepped:TransferableVoteDistributor', lambda: _Stepper(vseq.TransferableVoteDistributor()), _c_stepped, carried=True,
        cls=vseq.TransferableVoteDistributor)
    add('stepped:TransferableVoteDistributor:hare', lambda: _Stepper(vseq.TransferableVoteDistributor(transferer=vtrans.Hare(seed=3))),
        _c_stepped, seed=3, carried=True, cls=vseq.TransferableVoteDistributor)
    add('stepped:TransferableVoteDistributor:default_transferer', lambda: _Stepper(vseq.TransferableVoteDistributor(vtrans.Gregory())),
        _c_stepped, shared=lambda: _Stepper(vseq.TransferableVoteDistributor()), carried=True, cls=vseq.TransferableVoteDistributor)
    add('TransferableVoteDistributor.nth_count', lambda: vseq.TransferableVoteDistributor(),
        lambda rng: call('nth_count', _g_truncated(rng), g_seats(rng, 2), rng.randint(2, 4), **kw_prev_max(rng, {}, p=0.2)))
    # --- converters
    add('ApprovalToSimpleVotes', lambda: vconv.ApprovalToSimpleVotes(), c_conv(g_approval))
    add('ApprovalToSimpleVotes:split', lambda: vconv.ApprovalToSimpleVotes(split=True), c_conv(g_approval))
    add('ScoreToSimpleVotes', lambda: vconv.ScoreToSimpleVotes(), c_conv(g_score))
    add('ScoreToSimpleVotes:median', lambda: vconv.ScoreToSimpleVotes('median', unscored_value=0), c_conv(g_score))
    add('RankedToFirstPreference', lambda: vconv.RankedToFirstPreference(), c_conv(lambda r: g_ranked(r, shared=False)))
    add('RankedToFirstNPreferences', lambda: vconv.RankedToFirstNPreferences(2), c_conv(lambda r: g_ranked(r, shared=False)))
    add('RankedToPresenceCounts', lambda: vconv.RankedToPresenceCounts(), c_conv(g_ranked))
    add('RankedToApprovalVotes', lambda: vconv.RankedToApprovalVotes(), c_conv(g_ranked))
    add('RankedToPositionalVotes', lambda: vconv.RankedToPositionalVotes(vrs.Borda()), c_conv(g_ranked), model='borda',
        base=1)
    add('RankedToPositionalVotes:base0', lambda: vconv.RankedToPositionalVotes(vrs.Borda(base=0)), c_conv(g_ranked), model='borda',
        base=0)
    add('RankedToPositionalVotes:dowdall', lambda: vconv.RankedToPositionalVotes(vrs.Dowdall()), c_conv(g_ranked))
    add('RankedToPositionalVotes:modborda', lambda: vconv.RankedToPositionalVotes(vrs.ModifiedBorda()), c_conv(g_ranked))
    add('RankedToPositionalVotes:geometric', lambda: vconv.RankedToPositionalVotes(vrs.Geometric()), c_conv(g_ranked))
    add('RankedToPositionalVotes:fixedtop', lambda: vconv.RankedToPositionalVotes(vrs.FixedTop(3)), c_conv(g_ranked))
    add('RankedToPositionalVotes:seq', lambda: vconv.RankedToPositionalVotes(vrs.SequenceBased([5, 3, 1])), c_conv(g_ranked))
    add('RankedToCondorcetVotes', lambda: vconv.RankedToCondorcetVotes(), c_conv(g_ranked))
    add('RankedToCondorcetVotes:nobottom', lambda: vconv.RankedToCondorcetVotes(unranked_at_bottom=False), c_conv(g_ranked))
    add('ScoreToRankedVotes', lambda: vconv.ScoreToRankedVotes(), c_conv(g_score))
    add('ScoreToRankedVotes:unscored', lambda: vconv.ScoreToRankedVotes(unscored_value=0), c_conv(g_score))
    add('ScoreToApprovalVotesThreshold', lambda: vconv.ScoreToApprovalVotesThreshold(2), c_conv(g_score))
    add('InvertedSimpleVotes', lambda: vconv.InvertedSimpleVotes, c_conv(g_simple), cls=vconv.InvertedSimpleVotes, static=True)
    add('InvertedApprovalVotes', lambda: vconv.InvertedApprovalVotes, c_conv(g_approval), cls=vconv.InvertedApprovalVotes, static=True)
    add('IndividualToPartyVotes', lambda: vconv.IndividualToPartyVotes(), c_conv(_g_person_votes))
    add('IndividualToPartyVotes:keep', lambda: vconv.IndividualToPartyVotes(vcand.IndividualToPartyMapper(independents='keep')),
        c_conv(_g_person_votes))
    add('IndividualToPartyResult', lambda: vconv.IndividualToPartyResult(), c_conv(_g_person_selection))
    add('GroupVotesByParty', lambda: vconv.GroupVotesByParty(), c_conv(_g_person_votes))
    add('SelectionToDistribution', lambda: vconv.SelectionToDistribution(), c_conv(g_selection))
    add('MergedSelections', lambda: vconv.MergedSelections(),
        c_conv(lambda r: D([(d, g_selection(r)) for d in DN[:r.randint(1, 3)]]) if r.random() < 0.5
               else L([g_selection(r) for _ in range(r.randint(1, 3))])))
    add('MergedDistributions', lambda: vconv.MergedDistributions(),
        c_conv(lambda r: D([(d, g_gains(r)) for d in DN[:r.randint(1, 3)]]) if r.random() < 0.5
               else L([g_gains(r) for _ in range(r.randint(1, 3))])))
    add('VoteTotals', lambda: vconv.VoteTotals(), c_conv(lambda r: g_const(r, g_simple)))
    add('ConstituencyTotals', lambda: vconv.ConstituencyTotals(), c_conv(lambda r: g_const(r, g_simple)))
    add('PartyTotals', lambda: vconv.PartyTotals(), c_conv(lambda r: g_const(r, g_simple)))
    add('convert.ByConstituency', lambda: vconv.ByConstituency(vconv.RankedToFirstPreference()),
        c_conv(lambda r: g_const(r, lambda q: g_ranked(q, shared=False))))
    add('convert.ByConstituency:borda', lambda: vconv.ByConstituency(vconv.RankedToPositionalVotes(vrs.Borda())),
        c_conv(lambda r: g_const(r, g_ranked)), state_ok=('converter.rank_scorer',))
    add('InvalidVoteEliminator', lambda: vconv.InvalidVoteEliminator(vvote.RankedVoteValidator()),
        c_conv(lambda r: g_ranked(r)), state_ok=('validator.rank_vote_count_checkers',))
    add('InvalidVoteEliminator:approval', lambda: vconv.InvalidVoteEliminator(vvote.ApprovalVoteValidator((1, 2))),
        c_conv(g_approval))
    add('RoundedVotes', lambda: vconv.RoundedVotes(0), c_conv(lambda r: g_simple(r)))
    add('SubsettedVotes', lambda: vconv.SubsettedVotes(), lambda rng: call('convert', g_simple(rng), g_selection(rng)))
    add('SubsettedVotes:ranked', lambda: vconv.SubsettedVotes(vvote.RankedSubsetter()),
        lambda rng: call('convert', g_ranked(rng), g_selection(rng)))
    add('SubsettedVotes:approval', lambda: vconv.SubsettedVotes(vvote.ApprovalSubsetter()),
        lambda rng: call('convert', g_approval(rng), g_selection(rng)))
    add('SubsettedVotes:score', lambda: vconv.SubsettedVotes(vvote.ScoreSubsetter()),
        lambda rng: call('convert', g_score(rng), g_selection(rng)))
    add('SubsettedVotes:depth1', lambda: vconv.SubsettedVotes(depth=1),
        lambda rng: call('convert', g_const(rng, g_simple), g_selection(rng)))
    add('Chain', lambda: vconv.Chain([vconv.RankedToApprovalVotes(), vconv.ApprovalToSimpleVotes()]), c_conv(g_ranked))
    add('Chain:borda', lambda: vconv.Chain([vconv.RankedToPositionalVotes(vrs.Borda()), vconv.InvertedSimpleVotes()]),
        c_conv(lambda r: g_ranked(r, shared=False)), state_ok=('converters.0.rank_scorer',))
    # --- subsetters, validators, nominators
    add('SimpleSubsetter', lambda: vvote.SimpleSubsetter(), lambda rng: call('subset', rng.choice(CN), g_selection(rng)))
    add('RankedSubsetter', lambda: vvote.RankedSubsetter(), lambda rng: call('subset', g_ranking(rng, CN[:4]), g_selection(rng)))
    add('ApprovalSubsetter', lambda: vvote.ApprovalSubsetter(), lambda rng: call('subset', S(rng.sample(CN, 3)), g_selection(rng)))
    add('ScoreSubsetter', lambda: vvote.ScoreSubsetter(),
        lambda rng: call('subset', S([T([c, rng.randint(0, 5)]) for c in rng.sample(CN, 3)]), g_selection(rng)))
    add('SimpleVoteValidator', lambda: vvote.SimpleVoteValidator(), lambda rng: call('validate', rng.choice(CN + [S(['c0'])])))
    add('ApprovalVoteValidator', lambda: vvote.ApprovalVoteValidator((1, 2)),
        lambda rng: call('validate', S(rng.sample(CN, rng.randint(0, 3)))))
    add('RankedVoteValidator', lambda: vvote.RankedVoteValidator((1, 3)), lambda rng: call('validate', g_ranking(rng, CN[:4])),
        model='rankval', cfg={'total': [1, 3], 'explicit': [], 'dflt': [1, 1]})
    add('RankedVoteValidator:perrank', lambda: vvote.RankedVoteValidator(rank_vote_count_bounds={0: (1, 1), 1: (1, 2), 3: (2, 2)}),
        lambda rng: call('validate', g_ranking(rng, CN[:4])),
        model='rankval', cfg={'total': [None, None], 'explicit': [[0, [1, 1]], [1, [1, 2]], [3, [2, 2]]], 'dflt': [None, None]})
    add('RankedVoteValidator:checkers',
        lambda: vvote.RankedVoteValidator(rank_vote_count_checkers={1: vvote.VoteMagnitudeChecker((1, 1)),
                                                                    3: vvote.VoteMagnitudeChecker((1, 2))}),
        lambda rng: call('validate', g_ranking(rng, CN[:4])),
        model='rankval', cfg={'total': [None, None], 'explicit': [[1, [1, 1]], [3, [1, 2]]], 'dflt': [None, None]})
    add('ScoreVoteValidator:checkers',
        lambda: vvote.ScoreVoteValidator(sum_checkers={2: vvote.VoteMagnitudeChecker((1, 5), 'sum')}), _c_validate_score,
        model='scoreval', cfg={'nscorings': [None, None], 'explicit': [[2, [1, 5]]], 'dflt': [None, None],
                               'post': {'kind': 'none'}})
    add('ScoreVoteValidator', lambda: vvote.ScoreVoteValidator((1, 3), (0, 9)), _c_validate_score,
        model='scoreval', cfg={'nscorings': [1, 3], 'explicit': [], 'dflt': [0, 9], 'post': {'kind': 'none'}})
    add('ScoreVoteValidator:persize', lambda: vvote.ScoreVoteValidator((None, None), {1: (0, 3), 2: (2, 6)}), _c_validate_score,
        model='scoreval', cfg={'nscorings': [None, None], 'explicit': [[1, [0, 3]], [2, [2, 6]]], 'dflt': [None, None],
                               'post': {'kind': 'none'}})
    add('RangeVoteValidator', lambda: vvote.RangeVoteValidator((0, 4), (1, 3)), _c_validate_score,
        model='scoreval', cfg={'nscorings': [1, 3], 'explicit': [], 'dflt': [None, None],
                               'post': {'kind': 'range', 'bounds': [0, 4]}})
    add('EnumScoreVoteValidator', lambda: vvote.EnumScoreVoteValidator([0, 1, 2, 3]), _c_validate_score,
        model='scoreval', cfg={'nscorings': [None, None], 'explicit': [], 'dflt': [None, None],
                               'post': {'kind': 'enum', 'levels': [0, 1, 2, 3]}})
    add('BasicNominator', lambda: vcand.BasicNominator(), _c_nominate)
    add('PartyNominator', lambda: vcand.PartyNominator(), _c_nominate)
    add('PersonNominator', lambda: vcand.PersonNominator(), _c_nominate)
    # --- transferable vote distributor called DIRECTLY: quota None / name / callable / constant, retainer, elimination step
    for qn, q in [('noquota', None), ('droopname', 'droop'), ('harecallable', vquota_mod().hare), ('constant', vquota_mod().constant(3))]:
        add('TransferableVoteDistributor:' + qn, (lambda q=q: vseq.TransferableVoteDistributor(quota_function=q)),
            (lambda rng, qn=qn: _c_stv_dist(rng, qn)), stv_grid=qn)
    add('TransferableVoteDistributor:noquota_hare', lambda: vseq.TransferableVoteDistributor(transferer=vtrans.Hare(seed=4), quota_function=None),
        (lambda rng: _c_stv_dist(rng, 'noquota')), stv_grid='noquota', seed=4)
    add('TransferableVoteDistributor:retainer',
        lambda: vseq.TransferableVoteDistributor(retainer=vcore.TieBreaking(vcore.Plurality(), vaux.InputOrderSelector()),
                                                 accept_quota_equal=False),
        (lambda rng: _c_stv_dist(rng, 'droopname')))
    add('TransferableVoteDistributor:step_none', lambda: vseq.TransferableVoteDistributor(eliminate_step=None, mandatory_quota=True),
        (lambda rng: _c_stv_dist(rng, 'droopname')))
    add('TransferableVoteDistributor:step2', lambda: vseq.TransferableVoteDistributor(eliminate_step=-2, quota_function=None),
        (lambda rng: _c_stv_dist(rng, 'noquota')), stv_grid='noquota')
    # --- nesting depth 3 and 4: two / three constituency levels, prev_gains / max_seats nested to that depth
    def byc(leaf, levels):
        e = leaf
        for _ in range(levels):
            e = vcore.ByConstituency(e)
        return e
    for depth in (3, 4):
        add(f'MultistageDistributor:depth{depth}',
            (lambda d=depth: vcore.MultistageDistributor([byc(HA(), d - 1), byc(HA('sainte_lague'), d - 1)], depth=d)),
            (lambda rng, d=depth: _c_nested_dist(rng, d)), nested_depth=depth)
        add(f'ByConstituency:levels{depth - 1}', (lambda d=depth: byc(HA(), d - 1)),
            (lambda rng, d=depth: _c_nested_dist(rng, d)), nested_depth=depth)
        add(f'Conditioned:depth{depth}',
            (lambda d=depth: vcore.Conditioned(vthr.RelativeThreshold(Fraction(1, 20)), byc(HA(), d - 1), depth=d)),
            (lambda rng, d=depth: _c_nested_dist(rng, d)), nested_depth=depth)
        add(f'UnusedVotesDistributor:depth{depth}',
            (lambda d=depth: vcore.UnusedVotesDistributor([byc(vprop.QuotaDistributor('hare'), d - 1), byc(HA(), d - 1)],
                                                          quota_functions=['hare'], depth=d)),
            (lambda rng, d=depth: _c_nested_dist(rng, d, seats_nested=True, caps=False)), nested_depth=depth)
        add(f'SubsettedVotes:depth{depth - 1}', (lambda d=depth: vconv.SubsettedVotes(depth=d - 1)),
            (lambda rng, d=depth: call('convert', _g_nested(rng, d - 1, lambda r: g_simple(r, frac=False)), g_selection(rng))),
            nested_depth=depth)
        add(f'convert.ByConstituency:totals_levels{depth - 2}',
            (lambda d=depth: (lambda c: [c := vconv.ByConstituency(c) for _ in range(d - 2)][-1])(vconv.VoteTotals())),
            (lambda rng, d=depth: call('convert', _g_nested(rng, d - 1, lambda r: g_simple(r, frac=False)))), nested_depth=depth)
        add(f'convert.ByConstituency:ctotals_levels{depth - 2}',
            (lambda d=depth: (lambda c: [c := vconv.ByConstituency(c) for _ in range(d - 2)][-1])(vconv.ConstituencyTotals())),
            (lambda rng, d=depth: call('convert', _g_nested(rng, d - 1, lambda r: g_simple(r, frac=False)))), nested_depth=depth)
    # --- InvalidVoteEliminator: every validator class x nominator kinds; ballots rejected for a CANDIDATE (CandidateError: a
    # blank option under allow_blank=False, a party under PersonNominator, an independent, a person under PartyNominator) and
    # for their FORM (VoteError), in every order in the votes dict
    noms = [('basic_noblank', lambda: vcand.BasicNominator(allow_blank=False)), ('person', lambda: vcand.PersonNominator()),
            ('person_noindep', lambda: vcand.PersonNominator(allow_independents=False, allow_blank=False)),
            ('party_nocoal', lambda: vcand.PartyNominator(allow_coalitions=False)), ('basic', lambda: vcand.BasicNominator())]
    vals = [('simple', lambda nom: vvote.SimpleVoteValidator(nominator=nom), 'simple'),
            ('approval', lambda nom: vvote.ApprovalVoteValidator((1, 2), nominator=nom), 'approval'),
            ('ranked', lambda nom: vvote.RankedVoteValidator((1, 3), nominator=nom), 'ranked'),
            ('score', lambda nom: vvote.ScoreVoteValidator((1, 3), (0, 9), nominator=nom), 'score'),
            ('range', lambda nom: vvote.RangeVoteValidator((0, 4), (1, 3), nominator=nom), 'score'),
            ('enum', lambda nom: vvote.EnumScoreVoteValidator([0, 1, 2, 3], nominator=nom), 'score')]
    for vn, mkv, vt in vals:
        for nn, mkn in noms:
            add(f'InvalidVoteEliminator:{vn}:{nn}', (lambda mkv=mkv, mkn=mkn: vconv.InvalidVoteEliminator(mkv(mkn()))),
                (lambda rng, vt=vt: call('convert', _g_mixed_votes(rng, vt))), objects=True, eliminator=True,
                state_ok=('validator.rank_vote_count_checkers', 'validator.sum_checkers'))
    add('Chain:eliminator',
        lambda: vconv.Chain([vconv.InvalidVoteEliminator(vvote.ApprovalVoteValidator((1, 2), nominator=vcand.BasicNominator(allow_blank=False))),
                             vconv.ApprovalToSimpleVotes()]),
        lambda rng: call('convert', _g_mixed_votes(rng, 'approval')), objects=True, eliminator=True)
    add('convert.ByConstituency:eliminator',
        lambda: vconv.ByConstituency(vconv.InvalidVoteEliminator(vvote.SimpleVoteValidator(nominator=vcand.PersonNominator()))),
        lambda rng: call('convert', D([(d, _g_mixed_votes(rng, 'simple')) for d in DN[:rng.randint(1, 3)]])), objects=True, eliminator=True)
    add('PreConverted:eliminator',
        lambda: vcore.PreConverted(vconv.InvalidVoteEliminator(vvote.SimpleVoteValidator(nominator=vcand.BasicNominator(allow_blank=False))),
                                   vcore.Plurality()),
        lambda rng: call('evaluate', _g_mixed_votes(rng, 'simple'), g_seats(rng, 2)), objects=True, eliminator=True)
    # --- score family x constructor parameters (min_count > 0, bottom_value, truncation, unscored_value, tie-breaking)
    for nm, mk, bottom, mc in [
            ('MajorityJudgment:min3', lambda: vcard.MajorityJudgment(min_count=3), 0, 3),
            ('MajorityJudgment:min2_plus', lambda: vcard.MajorityJudgment(tie_breaking='plus', min_count=2), 0, 2),
            ('MajorityJudgment:min3_bottom1', lambda: vcard.MajorityJudgment(min_count=3, bottom_value=1), 1, 3),
            ('MajorityJudgment:min2_unscored0', lambda: vcard.MajorityJudgment(min_count=2, unscored_value=0), 0, 2),
            ('MajorityJudgment:min2_trunc', lambda: vcard.MajorityJudgment(min_count=2, truncation=Fraction(1, 5)), 0, 2),
            ('ScoreVoting:min3', lambda: vcard.ScoreVoting(min_count=3), 0, 3),
            ('ScoreVoting:median_min2_bottom1', lambda: vcard.ScoreVoting('median', min_count=2, bottom_value=1), 1, 2),
            ('ScoreVoting:min2_trunc', lambda: vcard.ScoreVoting(min_count=2, truncation=Fraction(1, 4)), 0, 2),
            ('STAR:min3', lambda: vcard.STAR(min_count=3), 0, 3),
            ('STAR:min2_bottom1_unscored0', lambda: vcard.STAR(min_count=2, bottom_value=1, unscored_value=0), 1, 2)]:
        add(nm, mk, (lambda rng, b=bottom, m=mc: _c_score_underscored(rng, m, b)), score_grid=True)
    add('ScoreToSimpleVotes:min3', lambda: vconv.ScoreToSimpleVotes(min_count=3),
        lambda rng: call('convert', _g_score_underscored(rng, 3, 0)), score_grid=True)
    add('ScoreToSimpleVotes:median_min2', lambda: vconv.ScoreToSimpleVotes('median', min_count=2, bottom_value=1),
        lambda rng: call('convert', _g_score_underscored(rng, 2, 1)), score_grid=True)
    # --- constructor values that select another code path and had no target
    # (AllocatedScoreDistributor(quota_function=None) is annotated Optional but cannot be constructed: KeyError 'unknown quota: None')
    add('ByConstituency:dict_apportioner', lambda: vcore.ByConstituency(HA(), apportioner={'d0': 2, 'd1': 1, 'd2': 3, 'c0': 1, 'c1': 2, 'c2': 1}),
        lambda rng: call('evaluate', g_const(rng, lambda r: g_simple(r, frac=False)), **kw_prev_max(rng, {}, nested=True)))
    add('PreApportioned:dict', lambda: vcore.PreApportioned(vcore.ByConstituency(HA()), {'d0': 2, 'd1': 1, 'd2': 3, 'c0': 1, 'c1': 2, 'c2': 1}),
        lambda rng: call('evaluate', g_const(rng, lambda r: g_simple(r, frac=False)), **kw_prev_max(rng, {}, nested=True)))
    add('BiproportionalEvaluator:dict_apportioner',
        lambda: vprop.BiproportionalEvaluator('d_hondt', apportioner={'d0': 2, 'd1': 2, 'd2': 1}),
        lambda rng: call('evaluate', _g_biprop(rng), rng.randint(3, 6)))
    add('LevelOverhangByConstituency:no_overall', lambda: vcore.LevelOverhangByConstituency(vcore.ByConstituency(HA())), _c_calc_const)
    add('PartyListEvaluator:converter',
        lambda: vcore.PartyListEvaluator(HA(), vopen.ThresholdOpenList(jump_fraction=Fraction(1, 10)), vconv.Chain([])),
        _c_partylist_open)
    add('PropertyBracketer:no_default', lambda: vthr.PropertyBracketer('minority', {True: vthr.AbsoluteThreshold(2)}),
        lambda rng: call('evaluate', _g_party_votes(rng, props=True)))
    add('Baldwin:dowdall', lambda: vseq.Baldwin(vconv.RankedToPositionalVotes(vrs.Dowdall())), c_eval_ranked_noshared)
    add('UnusedVotesDistributor:given_quotas', lambda: vcore.UnusedVotesDistributor([vprop.QuotaDistributor('hare'), HA('sainte_lague')], quota_functions=['droop']),
        lambda rng: call('evaluate', g_simple(rng, frac=False), g_seats(rng, 4)))
    add('RangeVoteValidator:checkers',
        lambda: vvote.RangeVoteValidator(range_checker=vvote.VoteMagnitudeChecker((0, 3), 'range vote value'),
                                         n_scorings_checker=vvote.VoteMagnitudeChecker((1, 2))), _c_validate_score,
        model='scoreval', cfg={'nscorings': [1, 2], 'explicit': [], 'dflt': [None, None], 'post': {'kind': 'range', 'bounds': [0, 3]}})
    add('ApprovalVoteValidator:checker', lambda: vvote.ApprovalVoteValidator(count_checker=vvote.VoteMagnitudeChecker((2, 3))),
        lambda rng: call('validate', S(rng.sample(CN, rng.randint(0, 4)))))
    # --- rank scorers (method `scores`)
    for nm, mk in [('Dowdall', vrs.Dowdall), ('Geometric', lambda: vrs.Geometric(3)), ('ModifiedBorda', vrs.ModifiedBorda),
                   ('FixedTop', lambda: vrs.FixedTop(3)), ('SequenceBased', lambda: vrs.SequenceBased([5, 3, 1]))]:
        add('scorer:' + nm, mk, lambda rng: call('scores', rng.randint(0, 6)))
    # --- module-level functions (a fresh "instance" is the same function: only an isolated reference can expose a cache)
    import votelib.util as vutil
    import votelib.persist as vpers
    import votelib.component.quota as vquota
    import votelib.component.divisor as vdiv
    import votelib.component.pairwin_scorer as vpws

    def fn(name, f, gen):
        add('fn:' + name, (lambda f=f: types.SimpleNamespace(call=f)), gen, cls=types.SimpleNamespace, function=True)
    fn('core.get_n_best', vcore.get_n_best, lambda rng: call('call', g_simple(rng, zero=True), g_seats(rng)))
    fn('core.apportion', lambda v, n: vcore.apportion(v, n, apportioner=vprop.LargestRemainder('hare')),
       lambda rng: call('call', g_const(rng, lambda r: g_simple(r, frac=False)), g_seats(rng, 6)))
    fn('condorcet.pairwise_wins', vcond.pairwise_wins, lambda rng: call('call', g_condorcet(rng)))
    fn('condorcet.beat_counts', vcond.beat_counts, lambda rng: call('call', g_condorcet(rng)))
    fn('util.sorted_votes', vutil.sorted_votes, lambda rng: call('call', g_simple(rng, zero=True)))
    fn('util.descending_dict', vutil.descending_dict, lambda rng: call('call', g_simple(rng, zero=True)))
    fn('util.sum_dicts', vutil.sum_dicts, lambda rng: call('call', g_simple(rng), g_simple(rng)))
    fn('util.all_ranked_candidates', vutil.all_ranked_candidates, lambda rng: call('call', g_ranked(rng)))
    fn('util.distribution_to_selection', vutil.distribution_to_selection, lambda rng: call('call', g_simple(rng)))
    fn('util.exact_mean', vutil.exact_mean, lambda rng: call('call', L([g_count(rng) for _ in range(rng.randint(1, 4))])))
    fn('sequential.initial_allocation', vseq.initial_allocation, lambda rng: call('call', g_ranked(rng)))
    fn('sequential.eliminate_one', vseq.eliminate_one, lambda rng: call('call', g_ranked(rng, shared=False)))
    fn('sequential.allocation_totals', vseq.allocation_totals, lambda rng: call('call', _g_allocation(rng)[1]))
    for qn in sorted(vquota.QUOTAS):
        fn('quota.' + qn, (lambda t, n, q=qn: vquota.get(q)(t, n)), lambda rng: call('call', g_count(rng), g_seats(rng, 5)))
    for dn in sorted(vdiv.DIVISORS):
        fn('divisor.' + dn, (lambda k, d=dn: vdiv.get(d)(k)), lambda rng: call('call', rng.randint(0, 6)))
    for pn in sorted(vpws.PAIRWIN_SCORERS):
        fn('pairwin_scorer.' + pn, (lambda c, p=pn: vpws.get(p)(c)), lambda rng: call('call', g_condorcet(rng)))
    fn('rankscore.select_padded', vrs.select_padded, lambda rng: call('call', L([3, 2, 1][:rng.randint(0, 3)]), rng.randint(0, 5)))
    for nm, mk in [('HighestAverages', lambda: HA('sainte_lague')), ('STAR', vcard.STAR),
                   ('TransferableVoteSelector', lambda: vseq.TransferableVoteSelector(transferer='Hare', quota_function='hare')),
                   ('RankedVoteValidator', lambda: vvote.RankedVoteValidator((1, 3)))]:
        fn('persist.roundtrip:' + nm, (lambda mk=mk: vpers.to_dict(vpers.from_dict(vpers.to_dict(mk())))), lambda rng: call('call'))
    # --- every constructor parameter with a non-default value: the sensitivity witnesses of the C19 check (leaf classes)
    try:
        import props.c19_classes as KL
        import props.c19_sensitivity as SE
        by_cls = {}
        for e in list(Tt.values()):
            by_cls.setdefault(e['cls'].__module__ + '.' + e['cls'].__name__, e)
        for w in SE.load().get('found', []):
            base = by_cls.get(w['cls'])
            if base is None or base.get('model') or '"t": "obj"' in json.dumps(w['spec']['args']):
                continue
            nm = f"param:{w['cls'].rsplit('.', 1)[-1]}.{w['param']}"
            if nm in Tt:
                continue
            try:
                add(nm, (lambda sp=w['spec']: KL.build(sp)), base['gen'], param=True,
                    **({'seed': None, 'random': True} if base.get('seed') is not None or base.get('random') else {}))
            except Exception:
                pass
    except Exception:
        pass
    # --- dispatch family: asking wrapper O around a pass-through wrapper W around leaves with different signatures
    for oname, wname, lname in DISPATCH_TARGETS:
        add(f'dispatch:{oname}:{wname}:{lname}',
            (lambda o=oname, w=wname, l=lname: _mk_dispatch(o, w, l)),
            (c_dispatch_const if oname == 'ByConstituency' else c_dispatch_flat),
            model='dispatch', ev=_dispatch_ev(wname, lname))
    # --- module-level singletons (shared object = the module's; fresh = a new instance of the same configuration)
    for key, obj in vcond.EVALUATORS.items():
        pristine = copy.deepcopy(obj)       # taken before any call of this process reaches the singleton
        add(f'singleton:condorcet.EVALUATORS[{key}]', (lambda p=pristine: copy.deepcopy(p)),
            c_eval_condorcet_n if accepts_n(obj) else c_eval_condorcet, shared=(lambda o=obj: o), singleton=True)
    add('singleton:sequential.DEFAULT_TRANSFERER', lambda: vtrans.Gregory(), _c_transfer,
        shared=lambda: vseq.DEFAULT_TRANSFERER, singleton=True, carried=True)
    add('singleton:sequential.DEFAULT_TRANSFERER.subtract', lambda: vtrans.Gregory(), _c_subtract,
        shared=lambda: vseq.DEFAULT_TRANSFERER, singleton=True, carried=True)
    add('singleton:sequential.RANKED_SUBSETTER', lambda: vconv.SubsettedVotes(vvote.RankedSubsetter()),
        lambda rng: call('convert', g_ranked(rng), g_selection(rng)), shared=lambda: vseq.RANKED_SUBSETTER, singleton=True)
    add('singleton:sequential.RANKED_TO_CONDORCET', lambda: vconv.RankedToCondorcetVotes(), c_conv(g_ranked),
        shared=lambda: vseq.RANKED_TO_CONDORCET, singleton=True)
    add('singleton:core.DEFAULT_SUBSETTER', lambda: vvote.SimpleSubsetter(),
        lambda rng: call('subset', rng.choice(CN), g_selection(rng)), shared=lambda: vcore.DEFAULT_SUBSETTER, singleton=True)
    add('singleton:Benham.CONDO', lambda: vcond.CondorcetWinner(), c_eval_condorcet, shared=lambda: vseq.Benham.CONDO, singleton=True)
    add('singleton:vote.DEFAULT_NOMINATOR', lambda: vcand.BasicNominator(), _c_nominate,
        shared=lambda: vvote.DEFAULT_NOMINATOR, singleton=True)
    add('singleton:convert.DEFAULT_MAPPER', lambda: vconv.IndividualToPartyVotes(vcand.IndividualToPartyMapper()),
        c_conv(_g_person_votes), shared=lambda: vconv.IndividualToPartyVotes(), singleton=True)
    add('singleton:TidemanAlternative.default_set_selector', lambda: vcond.SmithSet(), c_eval_condorcet,
        shared=lambda: inspect.signature(vseq.TidemanAlternative.__init__).parameters['set_selector'].default, singleton=True)
    return Tt


# leaves by the keywords their `evaluate` names (0 = prev_gains, 1 = max_seats); class ids are positions in DISPATCH_CLASSES
DISPATCH_LEAVES = {'Plurality': [], 'QuotaSelector': [], 'HighestAverages': [0, 1], 'LargestRemainder': [0, 1],
                   'VotesPerSeat': [0, 1]}
DISPATCH_WRAPPERS = ['TieBreaking', 'PostConverted', 'PreConverted', 'FixedSeatCount', 'none']
DISPATCH_OUTER = ['ByConstituency', 'Conditioned']
DISPATCH_CLASSES = list(DISPATCH_LEAVES) + DISPATCH_WRAPPERS
DISPATCH_TARGETS = [(o, w, l) for o in DISPATCH_OUTER for w in DISPATCH_WRAPPERS for l in DISPATCH_LEAVES
                    if not (l == 'VotesPerSeat' and w == 'FixedSeatCount')]


def _dispatch_ev(wname, lname):
    leaf = {'cls': DISPATCH_CLASSES.index(lname), 'takes': DISPATCH_LEAVES[lname]}
    return leaf if wname == 'none' else {'cls': DISPATCH_CLASSES.index(wname), 'inner': leaf}


def _mk_dispatch(oname, wname, lname):
    import votelib.convert as vconv
    import votelib.evaluate.core as vcore
    import votelib.evaluate.proportional as vprop
    import votelib.evaluate.approval as vapp
    import votelib.evaluate.auxiliary as vaux
    import votelib.evaluate.threshold as vthr
    leaf = {'Plurality': vcore.Plurality, 'QuotaSelector': lambda: vapp.QuotaSelector('hare', on_more_over_quota='select'),
            'HighestAverages': vprop.HighestAverages, 'LargestRemainder': lambda: vprop.LargestRemainder('hare'),
            'VotesPerSeat': lambda: vprop.VotesPerSeat(3)}[lname]()
    inner = {'TieBreaking': lambda: vcore.TieBreaking(leaf, vaux.InputOrderSelector()),
             'PostConverted': lambda: vcore.PostConverted(leaf, vconv.Chain([])),
             'PreConverted': lambda: vcore.PreConverted(vconv.Chain([]), leaf),
             'FixedSeatCount': lambda: vcore.FixedSeatCount(leaf, 2),
             'none': lambda: leaf}[wname]()
    if oname == 'ByConstituency':
        return vcore.ByConstituency(inner)
    return vcore.Conditioned(vthr.RelativeThreshold(Fraction(1, 20)), inner)


def c_dispatch_const(rng):
    cs = g_cands(rng, 2, 4)
    v = g_const(rng, lambda r: g_simple(r, cs, frac=False))
    ds = [d for d, _ in v['D']]
    k = {'prev_gains': D([(d, D([(c, rng.randint(1, 2)) for c in rng.sample(cs, rng.randint(1, len(cs)))])) for d in ds])}
    if rng.random() < 0.4:
        k['max_seats'] = D([(d, D([(c, rng.randint(1, 3)) for c in cs])) for d in ds])
    return call('evaluate', v, rng.randint(1, 4), **k)


def c_dispatch_flat(rng):
    cs = g_cands(rng, 2, 4)
    k = {'prev_gains': D([(c, rng.randint(1, 2)) for c in rng.sample(cs, rng.randint(1, len(cs)))])}
    if rng.random() < 0.4:
        k['max_seats'] = D([(c, rng.randint(1, 3)) for c in cs])
    return call('evaluate', g_simple(rng, cs, frac=False), rng.randint(1, 4), **k)


def _g_score_underscored(rng, min_count, bottom):
    """score ballots in which one candidate is scored by fewer than min_count voters (it gets the bottom table) and another
    one has the bottom value as its median: they tie at the median for the last of two seats, so the tie-break runs over the
    bottom table"""
    names = rng.sample(CN, rng.randint(3, 4))
    top, mid, under = names[:3]
    u1 = rng.randint(1, min_count - 1)
    c = rng.randint(0, 1)
    a = rng.randint(2, 3)
    b = rng.randint(max(1, u1 + c - a + 1), max(1, u1 + c - a + 1) + 1)       # low scores of `mid` stay the majority
    hi = rng.randint(4, 5)
    ballots = [(S([T([top, 5]), T([mid, bottom])]), a), (S([T([top, 4]), T([mid, bottom])]), b),
               (S([T([top, 4]), T([mid, hi]), T([under, hi])]), u1)]
    if c:
        ballots.append((S([T([top, 3]), T([mid, hi])]), c))
    if len(names) > 3 and rng.random() < 0.5:
        ballots.append((S([T([top, 2]), T([names[3], rng.randint(1, 5)])]), 1))      # a second under-scored candidate
    rng.shuffle(ballots)
    return D(ballots)


def _c_score_underscored(rng, min_count, bottom):
    if rng.random() < 0.75:
        return call('evaluate', _g_score_underscored(rng, min_count, bottom), 2)
    return call('evaluate', g_score(rng), g_seats(rng, 2))


LEVEL_NAMES = [['r0', 'r1'], ['d0', 'd1', 'd2'], ['w0', 'w1']]


def _g_nested(rng, levels, inner, lv=0, keys=None):
    """a dict nested over `levels` constituency levels around `inner(rng)`; returns the tagged dict"""
    if levels == 0:
        return inner(rng)
    names = LEVEL_NAMES[lv % len(LEVEL_NAMES)]
    ks = names[:rng.randint(1, len(names))]
    return D([(k, _g_nested(rng, levels - 1, inner, lv + 1)) for k in ks])


def _like(rng, votes, levels, leaf, p=0.8):
    """a dict with the constituency structure of `votes` (to `levels` levels) and leaf(rng, party names) at the bottom"""
    if levels == 0:
        return leaf(rng, [k for k, _ in votes['D']])
    return D([(k, _like(rng, v, levels - 1, leaf, p)) for k, v in votes['D'] if rng.random() < p])


def _c_nested_dist(rng, depth, seats_nested=False, caps=True):
    """evaluate(votes, n_seats, prev_gains=..., max_seats=...) with everything nested over depth-1 constituency levels and
    NON-EMPTY innermost previous gains"""
    cs = g_cands(rng, 2, 3)
    votes = _g_nested(rng, depth - 1, lambda r: g_simple(r, cs, frac=False))
    k = {}
    if rng.random() < 0.85:
        k['prev_gains'] = _like(rng, votes, depth - 1, lambda r, ps: D([(p, r.randint(1, 2)) for p in r.sample(ps, r.randint(1, len(ps)))]))
    if caps and rng.random() < 0.4:
        k['max_seats'] = _like(rng, votes, depth - 1, lambda r, ps: D([(p, r.randint(2, 4)) for p in ps]), p=1)
    n = _like(rng, votes, depth - 1, lambda r, ps: r.randint(1, 4), p=1) if seats_nested else rng.randint(1, 4)
    return call('evaluate', votes, n, **k)


def _mixed_pool(rng):
    """candidates of every kind: names, persons with and without a party, parties, a coalition, blank options"""
    return ['c0', 'c1', 'c2', {'O': ['NOTA']}, _party('A'), _party('B'), {'O': ['Coalition', 'K', ['A', 'B']]},
            _person('p1', 1, 'A'), _person('p2', 2, 'B'), _person('p3', 3, None)]


def _g_mixed_votes(rng, vt):
    """votes of the given type over a mixed candidate pool, with well-formed ballots, ballots a nominator may reject for a
    candidate, and malformed ballots (too many / duplicated candidates, scores out of range), shuffled"""
    pool = _mixed_pool(rng)
    kind = rng.choice(['uniform', 'uniform', 'mixed'])       # 'uniform': one kind of acceptable candidates + intruders
    base = rng.choice([pool[:3], pool[7:9], pool[4:6], pool[7:10]]) if kind == 'uniform' else pool
    intruders = [c for c in pool if c not in base] or pool
    pairs, seen = [], set()
    clean = rng.random() < 0.2          # nothing to eliminate: the converter hands the votes back
    p_form = 0 if clean else rng.choice([0, 0.3, 0.5])

    def cands(k):
        cs = rng.sample(base, min(k, len(base)))
        if not clean and rng.random() < 0.4:
            cs[rng.randrange(len(cs))] = rng.choice(intruders)
        return cs
    for _ in range(rng.randint(2, 6)):
        bad_form = rng.random() < p_form
        if vt == 'simple':
            b = rng.choice(intruders) if not clean and rng.random() < 0.4 else rng.choice(base)
            if bad_form and rng.random() < 0.5:
                b = S(['c0', 'c1'])                      # not an atomic candidate
        elif vt == 'approval':
            cs = cands(rng.randint(3, 4) if bad_form else rng.randint(1, 2))
            b = S(cs)
        elif vt == 'ranked':
            cs = cands(rng.randint(1, 3))
            if bad_form:
                cs = cs + [cs[0]] if rng.random() < 0.5 else cs + rng.sample(base, min(2, len(base))) + ['c2']
            b = T(cs)
        else:
            cs = cands(rng.randint(1, 3))
            b = S([T([c, rng.choice([0, 1, 2, 3, 7, 12] if bad_form else [0, 1, 2, 3])]) for c in cs])
        k = json.dumps(b, sort_keys=True)
        if k not in seen:
            seen.add(k)
            pairs.append((b, g_count(rng, frac=False)))
    return D(pairs)


def vquota_mod():
    import votelib.component.quota as vq
    return vq


def _c_stv_dist(rng, qn):
    """TransferableVoteDistributor.evaluate called directly: caps none / partial / full x prev_gains none / given"""
    cands = g_cands(rng, 2, 4)
    votes = g_ranked(rng, cands, shared=rng.random() < 0.3)
    if rng.random() < 0.4:            # a candidate holding two or more quotas
        votes['D'].insert(0, [T([cands[0]]), rng.randint(15, 30)])
        votes = D({json.dumps(k): (k, v) for k, v in votes['D']}.values())
    caps = rng.choice(['none', 'partial', 'full'])
    k = {}
    if caps == 'partial':
        k['max_seats'] = D([(c, rng.randint(1, 2)) for c in rng.sample(cands, rng.randint(1, len(cands) - 1))])
    elif caps == 'full':
        k['max_seats'] = D([(c, rng.randint(1, 2)) for c in cands])
    if rng.random() < 0.3:
        k['prev_gains'] = D([(c, 1) for c in rng.sample(cands, 1)])
    c = call('evaluate', votes, rng.randint(1, 3), **k)
    c['_stv'] = caps
    return c


def accepts_n(obj):
    return 'n_seats' in inspect.signature(obj.evaluate).parameters


# --- special input generators

def _party(name, number=None, props=None):
    spec = ['Party', name]
    if number is not None or props:
        spec.append(number)
    if props:
        spec.append([[k, v] for k, v in props.items()])
    return {'O': spec}


def _person(name, number=None, party=None, props=None):
    spec = ['Person', name, number, party]
    if props:
        spec.append([[k, v] for k, v in props.items()])
    return {'O': spec}


def _g_person_votes(rng):
    ps = [_person(f'p{i}', number=rng.choice([1, 2, 3, 4, 5, 6]) if True else None,
                  party=rng.choice(['A', 'B', None])) for i in range(rng.randint(2, 4))]
    # distinct numbers so that CandidateNumberRanker is well defined
    for i, p in enumerate(ps):
        p['O'][2] = i * 2 + rng.randint(1, 2)
    rng.shuffle(ps)
    return D([(p, g_count(rng, frac=False)) for p in ps])


def _g_person_selection(rng):
    v = _g_person_votes(rng)
    return L([k for k, _ in v['D']])


def _g_party_votes(rng, props=False, coal=False):
    out = []
    for i, nm in enumerate(['A', 'B', 'C', 'D'][:rng.randint(2, 4)]):
        if coal and rng.random() < 0.4:
            k = {'O': ['Coalition', 'K' + nm, [nm + '1', nm + '2', nm + '3'][:rng.randint(2, 3)]]}
        elif props and rng.random() < 0.4:
            k = _party(nm, None, {'minority': True})
        else:
            k = _party(nm)
        out.append((k, g_count(rng, frac=False)))
    return D(out)


def _g_biprop(rng):
    ps = g_cands(rng, 2, 3)
    return D([(d, D([(p, rng.randint(1, 30)) for p in ps])) for d in DN[:rng.randint(2, 3)]])


def _c_openlist(rng):
    cs = g_cands(rng, 2, 5)
    lst = list(cs)
    rng.shuffle(lst)
    return call('evaluate', g_simple(rng, cs), rng.randint(1, len(cs)), L(lst))


def _c_partylist_closed(rng):
    ps = ['A', 'B', 'C'][:rng.randint(2, 3)]
    votes = D([(p, g_count(rng, frac=False)) for p in ps])
    lists = D([(p, L([f'{p}{i}' for i in range(4)])) for p in ps])
    k = {'party_lists': lists}
    if rng.random() < 0.4:
        k['prev_gains'] = D([(p, rng.randint(0, 1)) for p in ps if rng.random() < 0.5])
    return call('evaluate', votes, g_seats(rng, 4), **k)


def _c_partylist_open(rng):
    ps = ['A', 'B', 'C'][:rng.randint(2, 3)]
    votes = D([(p, g_count(rng, frac=False)) for p in ps])
    lists = D([(p, L([f'{p}{i}' for i in range(4)])) for p in ps])
    lv = D([(p, D([(f'{p}{i}', rng.randint(0, 9)) for i in range(4)])) for p in ps])
    return call('evaluate', votes, g_seats(rng, 4), party_lists=lists, list_votes=lv)


def _g_allocation(rng):
    cands = g_cands(rng, 2, 4)
    alloc = []
    for c in cands:
        votes = []
        seen = set()
        for _ in range(rng.randint(1, 3)):
            rest = [x for x in cands if x != c]
            rng.shuffle(rest)
            tail = rest[:rng.randint(0, len(rest))]
            if len(tail) >= 2 and rng.random() < 0.3:
                tail = [S(tail[:2])] + tail[2:]
            b = T([c] + tail)
            k = json.dumps(b)
            if k not in seen:
                seen.add(k)
                votes.append((b, rng.randint(1, 9)))
        alloc.append((c, D(votes)))
    return cands, D(alloc)


def _g_carried(rng, weakest=False):
    """An allocation as it stands AFTER one or more counts (the state a caller carries from count to count), not the one
    `initial_allocation` makes: candidates eliminated earlier are gone from the keys but still named on ballots (also in first
    place), their ballots lie on the pile of the first continuing preference, the exhausted pile (key None, at any position of
    the dict) holds the ballots that ran out, piles may be empty, and the continuing candidate `weak` holds truncated ballots
    that a further elimination exhausts as well.  `weakest`: `weak` has strictly the fewest votes (it is the one a further
    count eliminates).  Returns (continuing, allocation, weak, totals per pile)."""
    pool = CN[:rng.randint(3, 5)]
    gone = rng.sample(pool, rng.randint(1, len(pool) - 2))
    cont = [c for c in pool if c not in gone]
    rng.shuffle(cont)
    piles = {c: {} for c in cont}
    piles[None] = {}

    def put(owner, ballot, n):
        key = json.dumps(ballot)
        piles[owner][key] = (T(ballot), piles[owner].get(key, (None, 0))[1] + n)

    for _ in range(rng.randint(3, 7)):
        order = rng.sample(pool, rng.randint(1, len(pool)))
        put(next((c for c in order if c in cont), None), order, rng.randint(1, 9))
    if not piles[None] or rng.random() < 0.5:
        put(None, rng.sample(gone, rng.randint(1, len(gone))), rng.randint(1, 4))
    weak = rng.choice(cont)
    lead = rng.sample(gone, rng.randint(0, len(gone)))
    put(weak, (lead + [weak]) if rng.random() < 0.5 else ([weak] + lead), rng.randint(1, 3))
    tot = {c: sum(n for _, n in p.values()) for c, p in piles.items()}
    if weakest:
        for c in cont:
            if c != weak and tot[c] <= tot[weak]:
                put(c, [c] + rng.sample([x for x in pool if x != c], rng.randint(0, 2)), tot[weak] - tot[c] + rng.randint(1, 3))
        tot = {c: sum(n for _, n in p.values()) for c, p in piles.items()}
    order = list(cont)
    order.insert(rng.randint(0, len(order)), None)
    return cont, D([(c, D(list(piles[c].values()))) for c in order]), weak, tot


def _exhausts_more(alloc, removed):
    """does removing `removed` put further ballots on the exhausted pile? (ballots without shared ranks)"""
    left = [c for c, _ in alloc['D'] if c is not None and c not in removed]
    for c, pile in alloc['D']:
        if c in removed:
            for b, _ in pile['D']:
                names = b['T']
                if c not in names or not any(x in left for x in names[names.index(c) + 1:]):
                    return True
    return False


CARRIED_P = 0.5        # share of the direct transfer / next_count calls that get an allocation carried over from earlier counts


def _c_transfer(rng, carried=None):
    if carried or (carried is None and rng.random() < CARRIED_P):
        cont, alloc, weak, _ = _g_carried(rng)
        rem = rng.sample(cont, rng.randint(1, max(1, len(cont) - 1)))
        if weak not in rem and rng.random() < 0.8:
            rem[0] = weak
        c = call('transfer', alloc, L(rem))
        c['_carried'] = ['carried:transfer'] + (['carried_exhausts_more'] if _exhausts_more(alloc, rem) else [])
        return c
    cands, alloc = _g_allocation(rng)
    return call('transfer', alloc, L(rng.sample(cands, rng.randint(1, max(1, len(cands) - 1)))))


def _c_subtract(rng, carried=None):
    """VoteTransferer.subtract called directly: quotas of one or two elected candidates taken off their piles"""
    if carried or (carried is None and rng.random() < 0.7):
        cont, alloc, _, tot = _g_carried(rng)
        tags = ['carried:subtract']
    else:
        cont, alloc = _g_allocation(rng)
        tot = {c: sum(n for _, n in p['D']) for c, p in alloc['D']}
        tags = []
    el = [c for c in rng.sample(cont, rng.randint(1, min(2, len(cont)))) if tot[c] > 0] or [max(cont, key=lambda c: tot[c])]
    quotas = D([(c, rng.choice([rng.randint(1, max(1, tot[c])), F(Fraction(max(1, tot[c]) * 2, 3)), tot[c] + 1])) for c in el])
    c = call('subtract', alloc, quotas if rng.random() < 0.9 else D([]))
    if tags:
        c['_carried'] = tags
    return c


def _c_next_count(rng, dist=False, carried=None):
    if carried or (carried is None and rng.random() < CARRIED_P):
        weakest = carried == 'weakest' or rng.random() < 0.6
        cont, alloc, weak, tot = _g_carried(rng, weakest=weakest)
        total = sum(tot.values())
        tags = ['carried:next_count']
        k = {}
        seats = g_seats(rng, 2)
        if weakest:       # nobody reaches the quota (one seat, quota above every pile): the count eliminates `weak`
            seats = 1
            total = max(total, 2 * max(tot[c] for c in cont))
            if _exhausts_more(alloc, [weak]):
                tags.append('carried_exhausts_more')
        elif dist:
            k = kw_prev_max(rng, {}, p=0.3)
        c = call('next_count', alloc, seats, total, **k) if dist or rng.random() < 0.5 else \
            call('next_count', alloc, seats, total, elected=L([]))
        c['_carried'] = tags
        return c
    cands, alloc = _g_allocation(rng)
    total = sum(n for _, d in alloc['D'] for _, n in d['D'])
    a = [alloc, g_seats(rng, 2), total]
    if dist:
        return call('next_count', *a, **kw_prev_max(rng, {}, p=0.3))
    if rng.random() < 0.5:
        return call('next_count', *a)
    return call('next_count', *a, elected=L([]))


def _g_truncated(rng):
    """ranked votes whose count runs over several eliminations with ballots running out on the way: weak candidates with
    truncated ballots (exhausted when they are eliminated) next to longer ballots"""
    cands = CN[:rng.randint(3, 5)]
    votes = {json.dumps(k): (k, v) for k, v in g_ranked(rng, cands, shared=rng.random() < 0.2, nb=rng.randint(2, 4))['D']}
    for c in rng.sample(cands, rng.randint(2, len(cands) - 1)):
        b = T([c] + ([] if rng.random() < 0.7 else rng.sample([x for x in cands if x != c], 1)))
        votes.setdefault(json.dumps(b), (b, rng.randint(1, 3)))
    out = list(votes.values())
    rng.shuffle(out)
    return D(out)


def _c_stepped(rng, carried=None):
    c = call('counts', _g_truncated(rng), g_seats(rng, 2), rng.randint(2, 5), **kw_prev_max(rng, {}, p=0.15))
    c['_carried'] = ['carried:stepped']
    return c


_STEP_MUT = []          # argument mutations seen by a `_Stepper` inside one call (drained by `_invoke`)
_STEP_SITES = set()     # what the stepped counts of one call reached


class _Stepper:
    """The caller's side of the counting protocol of sequential.py L147-241 (what `nth_count` does, written by a caller):
    `initial_allocation`, then `next_count` count by count, each count getting the allocation OBJECT the count before
    returned.  The allocation handed in is snapshotted deeply before and after every count, the result at once, and every
    count is asked for a second time with the same objects; the outcome is the trail of all results."""
    def __init__(self, dist):
        self.dist = dist

    def counts(self, votes, n_seats, k, prev_gains=None, max_seats=None):
        import votelib.evaluate.sequential as vseq
        alloc = vseq.initial_allocation(votes, self.dist.transferer)
        total = sum(votes.values())
        seats = dict(prev_gains or {})
        kw = {} if max_seats is None else {'max_seats': max_seats}
        trail = []
        for i in range(k):
            if sum(seats.values()) >= n_seats:
                break
            before = enc(alloc, ordered=True)
            had = None in alloc
            new, elected = self.dist.next_count(alloc, n_seats, total, prev_gains=dict(seats), **kw)
            first = enc([new, elected], ordered=True)
            again = enc(list(self.dist.next_count(alloc, n_seats, total, prev_gains=dict(seats), **kw)), ordered=True)
            after = enc(alloc, ordered=True)
            trail.append({'count': i + 1, 'result': first, 'asked_again': 'same' if again == first else again})
            if after != before:
                _STEP_MUT.append({'before': [f'allocation handed to count {i + 1}', before],
                                  'after': [f'allocation handed to count {i + 1}', after]})
            if had:
                _STEP_SITES.add('carried_exhausted_pile_given')
                if isinstance(new, dict) and sum(new.get(None, {}).values()) > sum(alloc[None].values()):
                    _STEP_SITES.add('carried_exhausts_more')
            if not new or (not elected and new == alloc):
                break
            for c, n in elected.items():
                seats[c] = seats.get(c, 0) + n
            alloc = new
        return trail


def _c_validate_score(rng):
    cs = rng.sample(CN, rng.randint(0, 4))
    if cs and rng.random() < 0.15:
        cs.append(cs[0])        # candidate scored twice
    return call('validate', S([T([c, rng.choice([0, 1, 2, 3, 4, 5, 9])]) for c in cs]))


def _c_nominate(rng):
    r = rng.random()
    if r < 0.3:
        return call('validate', rng.choice(CN))
    if r < 0.6:
        return call('validate', _person('p1', 1, rng.choice(['A', None])))
    if r < 0.8:
        return call('validate', _party('A'))
    return call('validate', {'O': ['Coalition', 'K', ['A', 'B']]})


# ------------------------------------------------------------------------------------------------
# shared defaults: every function of the library (module level, methods, static / class methods)

_TARGETS = None
_BASE_DEFAULTS = None
CHECKED_METHODS = ('evaluate', 'convert', 'validate', 'calculate', 'next_count', 'nth_count', 'subset', 'transfer', 'subtract',
                   '_elect_by_quota', '_subtract_overaward')


def TARGETS():
    global _TARGETS, _BASE_DEFAULTS
    if _TARGETS is None:
        _BASE_DEFAULTS = {k: v for k, (v, _) in _defaults_now().items()}
        _TARGETS = _targets()
    return _TARGETS


def _functions():
    seen = set()
    for mod in _mods():
        for n, o in vars(mod).items():
            if isinstance(o, types.FunctionType) and o.__module__ == mod.__name__:
                if id(o) not in seen:
                    seen.add(id(o))
                    yield f'{mod.__name__}.{n}', o
            elif isinstance(o, type) and o.__module__ == mod.__name__:
                for mn, m in vars(o).items():
                    f = m.__func__ if isinstance(m, (staticmethod, classmethod)) else m
                    if isinstance(f, types.FunctionType) and id(f) not in seen:
                        seen.add(id(f))
                        yield f'{mod.__name__}.{o.__name__}.{mn}', f


def _defaults_now():
    """qualified name -> (ordered snapshot of the mutable defaults, the default objects)"""
    out = {}
    for qn, f in _functions():
        ds = list(f.__defaults__ or ()) + [v for _, v in sorted((f.__kwdefaults__ or {}).items())]
        ds = [d for d in ds if _mutable_default(d)]
        if ds:
            out[qn] = (enc(ds, ordered=True), ds)
    return out


def _mutable_default(d):
    if isinstance(d, (dict, list, set, bytearray)):
        return True
    if d is None or isinstance(d, (bool, int, str, float, Fraction, Decimal, tuple, frozenset, bytes, type,
                                   types.FunctionType, types.BuiltinFunctionType, types.ModuleType, types.MethodType)):
        return False           # (a module as a default, e.g. `rng=random`, is not a container of the library's)
    return hasattr(d, '__dict__')          # a library object used as a shared default (SmithSet(), DEFAULT_MAPPER, ...)


def check_defaults():
    """[(function, what)] for every default container that is no longer what it was at import time, and for every
    evaluate/convert/validate(...) default container that is not empty; polluted containers are emptied again so that one
    pollution is attributed to one case."""
    TARGETS()
    bad = []
    for qn, (snap, ds) in _defaults_now().items():
        base = _BASE_DEFAULTS.get(qn)
        if snap != base:
            bad.append([qn, f'default changed: {json.dumps(base)[:120]} -> {json.dumps(snap)[:120]}'])
        if qn.rsplit('.', 1)[-1] in CHECKED_METHODS:
            for d in ds:
                if isinstance(d, (dict, list, set)) and len(d) > 0:
                    if not any(b[0] == qn for b in bad):
                        bad.append([qn, f'default container not empty: {json.dumps(enc(d))[:120]}'])
                    d.clear()
    return bad


# ------------------------------------------------------------------------------------------------
# the run

def _diff_paths(a, b, path=''):
    """paths (attribute / key / index) at which two ordered snapshots differ"""
    if a == b:
        return []
    if isinstance(a, dict) and isinstance(b, dict) and set(a) == set(b):
        if 'obj' in a and a.get('obj') == b.get('obj'):
            av, bv = dict(a['vars']), dict(b['vars'])
            out = []
            for k in sorted(set(av) | set(bv)):
                if k not in av or k not in bv:
                    out.append(f'{path}.{k}'.lstrip('.'))
                else:
                    out += _diff_paths(av[k], bv[k], f'{path}.{k}'.lstrip('.'))
            return out
        if 'L' in a and len(a['L']) == len(b['L']):
            out = []
            for i, (x, y) in enumerate(zip(a['L'], b['L'])):
                out += _diff_paths(x, y, f'{path}.{i}'.lstrip('.'))
            return out
    return [path or '<self>']


MODEL_STATE = {'pav': ('_coefs',), 'borda': ('rank_scorer',), 'rankval': ('rank_vote_count_checkers',),
               'scoreval': ('sum_checkers',)}


def _class_attrs(cls):
    """data attributes defined on the library classes of the MRO (state shared by ALL instances)"""
    out = []
    for k in cls.__mro__:
        if not getattr(k, '__module__', '').startswith('votelib'):
            continue
        for n, v in vars(k).items():
            if n.startswith('__') or callable(v) or isinstance(v, (staticmethod, classmethod, property, types.MemberDescriptorType)):
                continue
            if n in ('_abc_impl',) or not _plain_data(v):
                continue
            out.append([f'{k.__name__}.{n}', enc(v, ordered=True)])
    return out


def _plain_data(v, depth=0):
    """numbers, strings, containers of those, and instances of library classes"""
    if v is None or isinstance(v, (bool, int, float, str, bytes, Fraction, Decimal)):
        return True
    if depth > 4:
        return False
    if isinstance(v, (list, tuple, set, frozenset)):
        return all(_plain_data(e, depth + 1) for e in v)
    if isinstance(v, dict):
        return all(_plain_data(a, depth + 1) and _plain_data(b, depth + 1) for a, b in v.items())
    return type(v).__module__.startswith('votelib') and not isinstance(v, type)


def _state(obj):
    if isinstance(obj, type):
        return {'obj': obj.__name__, 'vars': [['<class>', {'L': [{'L': [k, v]} for k, v in _class_attrs(obj)]}]]}
    e = enc(obj, ordered=True)
    if isinstance(e, dict) and 'vars' in e:
        e = dict(e, vars=e['vars'] + [['<class>', {'L': [{'L': [k, v]} for k, v in _class_attrs(type(obj))]}]])
    return e


def _module_state():
    """module-level data of the library (singletons, registries, constants)"""
    out = []
    for mod in _mods():
        for n, v in vars(mod).items():
            if n.startswith('__') or isinstance(v, (types.ModuleType, types.FunctionType, type)) or callable(v) and not hasattr(v, '__dict__'):
                continue
            if not _plain_data(v):
                continue
            out.append([f'{mod.__name__}.{n}', enc(v, ordered=True)])
    return out


def _model_state(t, obj):
    """observable state of the modelled stateful components"""
    if t.get('model') == 'pav':
        return {'coefs': [num_str(c) for c in obj._coefs]}
    if t.get('model') == 'borda':
        sc = obj.rank_scorer
        return {'n': sc.n_candidates, 'scores': None if sc._scores is None else [num_str(x) for x in sc._scores]}
    if t.get('model') in ('rankval', 'scoreval'):
        store = obj.rank_vote_count_checkers if t['model'] == 'rankval' else obj.sum_checkers
        return [[k, [None if c.min_value is None else num_str(c.min_value), None if c.max_value is None else num_str(c.max_value)]]
                for k, c in store.items()]
    if t.get('model') == 'dispatch':
        import votelib.evaluate.core as vcore
        return [bool(vcore.accepts_prev_gains(obj.evaluator)), bool(vcore.accepts_max_seats(obj.evaluator))]
    return None


# ------------------------------------------------------------------------------------------------
# the process-wide generator: every reseed / draw the library makes during one call is recorded

_RNG_DRAWS = ('random', 'randrange', 'randint', 'sample', 'choices', 'choice', 'shuffle', 'uniform', 'getrandbits',
              'gauss', 'betavariate', 'expovariate', 'normalvariate', 'triangular', 'randbytes')
_RNG_ORIG = {}


def _draw_site():
    """(Class.method that owns the draw, the enclosing library functions) from the stack of a draw"""
    f = sys._getframe(2)
    chain = []
    while f is not None:
        fn = f.f_code.co_filename
        if os.sep + 'votelib' + os.sep in fn:
            chain.append(getattr(f.f_code, 'co_qualname', f.f_code.co_name))
        f = f.f_back
    owner = next((q for q in chain if '.' in q and '<' not in q), chain[0] if chain else '?')
    return owner, chain


class RngTrace:
    """monkey-patches `random.seed` and the drawing functions of the `random` module (the library calls them through the
    module, `random.seed(...)`, `random.sample(...)`) while one library call runs"""
    def __init__(self):
        self.events = []        # 's:<seed>' | 'd:<owner>'
        self.sites = set()

    def __enter__(self):
        import random as _r
        if not _RNG_ORIG:
            _RNG_ORIG['seed'] = _r.seed
            for n in _RNG_DRAWS:
                if hasattr(_r, n):
                    _RNG_ORIG[n] = getattr(_r, n)
        tr = self

        def seed(a=None, *args, **kw):
            tr.events.append('s:' + repr(a))
            return _RNG_ORIG['seed'](a, *args, **kw)
        _r.seed = seed
        for n in _RNG_DRAWS:
            if n in _RNG_ORIG:
                def mk(n):
                    def draw(*args, **kw):
                        owner, chain = _draw_site()
                        tr.events.append('d:' + owner)
                        tr.sites.add('draw:' + owner)
                        if any(q.endswith('initial_allocation') for q in chain):
                            tr.sites.add('draw_via:initial_allocation')
                        if chain and chain[-1].endswith('.transfer'):
                            tr.sites.add('draw_via:direct_transfer')
                        if any(q.endswith('next_count') for q in chain):
                            tr.sites.add('draw_via:next_count')
                        if any(q.endswith('_select_n_random_float') for q in chain):
                            tr.sites.add('draw_via:float_branch')
                        return _RNG_ORIG[n](*args, **kw)
                    return draw
                setattr(_r, n, mk(n))
        return self

    def __exit__(self, *a):
        import random as _r
        for n, f in _RNG_ORIG.items():
            setattr(_r, n, f)


def _perturb(k):
    """leave the process-wide generator in a state of the harness's choosing (the `other f` call of the model)"""
    import random as _r
    (_RNG_ORIG.get('seed') or _r.seed)(k)


def _invoke(t, obj, c, perturb=None, mode=None, reuse=None, keep=None):
    """`reuse`: (args, kw) OBJECTS of an earlier call of the history to be passed again (the caller keeps one prev_gains /
    votes object and calls twice); `keep`: list that receives the argument objects of this call"""
    dec = _Dec(mode)
    if reuse is not None:
        args, kw = reuse
    else:
        args = [dec(a) for a in c['a']]
        kw = {k: dec(v) for k, v in c.get('k', {}).items()}
    if keep is not None:
        keep.append((args, kw))
    before = enc([args, kw], ordered=True)
    if perturb is not None:
        _perturb(perturb)
    del _STEP_MUT[:]
    _STEP_SITES.clear()
    with RngTrace() as tr:
        out = outcome(lambda: getattr(obj, c['m'])(*args, **kw))
    after = enc([args, kw], ordered=True)
    mut = None
    if before != after:
        mut = {'before': before, 'after': after}
    elif _STEP_MUT:         # an allocation carried from count to count by a `_Stepper` was changed by the count it was handed to
        mut = dict(_STEP_MUT[0])
    tr.sites.update(_STEP_SITES)
    del _STEP_MUT[:]
    _STEP_SITES.clear()
    return out, mut, tr


def _rejection_routes(validator, votes):
    """which rejection routes a votes dict exercises, in dict order (observed with a validator of the target's configuration)"""
    import votelib.vote
    import votelib.candidate
    routes = []
    if not isinstance(votes, dict):
        return set()
    for ballot in votes:
        try:
            validator.validate(ballot)
        except votelib.candidate.CandidateError:
            routes.append('C')
        except votelib.vote.VoteError:
            routes.append('V')
        except Exception:
            routes.append('?')
    tags = set()
    if 'C' in routes:
        tags.add('reject:candidate_error')
        if 'V' not in routes:
            tags.add('reject:candidate_error_only')
        elif routes.index('C') < routes.index('V'):
            tags.add('reject:candidate_error_before_vote_error')
        else:
            tags.add('reject:vote_error_before_candidate_error')
    if 'V' in routes:
        tags.add('reject:vote_error')
    if votes and not set(routes) & {'C', 'V'}:
        tags.add('reject:none')
    return tags


def reseed_contract(t, events):
    """None if the event sequence of one call of a seeded component is an execution of the `seededStep` model: every draw
    is preceded, within the call, by `random.seed(<the component's seed>)`, and nothing else is ever seeded"""
    seeded = False
    for e in events:
        if e.startswith('s:'):
            if e != 's:' + repr(t['seed']):
                return f'random.seed({e[2:]}) inside a call of a component seeded with {t["seed"]}'
            seeded = True
        elif not seeded:
            return f'draw in {e[2:]} not preceded by random.seed({t["seed"]}) within the call (events: {events[:8]})'
    return None


HISTORY_CPU_LIMIT = 90         # seconds of CPU one history may use, snapshots included


class HarnessTimeout(BaseException):
    """the hard guard around one history fired (BaseException: no `except Exception` of the library or harness swallows it)"""


class _hard_guard:
    """CPU-time guard on ITIMER_PROF / SIGPROF: independent of the SIGALRM alarms around the single library calls (alarms do
    not nest: the inner alarm(0) cancels an outer alarm, which is why common.guarded cannot protect a whole history)"""
    def __init__(self, seconds):
        self.seconds = seconds

    def __enter__(self):
        def fire(signum, frame):
            raise HarnessTimeout(f'history used more than {self.seconds} s of CPU')
        self.old = signal.signal(signal.SIGPROF, fire)
        signal.setitimer(signal.ITIMER_PROF, self.seconds)

    def __exit__(self, *a):
        signal.setitimer(signal.ITIMER_PROF, 0)
        signal.signal(signal.SIGPROF, self.old)
        return False


def run_history(case):
    with _hard_guard(HISTORY_CPU_LIMIT):
        return _run_history(case)


def _run_history(case):
    T = TARGETS()
    names = case['targets']
    calls = case['calls']
    obs = {'fresh': [], 'shared': [], 'repeat': [], 'mutated': [], 'drift': [], 'mstate': [], 'defaults': [],
           'rng': [], 'rng_fresh': []}
    _PERSONS.clear()
    for c in calls:           # a call that passes the argument objects of an earlier call again has that call's arguments
        sa = c.get('same_as')
        if isinstance(sa, int) and sa < len(calls) and calls[sa]['t'] == c['t']:
            c['a'] = json.loads(json.dumps(calls[sa]['a']))
            c['k'] = json.loads(json.dumps(calls[sa].get('k', {})))
        elif 'same_as' in c:
            del c['same_as']
    pre = check_defaults()          # pollution left over by earlier cases is not this case's
    m0 = _module_state()
    # fresh instances first (nothing of this history has happened yet)
    for i, c in enumerate(calls):
        t = T[names[c['t']]]
        out, mut, tr = _invoke(t, t['make'](), c, perturb=100003 * i + 17, mode=case.get('names'))
        obs['fresh'].append(out)
        obs['rng_fresh'].append(tr.events[:64])
        if mut:
            obs['mutated'].append({'call': i, 'run': 'fresh', 'target': t['name'], **mut})
    bad = check_defaults()
    # one shared instance per target
    shared = {}
    kept = []
    for i, c in enumerate(calls):
        t = T[names[c['t']]]
        if c['t'] not in shared:
            shared[c['t']] = t['shared']() if 'shared' in t else t['make']()
        obj = shared[c['t']]
        s0 = _state(obj)
        sa = c.get('same_as')
        out, mut, tr = _invoke(t, obj, c, mode=case.get('names'), keep=kept,
                               reuse=kept[sa] if isinstance(sa, int) and sa < len(kept) else None)
        s1 = _state(obj)
        obs['rng'].append(tr.events[:64])
        if 'ok' in out:
            prev_exc = [obs['shared'][j].get('exc') for j in range(i) if calls[j]['t'] == c['t'] and 'exc' in obs['shared'][j]]
            if prev_exc:
                tr.sites.add('call_after_exception')
                if any(e in ('VotingSystemError', 'NotImplementedError') for e in prev_exc):
                    tr.sites.add('call_after_refusal')
        if t.get('eliminator') and hasattr(obj, 'validator') and c['m'] == 'convert':
            for site in _rejection_routes(obj.validator, _Dec(case.get('names'))(c['a'][0])):
                tr.sites.add(site)
        for site in tr.sites:
            if site not in case.setdefault('_tags', []):
                case['_tags'].append(site)
        obs['shared'].append(out)
        obs['mstate'].append(_model_state(t, obj))
        if mut:
            obs['mutated'].append({'call': i, 'run': 'shared', 'target': t['name'], **mut})
        if s0 != s1:
            paths = _diff_paths(s0, s1)
            ok = tuple(t.get('state_ok', ())) + MODEL_STATE.get(t.get('model'), ())
            un = [p for p in paths if not any(p == o or p.startswith(o + '.') for o in ok)]
            obs['drift'].append({'call': i, 'target': t['name'], 'class': type(obj).__name__, 'paths': paths,
                                 'unmodelled': un})
    bad += check_defaults()
    # seeded random components: the same call on another fresh instance with the same seed must repeat
    for i, c in enumerate(calls):
        t = T[names[c['t']]]
        if t.get('seed') is not None:
            out, _, _ = _invoke(t, t['make'](), c, perturb=7919 * i + 5, mode=case.get('names'))
            obs['repeat'].append(out)
        else:
            obs['repeat'].append(None)
    bad += check_defaults()
    obs['defaults'] = bad
    m1 = _module_state()
    if m0 != m1:
        ch = [k for (k, a), (_, b) in zip(m0, m1) if a != b] if len(m0) == len(m1) else ['<set of module globals>']
        obs['drift'].append({'call': None, 'target': '<modules>', 'class': 'module', 'paths': ch, 'unmodelled': ch})
    return obs


_ISOLATE = False        # switched on when the shrinker starts: from then on every history runs in a fresh interpreter


_ZYGOTE_CODE = (
    'import sys, os, json\n'
    'sys.path[:0] = [{harness!r}, {repo!r}]\n'
    'from props import C18\n'
    'C18._mods()\n'                      # the library is imported, nothing of it has been called or constructed
    'print("@@ready", flush=True)\n'
    'for line in sys.stdin:\n'
    '    pid = os.fork()\n'
    '    if pid == 0:\n'
    '        try:\n'
    '            out = json.dumps(C18.run_history(json.loads(line)))\n'
    '        except BaseException as e:\n'
    '            out = json.dumps({{"zygote_error": repr(e)}})\n'
    '        sys.stdout.write("@@" + out + "\\n"); sys.stdout.flush(); os._exit(0)\n'
    '    os.waitpid(pid, 0)\n'
    '    sys.stdout.write("@@done\\n"); sys.stdout.flush()\n')


class _Zygote:
    """a process that has imported the library and nothing else; every history is run in a fork of it, i.e. in interpreter
    state that no call or construction of this or any other history has touched (0.1 s instead of 0.4 s per history)"""
    proc = None

    @classmethod
    def get(cls):
        import subprocess
        import atexit
        if cls.proc is None or cls.proc.poll() is not None:
            env = dict(os.environ, VOTELIB_REPO=REPO, PYTHONDONTWRITEBYTECODE='1')
            code = _ZYGOTE_CODE.format(harness=os.path.join(VERIF, 'harness'), repo=REPO)
            cls.proc = subprocess.Popen([sys.executable, '-c', code], stdin=subprocess.PIPE, stdout=subprocess.PIPE,
                                        stderr=subprocess.DEVNULL, text=True, env=env)
            if cls.proc.stdout.readline().strip() != '@@ready':
                raise RuntimeError('zygote did not start')
            atexit.register(cls.close)
        return cls.proc

    @classmethod
    def close(cls):
        if cls.proc is not None and cls.proc.poll() is None:
            try:
                cls.proc.stdin.close()
                cls.proc.wait(timeout=5)
            except Exception:
                cls.proc.kill()
        cls.proc = None

    @classmethod
    def run(cls, case):
        p = cls.get()
        p.stdin.write(json.dumps(strip_case(case)) + '\n')
        p.stdin.flush()
        res = None
        while True:
            line = p.stdout.readline()
            if not line:
                raise RuntimeError('zygote died')
            line = line.strip()
            if line == '@@done':
                break
            if line.startswith('@@'):
                res = json.loads(line[2:])
        if res is None or 'zygote_error' in res:
            raise RuntimeError(f'isolated run failed: {res}')
        return res


def run_isolated(case):
    """run one history in FRESH interpreter state (same repo, same hash seed): state that leaked into this process from
    earlier histories (class attributes, module globals, shared defaults, the global RNG) cannot mask or fake a failure,
    so a shrunk history and the written replay reproduce on their own"""
    try:
        return _Zygote.run(case)
    except Exception:
        _Zygote.close()
    import subprocess
    code = ('import sys, json\n'
            f'sys.path[:0] = [{os.path.join(VERIF, "harness")!r}, {REPO!r}]\n'
            'from props import C18\n'
            'print("\\n@@" + json.dumps(C18.run_history(json.load(sys.stdin))))\n')
    env = dict(os.environ, VOTELIB_REPO=REPO, PYTHONDONTWRITEBYTECODE='1')
    p = subprocess.run([sys.executable, '-c', code], input=json.dumps(strip_case(case)), stdout=subprocess.PIPE,
                       stderr=subprocess.PIPE, text=True, timeout=300, env=env)
    for line in p.stdout.split('\n'):
        if line.startswith('@@'):
            return json.loads(line[2:])
    raise RuntimeError('isolated run failed: ' + p.stderr[-400:])


def impl(case):
    if case['op'] != 'history':
        raise ValueError(case['op'])
    # every library call inside runs under its own 3 s alarm (`outcome`): common.call_with_timeout does not nest (the inner
    # alarm(0) cancels the outer alarm), so there is no outer watchdog here
    if case.get('foreign') is not None or case.get('ref_calls') is not None:
        # 'foreign object first' / 'earlier calls first': the whole history runs in a fresh interpreter (so the foreign objects really are the
        # first of their classes the process sees), and the reference for the other objects' calls comes from ANOTHER
        # fresh interpreter that never sees the foreign objects — module-level state persists in-process, so neither a
        # fresh instance nor a reference computed earlier or later in the same process is a reference
        obs = run_isolated(case)
        sub, idx = without_foreign(case)
        ref = run_isolated(sub)['fresh'] if sub['calls'] else []
        obs['ref'] = [ref[idx[i]] if i in idx else None for i in range(len(case['calls']))]
    else:
        obs = run_isolated(case) if (_ISOLATE or os.environ.get('VERIF_C18_ISOLATE')) else run_history(case)
    case['_rng'] = obs.get('rng')       # harness-only: the observed reseed / draw events, read by `model_line`
    return obs


def without_foreign(case):
    """the history without the calls on the foreign objects; index map call -> call of the reduced history"""
    if case.get('ref_calls') is not None:       # reference = only these calls, in an interpreter that never saw the others
        keep = [i for i in case['ref_calls'] if i < len(case['calls'])]
    else:
        keep = [i for i, c in enumerate(case['calls']) if c['t'] not in case['foreign']]
    used = sorted(set(case['calls'][i]['t'] for i in keep))
    remap = {t: j for j, t in enumerate(used)}
    sub = {'op': 'history', 'targets': [case['targets'][t] for t in used],
           'calls': [dict(case['calls'][i], t=remap[case['calls'][i]['t']]) for i in keep]}
    if case.get('names'):
        sub['names'] = case['names']
    return sub, {i: j for j, i in enumerate(keep)}


def oracle(case, obs):
    """C18 stated on the observations."""
    if 'err' in obs:
        return [('timeout', 'history did not finish')]
    T = TARGETS()
    out = []
    for i, c in enumerate(case['calls']):
        t = T[case['targets'][c['t']]]
        if not t.get('random') and obs['shared'][i] != obs['fresh'][i]:
            out.append((f"history_dependent:{t['name']}",
                        f"call {i} on shared {t['name']}: {json.dumps(obs['shared'][i])[:160]} but on a fresh instance "
                        f"{json.dumps(obs['fresh'][i])[:160]}"))
            break
    for i, c in enumerate(case['calls']):
        t = T[case['targets'][c['t']]]
        if t.get('seed') is not None and obs['repeat'][i] != obs['fresh'][i]:
            out.append((f"unseeded_nondeterminism:{t['name']}",
                        f"call {i} on {t['name']} (seed {t['seed']}): {json.dumps(obs['fresh'][i])[:120]} then "
                        f"{json.dumps(obs['repeat'][i])[:120]}"))
            break
    if obs.get('ref'):
        for i, c in enumerate(case['calls']):
            r = obs['ref'][i]
            t = T[case['targets'][c['t']]]
            if r is None or t.get('random'):
                continue
            for run in ('shared', 'fresh'):
                if obs[run][i] != r:
                    kind = 'depends_on_other_object' if case.get('foreign') is not None else 'depends_on_earlier_call'
                    out.append((f"{kind}:{t['name']}",
                                f"call {i} on {t['name']} ({run} instance) after calls on {[case['targets'][f] for f in case.get('foreign') or [c['t']]]}: "
                                f"{json.dumps(obs[run][i])[:160]} but {json.dumps(r)[:160]} in an interpreter that never saw them"))
                    break
            else:
                continue
            break
    for d in obs['drift']:
        if d['unmodelled']:
            if d['class'] == 'module':
                out.append(('module_state_changed', f"module-level data {d['unmodelled']} of the library changed during the history"))
            else:
                out.append((f"instance_state_changed:{d['target']}",
                            f"attribute(s) {d['unmodelled']} of the {d['class']} instance changed during call {d['call']}: evaluation "
                            "does not leave the evaluator as it was (no state-machine model covers these attributes)"))
            break
    if obs['mutated']:
        m = obs['mutated'][0]
        out.append((f"argument_mutated:{m['target']}", f"call {m['call']} ({m['run']} {m['target']}): arguments "
                    f"{json.dumps(m['before'])[:200]} became {json.dumps(m['after'])[:200]}"))
    if obs['defaults']:
        q0 = obs['defaults'][0][0]
        out.append((f'shared_default_polluted:{q0}', '; '.join(f'{q}: {w}' for q, w in obs['defaults'][:3])))
    return out


# ------------------------------------------------------------------------------------------------
# generator

NUM_MODES = ['frac', 'fracint', 'dec', 'dec7', 'big', 'big53', 'huge', 'float', 'zero']
REQUIRED_COUNTERS = ['every_class', 'singleton', 'pav_cache_grows', 'pav_small_after_large', 'borda_n_changes',
                     'seeded_random', 'interleaved_objects', 'defaults_used', 'prev_gains_given', 'nested_prev_gains',
                     'model:pav', 'model:borda', 'model:rng', 'model:rankval', 'model:scoreval', 'checker_materialised',
                     'rng_directed', 'draw:Hare._subtract', 'draw:Hare._distribute_equal_ranking', 'draw:Sortitor.evaluate',
                     'draw:RandomUnrankedBallotSelector.evaluate', 'draw_via:initial_allocation', 'draw_via:direct_transfer',
                     'draw_via:next_count', 'draw_via:float_branch', 'foreign_first', 'model:dispatch', 'raise_first', 'call_after_exception',
                     'call_after_refusal', 'refusal_first', 'prev_gains_then_none', 'larger_then_smaller', 'smaller_after_larger',
                     'votes_form:dict', 'votes_form:shorter', 'votes_form:equal', 'votes_form:longer', 'votes_form:tuple',
                     'nested_depth3', 'nested_depth4', 'nested_depth3_prev_gains', 'nested_depth4_prev_gains', 'same_argument_objects',
                     'eliminator_mixed_candidates', 'reject:candidate_error', 'reject:candidate_error_only',
                     'reject:candidate_error_before_vote_error', 'reject:vote_error_before_candidate_error', 'reject:vote_error',
                     'reject:none', 'score_params_underscored', 'stv_dist_no_quota_partial_caps', 'stv_dist_no_quota_none_caps', 'stv_dist_no_quota_full_caps',
                     'stv_dist_quota_partial_caps', 'stv_dist_quota_none_caps', 'stv_dist_quota:noquota', 'stv_dist_quota:droopname',
                     'stv_dist_quota:harecallable', 'stv_dist_quota:constant', 'foreign_first:other_parameters', 'hash_alike', 'hash_alike:mersenne', 'hash_alike:neg', 'hash_alike:key_order', 'hash_alike:numtype', 'module_function',
                     'ctor_param_nondefault', 'names:int0', 'names:empty0', 'names:person', 'shared_rank3', 'zero_votes2',
                     'name_clash', 'prev_absent_party', 'carried_allocation', 'carried:transfer', 'carried:subtract',
                     'carried:next_count', 'carried:stepped', 'carried_exhausted_pile_given', 'carried_exhausts_more',
                     'carried_same_objects_twice'] + ['num:' + m for m in NUM_MODES] + ['foreign_first:' + w for w in
                                                                                ('TieBreaking', 'PostConverted', 'PreConverted', 'FixedSeatCount')]


def _mk(targets, calls, tags):
    return {'op': 'history', 'targets': targets, 'calls': calls, '_tags': sorted(set(tags))}


def _tag_calls(TG, targets, calls, tags):
    tags = list(tags)
    for c in calls:
        t = TG[targets[c['t']]]
        k = c.get('k', {})
        if c['m'] in ('evaluate', 'calculate') and 'prev_gains' not in k and 'max_seats' not in k:
            tags.append('defaults_used')
        if 'prev_gains' in k:
            tags.append('prev_gains_given')
            if any(isinstance(v, dict) and 'D' in v for _, v in k['prev_gains'].get('D', [])):
                tags.append('nested_prev_gains')
        if t.get('score_grid'):
            tags.append('score_params_underscored')
        if t.get('eliminator'):
            tags.append('eliminator_mixed_candidates')
        if t.get('rounds') and c.get('_form'):
            tags.append('votes_form:' + c['_form'])
        if t.get('nested_depth'):
            tags.append(f"nested_depth{t['nested_depth']}")
            if 'prev_gains' in k:
                tags.append(f"nested_depth{t['nested_depth']}_prev_gains")
        if isinstance(c.get('same_as'), int):
            tags.append('same_argument_objects')
        if c.get('_carried'):
            tags += ['carried_allocation'] + list(c['_carried'])
            if any(x == 'carried:transfer' or x == 'carried:next_count' or x == 'carried:subtract' for x in c['_carried']):
                tags.append('carried_exhausted_pile_given')
            if isinstance(c.get('same_as'), int):
                tags.append('carried_same_objects_twice')
        if t.get('stv_grid') and c.get('_stv'):
            tags.append(f"stv_dist_{'no_quota' if t['stv_grid'] == 'noquota' else 'quota'}_{c['_stv']}_caps")
            tags.append('stv_dist_quota:' + t['stv_grid'])
        if t.get('seed') is not None:
            tags.append('seeded_random')
        if t.get('singleton'):
            tags.append('singleton')
        if t.get('model'):
            tags.append('model:' + t['model'])
            if t['model'] in ('rankval', 'scoreval'):
                tags.append('checker_materialised')
    if len(set(c['t'] for c in calls)) > 1:
        tags.append('interleaved_objects')
    return tags


def _history(rng, TG, name, n=None):
    t = TG[name]
    n = n or rng.randint(2, 6)
    calls = []
    for _ in range(n):
        c = t['gen'](rng)
        c['t'] = 0
        calls.append(c)
        if rng.random() < 0.15 and len(calls) < n:       # the same call again: "nor on how often it has been called"
            calls.append(json.loads(json.dumps(c)))
    return calls[:6]


RANDOM_FAMILY = ['Sortitor', 'Sortitor:seed8', 'Sortitor:unseeded', 'RandomUnrankedBallotSelector',
                 'RandomUnrankedBallotSelector:unseeded', 'Hare', 'Hare:unseeded', 'TieBreaking:sortitor',
                 'TransferableVoteSelector:hare', 'TransferableVoteDistributor:hare', 'TransferableVoteSelector:hare_unseeded']


def generate(rng, tier):
    TG = TARGETS()
    reps = 3 if tier == 'quick' else 20
    names = list(TG)
    # (1) every class / singleton, single shared instance
    for name in names:
        for _ in range(reps):
            calls = _history(rng, TG, name)
            yield _mk([name], calls, _tag_calls(TG, [name], calls, ['every_class']))
    # (2) directed: PAV cache — small seat count after a large one and the other way round
    for _ in range(12 if tier == 'quick' else 200):
        cands = CN[:rng.randint(3, 4)]
        seats = [rng.randint(1, 3) for _ in range(rng.randint(2, 6))]
        if rng.random() < 0.7:
            seats[0] = rng.randint(2, 3)
            seats[-1] = 1
        calls = [dict(call('evaluate', g_approval(rng, cands), s), t=0) for s in seats]
        tags = ['pav_directed']
        if any(b > max(seats[:i], default=0) for i, b in enumerate(seats) if i > 0):
            tags.append('pav_cache_grows')
        if any(b < max(seats[:i], default=0) for i, b in enumerate(seats) if i > 0):
            tags.append('pav_small_after_large')
        yield _mk(['ProportionalApproval'], calls, _tag_calls(TG, ['ProportionalApproval'], calls, tags))
    # (3) directed: Borda scorer — profiles with different numbers of candidates on one converter
    for _ in range(12 if tier == 'quick' else 200):
        name = rng.choice(['RankedToPositionalVotes', 'RankedToPositionalVotes:base0'])
        calls = []
        sizes = []
        for _ in range(rng.randint(2, 6)):
            k = rng.randint(1, 5)
            sizes.append(k)
            v = g_ranked(rng, CN[:k])
            if rng.random() < 0.1:       # malformed: a ballot naming a candidate more often than there are candidates
                v = D([(T([CN[0]] * rng.randint(2, 3)), 2)])
            calls.append(dict(call('convert', v), t=0))
        tags = ['borda_directed'] + (['borda_n_changes'] if len(set(sizes)) > 1 else [])
        yield _mk([name], calls, _tag_calls(TG, [name], calls, tags))
    # (4) interleaved objects: random components sharing the global RNG, singletons next to their users
    pools = [RANDOM_FAMILY,
             ['STAR', 'singleton:condorcet.EVALUATORS[schulze]', 'Schulze'],
             ['STAR:rp', 'singleton:condorcet.EVALUATORS[rankedpairs_winvotes]'],
             ['Benham', 'singleton:Benham.CONDO', 'singleton:sequential.RANKED_SUBSETTER', 'TidemanAlternative',
              'singleton:sequential.RANKED_TO_CONDORCET', 'singleton:TidemanAlternative.default_set_selector', 'Baldwin'],
             ['TransferableVoteSelector', 'TransferableVoteDistributor', 'singleton:sequential.DEFAULT_TRANSFERER'],
             ['Conditioned', 'ByConstituency:apportioned', 'singleton:core.DEFAULT_SUBSETTER', 'TieBreaking'],
             ['HighestAverages', 'MultistageDistributor', 'LargestRemainder', 'QuotaDistributor', 'AdjustedSeatCount'],
             ['IndividualToPartyVotes', 'singleton:convert.DEFAULT_MAPPER', 'GroupVotesByParty'],
             ['RankedToPositionalVotes', 'Baldwin', 'PreConverted:borda', 'Chain:borda'],
             names]
    for _ in range(40 if tier == 'quick' else 800):
        pool = rng.choice(pools)
        targets = rng.sample(pool, min(len(pool), rng.randint(2, 3)))
        calls = []
        for _ in range(rng.randint(3, 6)):
            ti = rng.randrange(len(targets))
            c = TG[targets[ti]]['gen'](rng)
            c['t'] = ti
            calls.append(c)
        yield _mk(targets, calls, _tag_calls(TG, targets, calls, ['pool'] + (['model:rng'] if pool is RANDOM_FAMILY else [])))
    # (5) seeded random components on their own: the reseeding state machine
    for name in [n for n in names if TG[n].get('seed') is not None]:
        for _ in range(3 if tier == 'quick' else 30):
            calls = _history(rng, TG, name)
            yield _mk([name], calls, _tag_calls(TG, [name], calls, ['model:rng']))
    # (5b) directed: every code path of a seeded component that draws, interleaved with other users of the global generator
    yield from _rng_directed(rng, TG, 6 if tier == 'quick' else 60)
    # (5c) foreign object first: a differently configured object of the same class tree is evaluated BEFORE the object under
    # test, in a fresh interpreter; reference = the object under test alone in another fresh interpreter
    yield from _foreign_first(rng, TG, 24 if tier == 'quick' else 150)
    # (5d) state between calls, per target: after an exception / refusal, with prev_gains first, larger then smaller
    yield from _state_directed(rng, TG, names if tier == 'quick' else names * 4)
    yield from _stv_refusals(rng, TG, 20 if tier == 'quick' else 200)
    # (5d') the transferable vote distributor called directly: every quota kind x caps none / partial / full, several calls
    for name in [n for n in names if TG[n].get('stv_grid')]:
        for _ in range(8 if tier == 'quick' else 60):
            calls = [dict(TG[name]['gen'](rng), t=0) for _ in range(rng.randint(2, 4))]
            yield _mk([name], calls, _tag_calls(TG, [name], calls, ['stv_grid']))
    # (5d'') score family with min_count > 0 etc.: several calls on one instance, an under-scored candidate in the tie-break
    for name in [n for n in names if TG[n].get('score_grid')]:
        for _ in range(6 if tier == 'quick' else 50):
            calls = [dict(TG[name]['gen'](rng), t=0) for _ in range(rng.randint(2, 4))]
            yield _mk([name], calls, _tag_calls(TG, [name], calls, ['score_grid']))
    # (5d5) per-round vote lists in every form, several calls on one distributor
    for name in [n for n in names if TG[n].get('rounds')]:
        for _ in range(8 if tier == 'quick' else 60):
            calls = [dict(TG[name]['gen'](rng), t=0) for _ in range(rng.randint(2, 5))]
            yield _mk([name], calls, _tag_calls(TG, [name], calls, ['rounds_directed']))
    # (5d4) nesting depth 3 / 4, the caller passing the SAME votes / prev_gains / max_seats objects twice
    for name in [n for n in names if TG[n].get('nested_depth')]:
        for _ in range(4 if tier == 'quick' else 30):
            c0 = dict(TG[name]['gen'](rng), t=0)
            calls = [c0, dict(json.loads(json.dumps(c0)), same_as=0), dict(TG[name]['gen'](rng), t=0),
                     dict(json.loads(json.dumps(c0)), same_as=0)]
            yield _mk([name], calls, _tag_calls(TG, [name], calls, ['nested_directed']))
    # (5d6) allocations carried over from earlier counts (exhausted pile present, a further elimination exhausting more
    # ballots), handed to transfer / subtract / next_count directly and to the stepped counting protocol; the SAME allocation
    # object handed in twice, another allocation in between
    for name in [n for n in names if TG[n].get('carried')]:
        for j in range(4 if tier == 'quick' else 40):
            g = TG[name]['gen']
            c0 = dict(g(rng, carried='weakest' if j % 2 else True), t=0)
            calls = [c0, dict(json.loads(json.dumps(c0)), same_as=0), dict(g(rng, carried=True), t=0),
                     dict(json.loads(json.dumps(c0)), same_as=0)]
            yield _mk([name], calls, _tag_calls(TG, [name], calls, ['carried_directed']))
    # the same for a sample of all other targets: one argument object, two calls
    for name in rng.sample(names, 60 if tier == 'quick' else len(names)):
        c0 = dict(TG[name]['gen'](rng), t=0)
        calls = [c0, dict(json.loads(json.dumps(c0)), same_as=0)]
        yield _mk([name], calls, _tag_calls(TG, [name], calls, ['same_objects_twice']))
    # (5d''') vote eliminators: both rejection routes in every order
    for name in [n for n in names if TG[n].get('eliminator')]:
        for _ in range(3 if tier == 'quick' else 30):
            calls = [dict(TG[name]['gen'](rng), t=0) for _ in range(rng.randint(2, 3))]
            yield _mk([name], calls, _tag_calls(TG, [name], calls, ['eliminator_directed']))
    # (5e) inputs that hash alike or are equal up to key order, against an isolated reference
    yield from _hash_alike(rng, TG, 120 if tier == 'quick' else 800)
    # (6) a class found by reflection that the table does not know: try it with no arguments on simple votes
    for qn in untabled_classes():
        yield _mk(['Plurality'], [dict(c_eval_simple_sel(rng), t=0)], ['untabled_class:' + qn])
    if tier == 'thorough':
        yield from _exhaustive(TG)


def _odd_shared(rng):
    """(sharers, count) with a count the sharers cannot split evenly: the remainder is drawn"""
    k = rng.choice([2, 2, 3])
    n = rng.choice([x for x in range(1, 14) if x % k])
    return rng.sample(['c0', 'c1', 'c2', 'c3'], k), n


def _rng_calls(rng):
    """target -> directed call generators, one per draw site"""
    def transfer_shared(r):
        sh, n = _odd_shared(r)
        pairs = [('x', D([(T(['x', S(sorted(sh))]), n)]))] + [(c, D([(T([c]), r.randint(1, 4))])) for c in sh]
        return call('transfer', D(pairs), L(['x']))

    def stv_shared_first(r):          # shared FIRST rank: split in initial_allocation, no quota subtraction before it
        sh, n = _odd_shared(r)
        rest = [c for c in ['c0', 'c1', 'c2', 'c3'] if c not in sh][:1]
        pairs = [(T([S(sorted(sh))]), n)] + [(T([c]), 3) for c in sh] + [(T([c]), 4) for c in rest]
        return call('evaluate', D(pairs), 1)

    def stv_elim_shared(r):           # nobody reaches the quota: the weakest is eliminated, its ballots go to a shared rank
        sh, n = _odd_shared(r)
        n = min(n, 5) if min(n, 5) % len(sh) else 1
        pairs = [(T(['x', S(sorted(sh))]), n)] + [(T([c]), 6 + i) for i, c in enumerate(sh)]
        return call('evaluate', D(pairs), 1)

    def stv_surplus(r):               # a candidate over the quota with two seats: Hare._subtract draws the ballots to discard
        return call('evaluate', D([(T(['c0', 'c1']), r.randint(9, 12)), (T(['c1']), 3), (T(['c2']), 4),
                                   (T(['c0', 'c2']), r.randint(1, 3))]), 2)

    def stv_surplus_shared(r):        # surplus transferred to a shared rank: both draw sites in one evaluation
        return call('evaluate', D([(T(['c0', S(['c1', 'c2'])]), r.choice([9, 11, 13])), (T(['c1']), 3), (T(['c2']), 4)]), 2)

    def sortition(r):
        return call('evaluate', D([('p', 5), ('q', 4), ('r', 3), ('s', 2)]), r.randint(1, 3))

    def ballots_frac(r):
        return call('evaluate', D([('p', F(Fraction(5, 2))), ('q', 4), ('r', F(Fraction(1, 3)))]), r.randint(1, 2))

    def tie(r):
        return call('evaluate', D([('p', 5), ('q', 5), ('r', 5), ('s', 2)]), r.randint(1, 2))

    def ballots_float(r):             # float counts: util._select_n_random_float (random.choices), the inexact branch
        return call('evaluate', D([('p', {'fl': '5.5'}), ('q', {'fl': repr(r.choice([4.0, 4.25, 1.4]))}), ('r', {'fl': '3.0'}),
                                   ('s', 2)]), r.randint(1, 3))

    def sortition_float(r):
        return call('evaluate', D([('p', {'fl': '5.5'}), ('q', {'fl': '4.25'}), ('r', {'fl': '0.5'})]), r.randint(1, 2))

    stv = [stv_shared_first, stv_elim_shared, stv_surplus, stv_surplus_shared]
    return {'Hare': [transfer_shared], 'TransferableVoteSelector:hare': stv, 'TransferableVoteDistributor:hare': stv,
            'Sortitor': [sortition, sortition_float], 'Sortitor:seed8': [sortition, tie, sortition_float],
            'RandomUnrankedBallotSelector': [sortition, ballots_frac, ballots_float], 'TieBreaking:sortitor': [tie],
            'TieBreaking:ballots': [tie, ballots_float]}


PERTURBERS = ['Sortitor', 'Sortitor:seed8', 'Sortitor:unseeded', 'RandomUnrankedBallotSelector',
              'RandomUnrankedBallotSelector:unseeded', 'Hare', 'Hare:unseeded']


def _rng_directed(rng, TG, reps):
    table = _rng_calls(rng)
    for name, gens in table.items():
        for g in gens:
            for _ in range(reps):
                others = rng.sample([p for p in PERTURBERS if p != name], 2)
                targets = [name] + others
                c0 = dict(g(rng), t=0)
                calls = []
                for k in range(3):            # the same call again and again, each time after another user of the generator
                    ti = 1 + rng.randrange(2)
                    pg = rng.choice(table.get(targets[ti]) or [TG[targets[ti]]['gen']])
                    calls.append(dict(pg(rng), t=ti))
                    calls.append(json.loads(json.dumps(c0)))
                yield _mk(targets, calls, _tag_calls(TG, targets, calls, ['rng_directed', 'model:rng']))


def _foreign_first(rng, TG, n):
    combos = [(o, w) for o in DISPATCH_OUTER for w in DISPATCH_WRAPPERS if w != 'none']
    for k in range(n):
        o, w = combos[k % len(combos)]
        leaves = [l for l in DISPATCH_LEAVES if (o, w, l) in DISPATCH_TARGETS]
        la = rng.choice([l for l in leaves if DISPATCH_LEAVES[l]])            # under test: takes prev_gains / max_seats
        lb = rng.choice([l for l in leaves if not DISPATCH_LEAVES[l]])        # foreign: same wrappers, a leaf that does not
        if k % 4 == 3:
            la, lb = lb, la
        targets = [f'dispatch:{o}:{w}:{la}', f'dispatch:{o}:{w}:{lb}']
        calls = [dict(TG[targets[1]]['gen'](rng), t=1), dict(TG[targets[0]]['gen'](rng), t=0)]
        if rng.random() < 0.4:
            calls += [dict(TG[targets[1]]['gen'](rng), t=1), dict(TG[targets[0]]['gen'](rng), t=0)]
        case = _mk(targets, calls, _tag_calls(TG, targets, calls, ['foreign_first', 'foreign_first:' + w]))
        case['foreign'] = [1]
        yield case
    # the same dimension for other class families: a differently configured object of the same class first
    others = [('Conditioned', 'Conditioned:prevgain'), ('ByConstituency', 'ByConstituency:selector'),
              ('FixedSeatCount', 'FixedSeatCount:dist'), ('PostConverted', 'PreConverted'),
              ('TieBreaking', 'TieBreaking:sortitor'), ('PartyListEvaluator', 'PartyListEvaluator:open'),
              ('RankedToPositionalVotes', 'RankedToPositionalVotes:dowdall'), ('STAR', 'STAR:rp'),
              ('HighestAverages', 'HighestAverages:sl'), ('QuotaDistributor', 'QuotaDistributor:sub'),
              ('RankedVoteValidator', 'RankedVoteValidator:perrank'), ('SubsettedVotes', 'SubsettedVotes:ranked')]
    by_cls = {}
    for nm, t in TG.items():
        if not nm.startswith(('dispatch:', 'fn:', 'singleton:')) and not t.get('model') and t.get('seed') is None and not t.get('random'):
            by_cls.setdefault(t['cls'], []).append(nm)
    multi = [v for v in by_cls.values() if len(v) >= 2]
    for k in range(max(8, n)):          # two differently parameterised objects of one class, the foreign one first
        a, b = rng.sample(multi[k % len(multi)], 2)
        calls = [dict(TG[b]['gen'](rng), t=1), dict(TG[a]['gen'](rng), t=0), dict(TG[b]['gen'](rng), t=1), dict(TG[a]['gen'](rng), t=0)]
        case = _mk([a, b], calls, _tag_calls(TG, [a, b], calls, ['foreign_first', 'foreign_first:other_parameters']))
        case['foreign'] = [1]
        yield case
    for k in range(max(4, n // 4)):
        a, b = others[k % len(others)]
        if rng.random() < 0.5:
            a, b = b, a
        calls = [dict(TG[b]['gen'](rng), t=1), dict(TG[a]['gen'](rng), t=0), dict(TG[a]['gen'](rng), t=0)]
        case = _mk([a, b], calls, _tag_calls(TG, [a, b], calls, ['foreign_first']))
        case['foreign'] = [1]
        yield case



M61 = 2 ** 61 - 1       # hash(x) == hash(x + M61) for CPython ints; hash(-1) == hash(-2)


def _bump_count(arg, delta=None, neg=False):
    """a copy of a tagged votes argument in which the first integer count is replaced by a value that HASHES alike"""
    done = [False]

    def go(x):
        if isinstance(x, dict) and 'D' in x:
            out = []
            for k, v in x['D']:
                if not done[0] and isinstance(v, int) and not isinstance(v, bool):
                    done[0] = True
                    v = (-2 if neg else v + M61)
                elif isinstance(v, dict):
                    v = go(v)
                out.append([k, v])
            return {'D': out}
        return x
    a = go(json.loads(json.dumps(arg)))
    return a if done[0] else None


def _retype_counts(arg, kind):
    """the same VALUES in another numeric type (1 == Fraction(1) == Decimal(1) == 1.0 and they hash alike)"""
    hit = [False]

    def conv(v):
        if isinstance(v, int) and not isinstance(v, bool):
            hit[0] = True
            return {'F': f'{v}/1'} if kind == 0 else {'X': str(v)} if kind == 1 else {'fl': repr(float(v))}
        return v

    def go(x):
        if isinstance(x, dict) and 'D' in x:
            return {'D': [[k, go(v) if isinstance(v, dict) else conv(v)] for k, v in x['D']]}
        if isinstance(x, dict) and 'L' in x:
            return {'L': [conv(v) for v in x['L']]}
        return x
    a = go(json.loads(json.dumps(arg)))
    return a if hit[0] else None


def _neg_count(arg):
    """the first integer count set to -1 (partner of -2)"""
    a = json.loads(json.dumps(arg))
    if isinstance(a, dict) and 'D' in a and a['D'] and isinstance(a['D'][0][1], int):
        a['D'][0][1] = -1
        return a
    return None


HASH_TARGETS = ['fn:core.get_n_best', 'fn:util.sorted_votes', 'fn:util.descending_dict', 'Plurality', 'HighestAverages',
                'LargestRemainder', 'QuotaSelector:select', 'InputOrderSelector', 'TieBreaking', 'PureProportionality',
                'fn:util.distribution_to_selection', 'AbsoluteThreshold', 'RelativeThreshold', 'InvertedSimpleVotes',
                'fn:util.exact_mean', 'fn:util.sum_dicts', 'RoundedVotes']


def _hash_alike(rng, TG, n):
    """consecutive inputs that hash alike (x vs x + 2^61 - 1, -1 vs -2), are equal up to key order, or are equal in value
    but of another numeric type; the reference for the second call is the call alone in a fresh interpreter (a module-level
    memo is shared by 'fresh' instances too)"""
    names = list(TG)
    kinds = ['mersenne', 'neg', 'key_order', 'numtype0', 'numtype1', 'numtype2']
    plan = [(nm, kd) for nm in HASH_TARGETS for kd in kinds]
    plan += [(rng.choice(names), rng.choice(['mersenne', 'numtype0', 'numtype1', 'numtype2'])) for _ in range(max(0, n - len(plan)))]
    for name, kind in plan:
        t = TG[name]
        c = dict(t['gen'](rng), t=0)
        if not c['a']:
            continue
        a0 = c['a'][0]
        if kind.startswith('numtype'):
            # the Rat models of PAV / Borda cover int and Fraction counts (Decimal x Fraction raises TypeError in the library)
            b0 = _retype_counts(a0, 0 if t.get('model') in ('pav', 'borda') else int(kind[-1]))
            kind = 'numtype'
        elif kind == 'mersenne':
            b0 = _bump_count(a0)
        elif kind == 'neg':
            a0 = _neg_count(a0)
            b0 = _bump_count(a0, neg=True) if a0 else None
        else:
            b0 = {'D': list(reversed(a0['D']))} if isinstance(a0, dict) and len(a0.get('D', [])) > 1 else None
        if b0 is None or a0 is None:
            continue
        ca = dict(c, a=[a0] + c['a'][1:])
        cb = dict(json.loads(json.dumps(c)), a=[b0] + c['a'][1:])
        calls = [ca, cb] if rng.random() < 0.5 else [cb, ca]
        case = _mk([name], calls, _tag_calls(TG, [name], calls, ['hash_alike', 'hash_alike:' + kind]))
        case['ref_calls'] = [1]
        yield case


def _bad_variant(rng, c):
    """a call that is expected to RAISE: empty votes, a non-mapping, or an absurd seat count"""
    c = json.loads(json.dumps(c))
    r = rng.random()
    if c['a'] and r < 0.45 and isinstance(c['a'][0], dict) and 'D' in c['a'][0]:
        c['a'][0] = {'D': []}
    elif c['a'] and r < 0.8:
        c['a'][0] = rng.choice([None, 'oops', 7])
    elif len(c['a']) > 1 and isinstance(c['a'][1], int):
        c['a'][1] = rng.choice([-1, 0])
    elif c['a']:
        c['a'][0] = None
    return c


def _size(c):
    return len(json.dumps(c['a'][0])) if c['a'] else 0


def _state_directed(rng, TG, names):
    """per target: (i) a raising call, then the compared calls; (ii) prev_gains / max_seats first, then the same call without;
    (iii) a larger input, then a smaller one, then the larger again"""
    for name in names:
        t = TG[name]
        c = dict(t['gen'](rng), t=0)
        bad = dict(_bad_variant(rng, c), t=0)
        if t.get('model') in ('pav', 'borda'):          # what the Lean models can be asked: empty votes (a refusal / empty result)
            bad = dict(json.loads(json.dumps(c)), a=[{'D': []}] + c['a'][1:])
        if t.get('model') not in ('rankval', 'scoreval'):
            calls = [bad, c, json.loads(json.dumps(c))]
            yield _mk([name], calls, _tag_calls(TG, [name], calls, ['raise_first']))
        withkw = None
        for _ in range(8):
            g = dict(t['gen'](rng), t=0)
            if g.get('k') and any(k in g['k'] for k in ('prev_gains', 'max_seats')):
                withkw = g
                break
        if withkw is not None:
            bare = dict(json.loads(json.dumps(withkw)), k={k: v for k, v in withkw['k'].items() if k not in ('prev_gains', 'max_seats')})
            try:
                required = t['name'] in ('AdjustedSeatCount', 'AdjustedSeatCount:level', 'AllowOverhang', 'LevelOverhang',
                                         'LevelOverhangByConstituency', 'SeatCountCalculator', 'PreviousGainThreshold')
            except Exception:
                required = False
            if not required:
                calls = [withkw, bare, json.loads(json.dumps(withkw)), json.loads(json.dumps(bare))]
                yield _mk([name], calls, _tag_calls(TG, [name], calls, ['prev_gains_then_none']))
        gs = sorted([dict(t['gen'](rng), t=0) for _ in range(4)], key=_size)
        if _size(gs[-1]) > _size(gs[0]):
            calls = [gs[-1], gs[0], json.loads(json.dumps(gs[-1]))]
            yield _mk([name], calls, _tag_calls(TG, [name], calls, ['larger_then_smaller']))


def _stv_refusals(rng, TG, n):
    """a refused election (unbreakable tie / tied PAV alternatives / Condorcet paradox) and then an ordinary one"""
    table = {
        'TransferableVoteSelector': (D([(T(['c0']), 1), (T(['c1']), 1)]), 1),
        'TransferableVoteSelector:irv': (D([(T(['c0']), 2), (T(['c1']), 2), (T(['c2']), 2)]), 1),
        'TransferableVoteDistributor': (D([(T(['c0']), 3), (T(['c1']), 3)]), 1),
        'TransferableVoteSelector:hare': (D([(T(['c0']), 1), (T(['c1']), 1)]), 1),
        'ProportionalApproval': (D([(S(['c0']), 2), (S(['c1']), 2)]), 1),
        'SequentialProportionalApproval': (D([(S(['c0']), 2), (S(['c1']), 2)]), 1),
        'KemenyYoung': (D([(T(['c0', 'c1']), 2), (T(['c1', 'c2']), 2), (T(['c2', 'c0']), 2)]), 1),
        'QuotaSelector': (D([('c0', 5), ('c1', 5), ('c2', 5)]), 2),
        'LargestRemainder': (D([('c0', 0), ('c1', 0)]), 2),
        'Benham': (D([(T(['c0']), 1), (T(['c1']), 1)]), 1),
    }
    for k in range(n):
        name = list(table)[k % len(table)]
        v, seats = table[name]
        t = TG[name]
        ok = dict(t['gen'](rng), t=0)
        calls = [dict(call('evaluate', v, seats), t=0), ok, dict(call('evaluate', v, seats), t=0), json.loads(json.dumps(ok))]
        yield _mk([name], calls, _tag_calls(TG, [name], calls, ['refusal_first']))


def _exhaustive(TG):
    """small-scope exhaustive histories for the modelled machines (thorough tier)"""
    ap = [D([(S(['c0', 'c1']), 3), (S(['c0']), 2)]),
          D([(S(['c0', 'c1']), 2), (S(['c2']), 2), (S(['c1', 'c2']), 1)]),
          D([(S(['c0', 'c1', 'c2']), 1), (S(['c3']), 1)])]
    pav_calls = [call('evaluate', v, n) for v in ap for n in (1, 2, 3)]
    for k in (1, 2, 3):
        for h in itertools.product(pav_calls, repeat=k):
            calls = [dict(json.loads(json.dumps(c)), t=0) for c in h]
            yield _mk(['ProportionalApproval'], calls, _tag_calls(TG, ['ProportionalApproval'], calls, ['exhaustive']))
    rp = [D([(T(['c0']), 2)]),
          D([(T(['c0', 'c1']), 1), (T(['c1']), 2)]),
          D([(T(['c0', 'c1', 'c2']), 2), (T(['c1', S(['c0', 'c2'])]), 1)]),
          D([(T(['c3', 'c2', 'c1', 'c0']), 1), (T([S(['c0', 'c1']), 'c2']), 3)]),
          D([(T(['c0', 'c0', 'c0']), 1)])]
    for name in ('RankedToPositionalVotes', 'RankedToPositionalVotes:base0'):
        for k in (1, 2, 3):
            for h in itertools.product(rp, repeat=k):
                calls = [dict(call('convert', json.loads(json.dumps(v))), t=0) for v in h]
                yield _mk([name], calls, _tag_calls(TG, [name], calls, ['exhaustive']))
    rb = [T(['c0']), T(['c0', 'c1']), T([S(['c0', 'c1'])]), T(['c0', S(['c1', 'c2']), 'c3']), T(['c0', 'c1', 'c2', 'c3']),
          T(['c0', 'c0'])]
    for name in ('RankedVoteValidator', 'RankedVoteValidator:perrank'):
        for k in (1, 2, 3):
            for h in itertools.product(rb, repeat=k):
                calls = [dict(call('validate', json.loads(json.dumps(v))), t=0) for v in h]
                yield _mk([name], calls, _tag_calls(TG, [name], calls, ['exhaustive']))
    sb = [S([]), S([T(['c0', 1])]), S([T(['c0', 3]), T(['c1', 4])]), S([T(['c0', 9]), T(['c1', 0]), T(['c2', 1])]),
          S([T(['c0', 1]), T(['c0', 2])]), S([T(['c0', 2]), T(['c1', 2]), T(['c2', 2]), T(['c3', 2])])]
    for name in ('ScoreVoteValidator', 'ScoreVoteValidator:persize', 'RangeVoteValidator', 'EnumScoreVoteValidator'):
        for k in (1, 2, 3):
            for h in itertools.product(sb, repeat=k):
                calls = [dict(call('validate', json.loads(json.dumps(v))), t=0) for v in h]
                yield _mk([name], calls, _tag_calls(TG, [name], calls, ['exhaustive']))


def untabled_classes():
    """public concrete classes with an evaluate / convert / validate / ... method that the table does not construct"""
    TG = TARGETS()
    top = {t['cls'] for t in TG.values()}
    base = {'Converter', 'SimpleVoteTransferer', 'SeatlessSelector', 'Selector'}      # bases that only raise NotImplementedError
    out = []
    for mod in _mods():
        for n, c in inspect.getmembers(mod, inspect.isclass):
            if c.__module__ != mod.__name__ or inspect.isabstract(c) or n in base:
                continue
            if any(hasattr(c, m) for m in ('evaluate', 'convert', 'validate', 'calculate', 'subset', 'transfer')):
                if c not in top:
                    out.append(f'{mod.__name__}.{n}')
    return out


_generate_str = generate


def _num_value(v, mode, idx):
    """the count v in another numeric type / magnitude (ties between equal counts are preserved)"""
    if mode == 'frac':
        return F(Fraction(v * 2, 3))
    if mode == 'fracint':
        return {'F': f'{v}/1'}                       # a Fraction with an integer value
    if mode == 'dec':
        return {'X': f'{v}.25'}
    if mode == 'dec7':
        return {'X': f'{v}.0000001'}                  # reduced denominator above 10^6
    if mode == 'big':
        return v * 10 ** 18 + 1
    if mode == 'big53':
        return v + 2 ** 53 - 1
    if mode == 'huge':
        return v * 10 ** 30
    if mode == 'float':
        return {'fl': repr(v * 1.4)}
    return v


def _num_transform(x, mode, state):
    """apply a numeric mode to the counts (integer leaf values of the dicts) of a tagged votes argument"""
    if isinstance(x, dict) and 'D' in x:
        out = []
        for k, v in x['D']:
            if isinstance(v, int) and not isinstance(v, bool):
                state[0] += 1
                if mode == 'zero':
                    zs = [0, {'F': '0/1'}] if len(state) > 1 and state[1] else [0, {'F': '0/1'}, {'X': '0'}]
                    v = zs[state[0] % len(zs)] if state[0] % 2 else v
                else:
                    v = _num_value(v, mode, state[0])
            elif isinstance(v, dict):
                v = _num_transform(v, mode, state)
            out.append([k, v])
        return {'D': out}
    return x


def _post_tags(case):
    """tags read off the finished history: which structural shapes it contains"""
    tags = []
    txt = json.dumps(case['calls'])
    for c in case['calls']:
        a0 = c['a'][0] if c['a'] else None
        if isinstance(a0, dict) and 'D' in a0:
            flat = [v for _, v in a0['D']]
            if sum(1 for v in flat if v == 0 or v in ({'F': '0/1'}, {'X': '0'})) >= 2:
                tags.append('zero_votes2')
            keys = [k for k, _ in a0['D'] if isinstance(k, str)]
            inner = [k for _, v in a0['D'] if isinstance(v, dict) and 'D' in v for k, _ in v['D'] if isinstance(k, str)]
            if set(keys) & set(inner):
                tags.append('name_clash')
            pg = c.get('k', {}).get('prev_gains')
            if pg and keys and any(isinstance(k, str) and k not in keys for k, _ in pg.get('D', [])):
                tags.append('prev_absent_party')
        if isinstance(a0, dict) and any(isinstance(k, dict) and 'T' in k and any(isinstance(i, dict) and len(i.get('S', [])) >= 3
                                                                            for i in k['T'])
                                        for k, _ in a0.get('D', []) if isinstance(a0.get('D'), list)):
            tags.append('shared_rank3')
    sizes = {}
    for c in case['calls']:
        sz = _size(c)
        if c['t'] in sizes and sz < sizes[c['t']]:
            tags.append('smaller_after_larger')
        sizes[c['t']] = max(sz, sizes.get(c['t'], 0))
    return tags


def generate(rng, tier):       # noqa: naming and numeric modes, structural tags
    TG = TARGETS()
    for case in _generate_str(rng, tier):
        ts = [TG[n] for n in case['targets']]
        models = {t.get('model') for t in ts}
        r = rng.random()
        if r < 0.3 and not any(t.get('objects') for t in ts):
            # the validator models assume candidates the nominator accepts: it takes strings, not ints;
            # Person objects only where no Lean model reads the candidate ids back
            mode = 'int0' if r < 0.1 else 'empty0' if r < 0.2 else 'person'
            if models & {'rankval', 'scoreval'} and mode == 'int0':
                mode = 'empty0'
            # …and not against a reference from another interpreter (other objects, other addresses, other set order)
            if mode == 'person' and (models & {'pav', 'borda', 'rankval', 'scoreval'} or case.get('foreign') is not None
                                     or case.get('ref_calls') is not None):
                mode = 'empty0'
            case['names'] = mode
            case['_tags'] = case['_tags'] + ['names:' + mode]
        r = rng.random()
        if r < 0.3 and 'hash_alike' not in case['_tags']:
            mode = NUM_MODES[int(r / 0.3 * len(NUM_MODES)) % len(NUM_MODES)]
            # score aggregation materialises one list element per vote (known, DESIGN 11.1): no big counts on score ballots
            score = '{"S": [{"T": [' in json.dumps(case['calls'])
            # PAV multiplies Fraction coefficients with the counts: Decimal counts raise TypeError there (a numeric-type
            # limitation of the library, not a matter of state), which the Rat model does not mirror
            pav_dec = 'pav' in models and mode in ('dec', 'dec7')
            if not (mode == 'float' and models & {'pav', 'borda'}) and not (score and mode in ('big', 'big53', 'huge')) \
                    and not pav_dec:
                st = [1 if 'pav' in models else 0, bool(models & {'pav', 'borda'})]      # [counter, no Decimal zeros]
                for c in case['calls']:
                    if c['a']:
                        c['a'][0] = _num_transform(c['a'][0], mode, st)
                if st[0] > (1 if 'pav' in models else 0):
                    case['_tags'] = case['_tags'] + ['num:' + mode]
        if any(t.get('param') or ':' in t['name'] and not t['name'].startswith(('fn:', 'singleton:', 'dispatch:', 'scorer:'))
               for t in ts):
            case['_tags'] = case['_tags'] + ['ctor_param_nondefault']
        if any(t.get('function') for t in ts):
            case['_tags'] = case['_tags'] + ['module_function']
        case['_tags'] = sorted(set(case['_tags'] + _post_tags(case)))
        yield case


def nontrivial(case, obs):
    return 'err' not in obs and len(case['calls']) >= 2 and any('ok' in o for o in obs['shared'])


RULE = ('call sequences of length 2-6 (profiles of 2-5 candidates, 1-5 ballot types, counts from a tie-prone set with occasional '
        'Fractions, seat counts 1-6, flat and nested prev_gains / max_seats given or omitted) on one shared instance vs fresh '
        'instances of every public evaluator / converter / validator / subsetter / transferer class (about 150 configurations) '
        'and of the module-level singletons; pools of 2-3 different objects interleaved in one history (all random components '
        'sharing the global RNG; singletons next to the evaluators that use them). STV allocations handed to transfer / subtract / '
        'next_count directly are, half of the time, allocations carried over from earlier counts (exhausted pile None present, '
        'eliminated candidates still on ballots, truncated ballots that a further elimination exhausts, the same allocation '
        'object handed in twice) and the counting protocol is also stepped count by count on the allocation objects the library '
        'returned (`stepped:` targets). Non-trivial = at least two calls and at least '
        'one call that returns a result; distinct by canonical request.')


# ------------------------------------------------------------------------------------------------
# the Lean state machines on the same histories

def _cid(name):
    if isinstance(name, int):
        return name
    return 0 if name == '' else int(name[1:])


def _bj(x):
    return None if x is None else num_str(Fraction(x))


def _ballot_line(b):
    return [[_cid(c) for c in it['S']] if isinstance(it, dict) else _cid(it) for it in b['T']]


def _machine(case):
    TG = TARGETS()
    ts = [TG[n] for n in case['targets']]
    if len(ts) == 1 and ts[0].get('model'):
        return ts[0]['model']
    if all(t.get('model') == 'dispatch' for t in ts):
        return 'dispatch'
    if any(t.get('seed') is not None for t in ts):
        return 'rng'
    return 'none'


def model_line(case):
    TG = TARGETS()
    m = _machine(case)
    t0 = TG[case['targets'][0]]
    line = {'op': 'history', 'machine': m}
    if m == 'pav':
        line['calls'] = [{'votes': [[sorted(_cid(c) for c in b['S']), num_str(decode(w))] for b, w in c['a'][0]['D']],
                          'n': c['a'][1]} for c in case['calls']]
        if case.get('old'):
            line['old'] = True
    elif m == 'borda':
        line['base'] = t0['base']
        line['calls'] = [[[_ballot_line(b), num_str(decode(w))] for b, w in c['a'][0]['D']] for c in case['calls']]
    elif m == 'rankval':
        cfg = t0['cfg']
        line['cfg'] = {'total': [_bj(x) for x in cfg['total']], 'dflt': [_bj(x) for x in cfg['dflt']],
                       'explicit': [[k, [_bj(x) for x in b]] for k, b in cfg['explicit']]}
        line['calls'] = [_ballot_line(c['a'][0]) for c in case['calls']]
    elif m == 'scoreval':
        cfg = t0['cfg']
        post = dict(cfg['post'])
        if 'bounds' in post:
            post['bounds'] = [_bj(x) for x in post['bounds']]
        if 'levels' in post:
            post['levels'] = [_bj(x) for x in post['levels']]
        line['cfg'] = {'nscorings': [_bj(x) for x in cfg['nscorings']], 'dflt': [_bj(x) for x in cfg['dflt']],
                       'explicit': [[k, [_bj(x) for x in b]] for k, b in cfg['explicit']], 'post': post}
        # the vote is a frozenset of (candidate, score) pairs: identical pairs collapse
        line['calls'] = [sorted([_cid(c), num_str(sc)] for c, sc in decode(c['a'][0])) for c in case['calls']]
    elif m == 'dispatch':
        line['calls'] = [TG[case['targets'][c['t']]]['ev'] for c in case['calls']]
    elif m == 'rng':
        # the blocks are the ones the implementation was OBSERVED to make (shared run): each `random.seed` of the call
        # opens a block, each draw is a request (numbered by its draw site); draws before the first reseed of a call
        # have no counterpart in the model and are flagged by `reseed_contract` in `compare`
        sites = {}
        calls = []
        trace = case.get('_rng') or [[] for _ in case['calls']]
        for c, ev in zip(case['calls'], trace):
            t = TG[case['targets'][c['t']]]
            if t.get('seed') is not None:
                blocks = []
                for e in ev:
                    if e.startswith('s:'):
                        blocks.append([])
                    elif blocks:
                        blocks[-1].append(sites.setdefault(e, len(sites)))
                calls.append({'seed': t['seed'], 'blocks': blocks})
            else:
                calls.append({'other': 1})
        line['calls'] = calls
    return line


def _unmodelled(obs):
    for d in obs['drift']:
        if d['unmodelled']:
            if d['class'] == 'module':
                return f"unmodelled state: module-level data {d['unmodelled']} of the library changed during the history"
            return (f"unmodelled state: attribute(s) {d['unmodelled']} of the shared {d['class']} instance ({d['target']}) "
                    f"changed during call {d['call']} and no state-machine model covers them")
    return None


def _exc_of(o):
    return o.get('exc') if isinstance(o, dict) else None


_DISAGREED = []         # target lists of the histories on which model and implementation disagreed (bias of `search`)


def compare(case, iobs, mobs):
    d = _compare(case, iobs, mobs)
    if d and case['targets'] not in _DISAGREED:
        _DISAGREED.append(case['targets'])
    return d


def search(rng, tier):
    """failing-input search after a broken proof / correspondence: every history runs in a FRESH interpreter (state leaked
    by earlier histories of this process cannot mask the failure), the targets that disagreed first"""
    global _ISOLATE
    _ISOLATE = True
    TG = TARGETS()
    for targets in list(_DISAGREED)[:8]:
        for _ in range(12):
            calls = []
            for _ in range(rng.randint(2, 5)):
                ti = rng.randrange(len(targets))
                c = TG[targets[ti]]['gen'](rng)
                c['t'] = ti
                calls.append(c)
            yield _mk(targets, calls, ['search'])
    yield from _generate_str(rng, 'quick')


def _compare(case, iobs, mobs):
    if 'err' in iobs:
        return None
    un = _unmodelled(iobs)
    if un:
        return un
    m = _machine(case)
    if m == 'none':
        return None if mobs == {'machine': 'none'} else f'unexpected model answer {mobs}'
    outs = mobs['outs']
    if len(outs) != len(case['calls']):
        return 'model answered a different number of calls'
    for i, c in enumerate(case['calls']):
        io, mo = iobs['shared'][i], outs[i]
        where = f'call {i}: '
        if m == 'rng':
            TG = TARGETS()
            t = TG[case['targets'][c['t']]]
            if t.get('seed') is None:
                continue
            for run in ('rng', 'rng_fresh'):
                bad = reseed_contract(t, iobs[run][i])
                if bad:
                    return where + f"{t['name']} is not an execution of the seededStep model ({run[4:] or 'shared'} run): {bad}"
            nblocks = sum(1 for e in iobs['rng'][i] if e.startswith('s:'))
            if len(mo) != nblocks or any(d[:1] != [t['seed']] for blk in mo for d in blk):
                return where + f'model blocks {mo} do not match the observed reseeds of {t["name"]}'
            if io != iobs['fresh'][i]:
                return where + (f'output of the seeded component on the shared generator {json.dumps(io)[:120]} is not the '
                                f'function of (seed, request) the model says it is ({json.dumps(iobs["fresh"][i])[:120]})')
            continue
        if m == 'dispatch':
            if iobs['mstate'][i] != mo:
                return where + (f"accepts_prev_gains / accepts_max_seats of the evaluator inside {case['targets'][c['t']]}: "
                                f"impl={iobs['mstate'][i]} model={mo}")
            continue
        st_i, st_m = iobs['mstate'][i], mobs['states'][i]
        if m == 'pav':
            if st_i['coefs'] != st_m:
                return where + f'_coefs impl={st_i["coefs"]} model={st_m}'
            if 'err' in mo:
                if _exc_of(io) != mo['err']:
                    return where + f'impl={json.dumps(io)[:120]} model={mo}'
                continue
            if 'ok' not in io:
                return where + f'impl={json.dumps(io)[:120]} model={mo}'
            sel = [_cid(x) for x in io['ok']['L']]
            drops = {cc: Fraction(d) for cc, d in mo['drops']}
            if sorted(sel) != sorted(mo['sel']) or set(sel) != set(drops):
                return where + f'elected impl={sel} model={mo["sel"]}'
            seq = [drops[x] for x in sel]
            if any(a < b for a, b in zip(seq, seq[1:])):
                return where + f'order impl={sel} is not by the model\'s satisfaction drops {mo["drops"]}'
        elif m == 'borda':
            if st_i != st_m:
                return where + f'scorer state impl={st_i} model={st_m}'
            if isinstance(mo, dict) and 'err' in mo:
                if _exc_of(io) != mo['err']:
                    return where + f'impl={json.dumps(io)[:120]} model={mo}'
                continue
            if 'ok' not in io:
                return where + f'impl={json.dumps(io)[:120]} model={mo}'
            iv = {_cid(k): Fraction(decode(v)) for k, v in io['ok']['D']}
            mv = {k: Fraction(v) for k, v in mo}
            if iv != mv:
                return where + f'positional votes impl={iv} model={mv}'
        elif m in ('rankval', 'scoreval'):
            if st_i != st_m:
                return where + f'checker store impl={st_i} model={st_m}'
            if mo == 'ok':
                if io != {'ok': None}:
                    return where + f'impl={json.dumps(io)[:120]} model=ok'
            else:
                want = {'VoteError': 'VoteError'}.get(mo['err'], mo['err'])
                if _exc_of(io) != want:
                    return where + f'impl={json.dumps(io)[:120]} model={mo}'
    return None


def signature(case, clause):
    return f"{case.get('op')}:{clause}"


def describe(case):
    TG = TARGETS()
    lines = []
    for i, n in enumerate(case['targets']):
        if i in (case.get('foreign') or []):
            lines.append(f'obj{i} = <{n}>   # FOREIGN object: the reference for the other objects is the same history without '
                         'its calls, in an interpreter that never saw it')
        else:
            lines.append(f'obj{i} = <{n}>   # one shared instance; compared with a fresh instance per call')
    if case.get('names'):
        lines.append(f"# candidate naming mode {case['names']}: 'c3' stands for " + ("3" if case['names'] == 'int0' else "'c3', 'c0' for ''"))
    for c in case['calls']:
        dec = _Dec(case.get('names'))
        args = ', '.join([repr(dec(a)) for a in c['a']] + [f'{k}={dec(v)!r}' for k, v in c.get('k', {}).items()])
        lines.append(f"obj{c['t']}.{c['m']}({args})")
    return '\n'.join(lines)


def shrink_candidates(case):
    global _ISOLATE
    _ISOLATE = True         # candidates (and the final re-run that is written into the replay) run in fresh interpreters
    calls = case['calls']
    # drop a call
    for i in range(len(calls)):
        if len(calls) > 1:
            cs = calls[:i] + calls[i + 1:]
            used = sorted(set(c['t'] for c in cs))
            remap = {t: j for j, t in enumerate(used)}
            def fix(c):
                c = dict(c, t=remap[c['t']])
                sa = c.get('same_as')
                if isinstance(sa, int):
                    if sa == i:
                        del c['same_as']
                    elif sa > i:
                        c['same_as'] = sa - 1
                return c
            cand = dict(case, targets=[case['targets'][t] for t in used], calls=[fix(c) for c in cs])
            if case.get('foreign') is not None:
                cand['foreign'] = [remap[f] for f in case['foreign'] if f in remap]
            if case.get('ref_calls') is not None:
                cand['ref_calls'] = [j - (j > i) for j in case['ref_calls'] if j != i]
            yield cand
    # drop a ballot / dict entry of the first argument, a keyword argument
    for i, c in enumerate(calls):
        for k in list(c.get('k', {})):
            kk = dict(c['k'])
            del kk[k]
            yield dict(case, calls=calls[:i] + [dict(c, k=kk)] + calls[i + 1:])
        if c['a'] and isinstance(c['a'][0], dict) and 'D' in c['a'][0] and len(c['a'][0]['D']) > 1:
            for j in range(len(c['a'][0]['D'])):
                a0 = {'D': c['a'][0]['D'][:j] + c['a'][0]['D'][j + 1:]}
                yield dict(case, calls=calls[:i] + [dict(c, a=[a0] + c['a'][1:])] + calls[i + 1:])


REQUIRED = ['history_independent_pav', 'pav_output_is_spec', 'pav_cache_invariant', 'pav_cache_contents', 'pav_cache_length',
            'pav_repeated_call', 'history_independent_pav_with_borda',
            'history_dependent_pav_old_witness',
            'history_independent_borda', 'borda_output_is_spec', 'borda_state_after', 'history_dependent_borda_setOnce_witness',
            'scorer_raw_protocol_witness',
            'history_independent_seeded', 'seeded_draws_function_of_seed', 'seeded_draws_explicit',
            'history_dependent_unseeded_witness',
            'history_independent_rankval', 'history_independent_scoreval', 'rankval_store_invariant',
            'history_independent_dispatch', 'dispatch_leaves_cache_empty', 'history_dependent_dispatch_cached_witness',
            'dispatch_cached_sound_if_class_determines',
            'history_dependent_counting_factory_witness']
UNPROVED = []
NOT_VERIFIED = [
    'MONITORED, not proved: argument non-mutation (deep ordered snapshot of every argument before / after every call, shared '
    'and fresh runs) — a fact about Python object identity that no Lean model exhibits',
    'MONITORED, not proved: shared default arguments stay empty / unchanged (`__defaults__` and `__kwdefaults__` of every '
    'function of the library compared with their import-time snapshot after every run)',
    'MONITORED, not proved: classes without a state-machine model have no state — `vars(obj)` of every shared instance (with the '
    'data attributes of its classes, shared by all instances) is snapshotted around every call and the module-level data of '
    'the library around every history; a drifting attribute not covered by a model is a broken correspondence',
    'the process-wide `random` generator is modelled abstractly (any state type, any deterministic reseed / draw); that '
    'CPython\'s random.seed(s) fully determines the following draws is assumed',
    'frozenset iteration order (PAV candidate pool, satisfaction-drop dict) is modelled as first-occurrence order; the '
    'comparison with the implementation ignores the order of candidates with equal satisfaction drops',
    'validator models assume candidates the nominator accepts and well-formed (candidate, score) pairs',
    'a fresh instance of a module-level singleton is a deep copy taken before the first call of the process reaches it',
]
TECHNIQUE = ('Lean 4 proofs of history independence of state-machine models (cache invariants as inductive invariants) + '
             'differential run of the models and the implementation on the same call histories + runtime monitors for '
             'argument mutation, shared defaults and unmodelled state')
LEVEL_TEXT = ('Every component of votelib found to carry state between calls (PAV coefficient cache, Borda scorer state written by '
              'the positional converter, the process-wide random generator reseeded by seeded components, the defaultdicts of '
              'magnitude checkers in the ranked / score validators) is modelled as a state machine step : State -> Call -> State x Out '
              'mirroring the code, and history independence (the answer after ANY call history equals the answer of a fresh '
              'instance) is proved for all histories and inputs, together with witnesses that the pre-fix / mutated step functions '
              'are history dependent.  The models are run through the driver on the same call sequences as the implementation and '
              'compared with its observable state (obj._coefs, scorer.n_candidates/_scores, the checker dicts) and outputs.  '
              'Argument non-mutation, empty shared defaults and the absence of state on all other classes are MONITORED on the '
              'implementation (partial: not proved), for every public evaluator / converter / validator class and the module singletons.')
LEVEL_NOTE = ('Trusted: Lean kernel + propext/Classical.choice/Quot.sound; translate.py for borda_scores; the correspondence harness '
              '(bounded by its generator: histories of length <= 6, 2-5 candidates); determinism of random.seed; CPython dict order.')
EXHAUSTIVE = {'thorough': True}
