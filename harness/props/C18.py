"""C18 — evaluation is pure: inputs untouched, no state carried between calls.

Op `history`: a case names a list of TARGETS (public evaluator / converter / validator classes found by
reflection, module-level singletons) and a call sequence of length <= 6.  The implementation runs the sequence
on ONE SHARED instance per target and the same calls on FRESH instances (fresh arguments each time), and
observes: outputs (or exception classes) of both runs, a deep snapshot of every argument before / after each
call, `vars(obj)` of the shared instances before / after each call, the `__defaults__` / `__kwdefaults__`
containers of every function of the library after the run, and — for seeded random components — a repetition of
every call on a second fresh instance.  The oracle states the property on these observations; the Lean
state-machine models (PAV coefficient cache, Borda scorer state, reseeding RNG) are driven through the driver on
the same call sequences and compared with the observable state of the implementation (`obj._coefs`,
`scorer.n_candidates/_scores`) and its outputs.
"""
import sys
import copy
import json
import types
import inspect
import importlib
import itertools
from fractions import Fraction
from decimal import Decimal
from common import *   # noqa

ID = 'C18'
NAMESPACE = 'VL.C18'
LEAN_MODULES = ['VotelibProofs.Props.C18']
GEN_MODULES = ['RankScore']

VOTELIB_MODULES = [
    'votelib.util', 'votelib.candidate', 'votelib.vote', 'votelib.convert', 'votelib.persist',
    'votelib.component.core', 'votelib.component.divisor', 'votelib.component.quota',
    'votelib.component.pairwin_scorer', 'votelib.component.rankscore', 'votelib.component.transfer',
    'votelib.evaluate.core', 'votelib.evaluate.proportional', 'votelib.evaluate.sequential',
    'votelib.evaluate.approval', 'votelib.evaluate.cardinal', 'votelib.evaluate.condorcet',
    'votelib.evaluate.auxiliary', 'votelib.evaluate.openlist', 'votelib.evaluate.threshold',
    'votelib.crit.proportionality',
]


def _mods():
    return [importlib.import_module(m) for m in VOTELIB_MODULES]


# ------------------------------------------------------------------------------------------------
# codec: tagged JSON <-> Python values.  Every call argument is stored in the case in tagged form and decoded
# afresh for every call, so that the shared and the fresh run never share an argument object.
#   int / str / None / bool         themselves
#   {"F": "p/q"}  Fraction          {"X": "1.5"} Decimal
#   {"D": [[k, v], ...]}  dict (insertion order)      {"L": [...]} list     {"T": [...]} tuple
#   {"S": [...]} frozenset          {"O": [kind, name, ...]} candidate object (memoised per decode)

def F(x):
    x = Fraction(x)
    return int(x) if x.denominator == 1 else {'F': f'{x.numerator}/{x.denominator}'}


def D(pairs):
    return {'D': [[k, v] for k, v in pairs]}


def L(xs):
    return {'L': list(xs)}


def T(xs):
    return {'T': list(xs)}


def S(xs):
    return {'S': list(xs)}


class _Dec:
    def __init__(self):
        self.memo = {}

    def obj(self, spec):
        import votelib.candidate as vc
        key = json.dumps(spec)
        if key in self.memo:
            return self.memo[key]
        kind = spec[0]
        if kind == 'Party':
            o = vc.PoliticalParty(spec[1], number=spec[2] if len(spec) > 2 else None)
        elif kind == 'Coalition':
            o = vc.Coalition([self.obj(['Party', p]) for p in spec[2]], name=spec[1])
        elif kind == 'Person':
            party = self.obj(['Party', spec[3]]) if len(spec) > 3 and spec[3] else None
            o = vc.Person(spec[1], number=spec[2] if len(spec) > 2 else None, candidacy_for=party,
                          properties=dict(spec[4]) if len(spec) > 4 else None)
        elif kind == 'Constituency':
            o = vc.Constituency(spec[1])
        elif kind == 'NOTA':
            o = vc.NoneOfTheAbove()
        else:
            raise ValueError(spec)
        self.memo[key] = o
        return o

    def __call__(self, x):
        if isinstance(x, dict):
            (tag, v), = x.items()
            if tag == 'F':
                return Fraction(v)
            if tag == 'X':
                return Decimal(v)
            if tag == 'D':
                return {self._key(k): self(val) for k, val in v}
            if tag == 'L':
                return [self(e) for e in v]
            if tag == 'T':
                return tuple(self(e) for e in v)
            if tag == 'S':
                return frozenset(self(e) for e in v)
            if tag == 'O':
                return self.obj(v)
            raise ValueError(x)
        return x

    def _key(self, k):
        return self(k)


def decode(x):
    return _Dec()(x)


def _name(o):
    import votelib.candidate as vc
    if isinstance(o, vc.CandidateObject.__mro__[0]) and hasattr(o, 'name'):
        return f'{type(o).__name__}:{o.name}'
    return None


def enc(x, ordered=False, _depth=0, _seen=None):
    """canonical JSON-able form of an output / argument / attribute value.
    ordered=False: dict items and set members sorted (outputs); ordered=True: dict insertion order kept
    (argument and state snapshots: reordering a caller's dict counts as mutation)."""
    import votelib.evaluate.core as vcore
    if _seen is None:
        _seen = set()
    if x is None or isinstance(x, (bool, str)):
        return x
    if isinstance(x, int):
        return x
    if isinstance(x, Fraction):
        return {'F': f'{x.numerator}/{x.denominator}'}
    if isinstance(x, Decimal):
        return {'X': str(x)}
    if isinstance(x, float):
        return {'f': repr(x)}
    if isinstance(x, vcore.Tie):
        return {'Tie': sorted((enc(e, ordered, _depth + 1, _seen) for e in x), key=_sk)}
    if isinstance(x, dict):
        items = [[enc(k, ordered, _depth + 1, _seen), enc(v, ordered, _depth + 1, _seen)] for k, v in x.items()]
        if not ordered:
            items.sort(key=lambda p: _sk(p[0]))
        return {'D': items}
    if isinstance(x, list):
        return {'L': [enc(e, ordered, _depth + 1, _seen) for e in x]}
    if isinstance(x, tuple):
        return {'T': [enc(e, ordered, _depth + 1, _seen) for e in x]}
    if isinstance(x, (set, frozenset)):
        return {'S': sorted((enc(e, ordered, _depth + 1, _seen) for e in x), key=_sk)}
    if isinstance(x, (types.FunctionType, types.BuiltinFunctionType, types.MethodType, type)) or callable(x) and not hasattr(x, '__dict__'):
        return {'fn': getattr(x, '__qualname__', repr(type(x)))}
    if isinstance(x, (bytes, bytearray)):
        return {'b': x.hex()}
    # library / candidate objects: class + attributes (recursion guarded)
    if id(x) in _seen or _depth > 12:
        return {'ref': type(x).__name__}
    _seen = _seen | {id(x)}
    try:
        attrs = vars(x)
    except TypeError:
        return {'obj': type(x).__name__, 'repr': repr(x)[:80]}
    return {'obj': type(x).__name__,
            'vars': [[k, enc(v, ordered, _depth + 1, _seen)] for k, v in sorted(attrs.items())]}


def _sk(j):
    return json.dumps(j, sort_keys=True, default=str)


def outcome(fn):
    """run fn(); -> {'ok': enc(result)} | {'exc': class name}"""
    try:
        return {'ok': enc(call_with_timeout(fn, 10))}
    except Exception as e:      # noqa
        return {'exc': type(e).__name__}


# ------------------------------------------------------------------------------------------------
# input generators (tagged form).  Small, tie-prone, with Fractions now and then.

CN = ['c0', 'c1', 'c2', 'c3', 'c4']


def g_count(rng, frac=True):
    r = rng.random()
    if frac and r < 0.12:
        return F(Fraction(rng.randint(1, 9), rng.choice([2, 3, 4])))
    return rng.choice([1, 1, 2, 2, 3, 4, 5, 6, 7, 10, 12, 20, 31])


def g_cands(rng, lo=2, hi=4):
    return CN[:rng.randint(lo, hi)]


def g_simple(rng, cands=None, frac=True, zero=False):
    cands = cands or g_cands(rng)
    cs = list(cands)
    rng.shuffle(cs)
    return D([(c, 0 if zero and rng.random() < 0.15 else g_count(rng, frac)) for c in cs])


def g_ranking(rng, cands, shared=True):
    k = rng.randint(1, len(cands))
    pick = rng.sample(cands, k)
    out = []
    i = 0
    while i < len(pick):
        if shared and i + 1 < len(pick) and rng.random() < 0.15:
            out.append(S(pick[i:i + 2]))
            i += 2
        else:
            out.append(pick[i])
            i += 1
    return T(out)


def g_ranked(rng, cands=None, shared=True, nb=None):
    cands = cands or g_cands(rng, 2, 4)
    seen, pairs = set(), []
    for _ in range(nb or rng.randint(1, 5)):
        b = g_ranking(rng, cands, shared)
        k = json.dumps(b, sort_keys=True)
        if k in seen:
            continue
        seen.add(k)
        pairs.append((b, g_count(rng, frac=False)))
    return D(pairs)


def g_approval(rng, cands=None, nb=None):
    cands = cands or g_cands(rng, 2, 4)
    seen, pairs = set(), []
    for _ in range(nb or rng.randint(1, 5)):
        b = sorted(rng.sample(cands, rng.randint(1, len(cands))))
        if tuple(b) in seen:
            continue
        seen.add(tuple(b))
        pairs.append((S(b), g_count(rng, frac=False)))
    return D(pairs)


def g_score(rng, cands=None, nb=None):
    cands = cands or g_cands(rng, 2, 4)
    seen, pairs = set(), []
    for _ in range(nb or rng.randint(1, 4)):
        cs = sorted(rng.sample(cands, rng.randint(1, len(cands))))
        b = [T([c, rng.randint(0, 5)]) for c in cs]
        k = json.dumps(b)
        if k in seen:
            continue
        seen.add(k)
        pairs.append((S(b), g_count(rng, frac=False)))
    return D(pairs)


def g_condorcet(rng, cands=None):
    cands = cands or g_cands(rng, 2, 4)
    pairs = []
    for a in cands:
        for b in cands:
            if a != b and rng.random() < 0.85:
                pairs.append((T([a, b]), rng.randint(0, 9)))
    if not pairs:
        pairs.append((T([cands[0], cands[1]]), 3))
    rng.shuffle(pairs)
    return D(pairs)


def g_mj(rng, cands=None):
    cands = cands or g_cands(rng, 2, 4)
    return D([(c, D([(g, rng.randint(1, 6)) for g in sorted(rng.sample(range(6), rng.randint(1, 3)))])) for c in cands])


DN = ['d0', 'd1', 'd2']


def g_const(rng, inner, nd=None):
    ds = DN[:nd or rng.randint(1, 3)]
    return D([(d, inner(rng)) for d in ds])


def g_gains(rng, cands=None, hi=2):
    cands = cands or g_cands(rng, 1, 4)
    cs = [c for c in cands if rng.random() < 0.6]
    return D([(c, rng.randint(0, hi)) for c in cs])


def g_caps(rng, cands=None):
    cands = cands or g_cands(rng, 1, 4)
    cs = [c for c in cands if rng.random() < 0.6]
    return D([(c, rng.randint(1, 4)) for c in cs])


def g_nested_gains(rng, hi=2):
    return D([(d, g_gains(rng, hi=hi)) for d in DN[:rng.randint(1, 3)] if rng.random() < 0.8])


def g_selection(rng, cands=None):
    cands = cands or g_cands(rng, 1, 4)
    return L(rng.sample(cands, rng.randint(1, len(cands))))


def g_seats(rng, hi=3):
    return rng.randint(1, hi)


def kw_prev_max(rng, k, nested=False, p=0.5):
    """prev_gains / max_seats are OMITTED half of the time so that the shared `{}` defaults are what runs"""
    if rng.random() < p:
        k['prev_gains'] = g_nested_gains(rng) if nested else g_gains(rng)
    if rng.random() < p * 0.7:
        k['max_seats'] = (D([(d, g_caps(rng)) for d in DN[:rng.randint(1, 3)]]) if nested else g_caps(rng))
    return k


def call(m, *a, **k):
    return {'m': m, 'a': list(a), 'k': k}


# call-sequence generators by protocol of the target

def c_eval_simple_n(rng, prev=False):
    k = kw_prev_max(rng, {}) if prev else {}
    return call('evaluate', g_simple(rng, zero=True), g_seats(rng), **k)


def c_eval_simple_dist(rng):
    return c_eval_simple_n(rng, prev=True)


def c_eval_simple_seatless(rng):
    return call('evaluate', g_simple(rng))


def c_eval_simple_seatless_dist(rng):
    return call('evaluate', g_simple(rng), **kw_prev_max(rng, {}))


def c_eval_simple_sel(rng):
    v = g_simple(rng)
    if rng.random() < 0.5:
        return call('evaluate', v)
    return call('evaluate', v, g_seats(rng))


def c_eval_ranked_n(rng, shared=True, hi=2):
    return call('evaluate', g_ranked(rng, shared=shared), g_seats(rng, hi))


def c_eval_ranked_noshared(rng):
    return c_eval_ranked_n(rng, shared=False)


def c_eval_ranked_1(rng):
    return call('evaluate', g_ranked(rng, shared=False), 1)


def c_eval_ranked_dist(rng):
    return call('evaluate', g_ranked(rng, shared=rng.random() < 0.5), g_seats(rng, 3), **kw_prev_max(rng, {}, p=0.3))


def c_eval_approval_n(rng):
    return call('evaluate', g_approval(rng), g_seats(rng, 3))


def c_eval_score_n(rng):
    return call('evaluate', g_score(rng), g_seats(rng, 2))


def c_eval_score_dist(rng):
    return call('evaluate', g_score(rng), g_seats(rng, 3), **kw_prev_max(rng, {}, p=0.3))


def c_eval_mj(rng):
    return call('evaluate', g_mj(rng), g_seats(rng, 2))


def c_eval_condorcet_n(rng):
    return call('evaluate', g_condorcet(rng), g_seats(rng, 2))


def c_eval_condorcet(rng):
    return call('evaluate', g_condorcet(rng))


def c_eval_const_dist(rng):
    return call('evaluate', g_const(rng, lambda r: g_simple(r, frac=False)), g_seats(rng, 4),
                **kw_prev_max(rng, {}, nested=True))


def c_eval_const_dist_dictseats(rng):
    v = g_const(rng, lambda r: g_simple(r, frac=False))
    if rng.random() < 0.5:
        n = D([(d, rng.randint(0, 3)) for d, _ in v['D']])
    else:
        n = g_seats(rng, 4)
    return call('evaluate', v, n, **kw_prev_max(rng, {}, nested=True))


def c_conv(g):
    return lambda rng: call('convert', g(rng))


def c_calc(rng):
    return call('calculate', g_simple(rng, frac=False), rng.randint(2, 6),
                prev_gains=g_gains(rng, hi=3), **({'max_seats': g_caps(rng)} if rng.random() < 0.2 else {}))
