"""C01 — HighestAverages is the exact divisor-method solution."""
import itertools
from fractions import Fraction
from decimal import Decimal
from common import *   # noqa

ID = 'C01'
NAMESPACE = 'VL.C01'
LEAN_MODULES = ['VotelibProofs.Props.C01']
GEN_MODULES = ['Divisor']
REQUIRED = ['ha_cap', 'ha_total', 'ha_optimal', 'waiting_iff', 'ha_tie', 'ha_only_voted', 'haResult_cand', 'haResult_tie',
            'd_hondt_ok', 'sainte_lague_ok', 'danish_ok', 'macau_ok', 'imperiali_ok', 'modified_first_ok', 'divisor_values', 'cfgOK_of_divisor', 'ha_strict_separation', 'ha_silent_tie_witness', 'ha_is_the_unique_solution', 'list_machine_refines']
NAME_MODES = ['str', 'int0', 'empty0', 'person', 'tuple']
REQUIRED_COUNTERS = ['tie_batch', 'cap_binds', 'zero_vote_party', 'prev_nonzero_non_dhondt', 'beyond_2^53',
                     'modified_first_coef', 'multi_batch', 'divisor_values', 'coef_as_decimal', 'coef_as_default', 'coef_as_fraction', 'first_coef_below_one']
RULE = ('1-6 parties; votes from tie-forcing small sets, zero-vote parties, and [0,10^30]; n_seats 1..12; the five exact '
        'built-in divisors and modified_first_coef wrappers (first coefficient <= divisor(1)); prev_gains with sum <= n '
        '(also for parties without votes); caps in [prev, prev+3] leaving one party eligible. Non-trivial = at least two '
        'parties and a non-error result; distinct by canonical request.')
NOT_VERIFIED = ['the sorted-list machine (ascending list, tail run, pop + bisect_left re-insertion) is modelled by hand line by line '
                '(VotelibModel/HighestAveragesList.lean) and tied to the code by the correspondence; that it refines the pool machine '
                'of the theorems is PROVED (list_machine_refines), so no data-structure abstraction is left unverified',
                'Fraction(n_votes, divisor) is exact rational division']
EXHAUSTIVE = {'thorough': False}
NAMES = Names(prefix='p')
_EVALUATORS = {}
DIVISORS = ['d_hondt', 'sainte_lague', 'imperiali', 'danish', 'macau']


def _div(name, first, kind='fraction'):
    """the implementation's divisor callable; `kind` says as which Python type the first coefficient is handed over
    (modified_first_coef converts Decimal / float to an exact Fraction itself; 'default' omits the argument)"""
    import votelib.component.divisor as vd
    f = vd.get(name)
    if first is not None:
        fr = Fraction(first)
        if kind == 'default':
            assert fr == Fraction(7, 5)
            return vd.modified_first_coef(f)
        if kind == 'decimal':
            import decimal
            with decimal.localcontext() as ctx:
                ctx.prec = 400
                dec = Decimal(fr.numerator) / Decimal(fr.denominator)
            assert Fraction(dec) == fr
            return vd.modified_first_coef(f, dec)
        if kind == 'int':
            assert fr.denominator == 1
            return vd.modified_first_coef(f, int(fr))
        if kind == 'float':
            assert Fraction(float(fr)) == fr
            return vd.modified_first_coef(f, float(fr))
        return vd.modified_first_coef(f, fr)
    return f


_TEXTBOOK = {'d_hondt': lambda k: Fraction(k + 1), 'sainte_lague': lambda k: Fraction(2 * k + 1),
             'imperiali': lambda k: Fraction(k, 2) + 1, 'danish': lambda k: Fraction(3 * k + 1),
             'macau': lambda k: Fraction(2 ** k)}


def _ref_div(name, first):
    """the textbook divisor sequence, independent of votelib: what 'built-in divisor' means in C01"""
    f = _TEXTBOOK[name]
    if first is not None:
        fc = Fraction(first)
        return lambda k: f(k) if k > 0 else fc
    return f


def _dcase(case):
    return _div(case['divisor'], case['first_coef'], case.get('first_kind', 'fraction'))


def _mk(rng, votes, n, div, first, prev, caps, tags):
    kind = 'fraction'
    if first is not None:
        fr = Fraction(first)
        kinds = ['fraction', 'decimal']          # Decimal is the documented type of the coefficient
        if fr == Fraction(7, 5):
            kinds += ['default', 'default']
        if fr.denominator == 1:
            kinds.append('int')
        if fr.denominator & (fr.denominator - 1) == 0 and Fraction(float(fr)) == fr:
            kinds.append('float')                # exactly a double (e.g. the double nearest to 1.4): handed over as float
        if any(c not in '25' for c in _prime_factors(fr.denominator)):
            kinds = [k for k in kinds if k != 'decimal']
        kind = rng.choice(kinds)
        tags.append('coef_as_' + kind)
    return {'op': 'ha', 'divisor': div, 'first_coef': first, 'first_kind': kind, 'votes': [[i, num_str(v)] for i, v in votes],
            'n': n, 'prev': [[i, k] for i, k in prev], 'max': [[i, k] for i, k in caps], '_tags': list(tags)}


def _prime_factors(n):
    out, p = [], 2
    while n > 1:
        while n % p == 0:
            out.append(str(p)); n //= p
        p += 1
    return out


def _gen_one(rng, directed=None):
    m = rng.randint(1, 6)
    kind = directed or rng.choice(['small', 'small', 'small', 'mid', 'big', 'zero'])
    div = rng.choice(DIVISORS)
    first = None
    tags = []
    if rng.random() < 0.15 or directed == 'mfc':
        # documented use: first coefficient raises the first divisor but stays <= divisor(1)
        d1 = _TEXTBOOK[div](1)
        first = num_str(rng.choice([Fraction(14, 10), Fraction(14, 10), Fraction(142, 100), Fraction(1), Fraction(12, 10), Fraction(3, 2), d1,
                                    Fraction('1.4142136'), Fraction('1.0000001'), Fraction(1.4), Fraction(1.1),
                                    # a first coefficient below one (any positive value <= divisor(1) is a valid wrapper)
                                    Fraction(7, 10), Fraction(1, 2), Fraction(9, 10), Fraction(1, 1000), Fraction(0.3)]))
        if Fraction(first) < 1:
            tags.append('first_coef_below_one')
        if Fraction(first) > d1:
            first = num_str(d1)
        tags.append('modified_first_coef')
    if kind == 'small' or kind == 'tie':
        base = rng.choice([1, 2, 3, 6, 12])
        votes = [(i, base * rng.choice([0, 1, 1, 2, 2, 3, 4, 6])) for i in range(m)]
    elif kind == 'mid':
        votes = [(i, rng.randint(0, 1000)) for i in range(m)]
    elif kind == 'big':
        e = rng.choice([17, 25, 30])
        votes = [(i, rng.randint(10 ** (e - 1), 10 ** e) if rng.random() < 0.7 else 10 ** e + rng.choice([0, 1])) for i in range(m)]
        tags.append('beyond_2^53')
    else:
        votes = [(i, rng.choice([0, 0, 1, 2, 5])) for i in range(m)]
    if rng.random() < 0.15:
        votes = [(i, Fraction(v, rng.choice([1, 2, 3]))) for i, v in votes]
    if all(v == 0 for _, v in votes) and rng.random() < 0.7:
        votes[0] = (0, 3)
    n = rng.randint(1, 12)
    prev, caps = [], []
    if rng.random() < 0.45 or directed in ('prev', 'cap'):
        budget = n
        ids = list(range(m + (1 if rng.random() < 0.3 else 0)))   # a party with seats but no votes
        rng.shuffle(ids)
        for i in ids:
            if rng.random() < 0.5 and budget > 0:
                k = rng.randint(0, min(3, budget))
                prev.append((i, k))
                budget -= k
    pd = dict(prev)
    if rng.random() < 0.45 or directed == 'cap':
        for i in range(m):
            if rng.random() < 0.6:
                caps.append((i, pd.get(i, 0) + rng.randint(0, 3)))
    if any(k > 0 for _, k in prev) and div != 'd_hondt':
        tags.append('prev_nonzero_non_dhondt')
    if any(v == 0 for _, v in votes):
        tags.append('zero_vote_party')
    return _mk(rng, votes, n, div, first, prev, caps, tags)


def _eligible(case):
    votes = {i: Fraction(s) for i, s in case['votes']}
    prev = dict((i, k) for i, k in case['prev'])
    caps = dict((i, k) for i, k in case['max'])
    d = _ref_div(case['divisor'], case['first_coef'])
    n = case['n']
    return any(d(prev.get(c, 0)) > 0 and prev.get(c, 0) < caps.get(c, n) for c in votes)


def _post_tags(case):
    """tags that depend on what the run does (computed from the exact slot table, not from votelib)"""
    votes = {i: Fraction(s) for i, s in case['votes']}
    prev = dict((i, k) for i, k in case['prev'])
    caps = dict((i, k) for i, k in case['max'])
    n = case['n']
    d = _ref_div(case['divisor'], case['first_coef'])
    open_ = n - sum(prev.values())
    if open_ <= 0:
        return
    slots = []
    for c, v in votes.items():
        for j in range(prev.get(c, 0), min(caps.get(c, n), prev.get(c, 0) + open_ + 1)):
            if d(j) > 0:
                slots.append((v / Fraction(d(j)), c, j))
    slots.sort(reverse=True)
    if len(slots) > open_ and slots[open_ - 1][0] == slots[open_][0]:
        case['_tags'].append('tie_batch')
    qs = [q for q, _, _ in slots[:open_]]
    if len(set(qs)) < len(qs):
        case['_tags'].append('multi_batch')
    for c in votes:
        if c in caps and caps[c] - prev.get(c, 0) < open_ and votes[c] > 0:
            case['_tags'].append('cap_binds')
            break


def generate(rng, tier):
    N = 1200 if tier == 'quick' else 150000
    out = 0
    for k in range(N * 3):
        if out >= N:
            break
        c = _gen_one(rng)
        if sum(k2 for _, k2 in c['prev']) > c['n'] or not _eligible(c):
            continue
        _post_tags(c)
        out += 1
        yield c
    for directed in ['tie', 'cap', 'prev', 'mfc', 'zero', 'big']:
        cnt = 0
        for k in range(4000 if tier == 'quick' else 40000):
            if cnt >= (40 if tier == 'quick' else 2500):
                break
            c = _gen_one(rng, directed)
            if sum(k2 for _, k2 in c['prev']) > c['n'] or not _eligible(c):
                continue
            _post_tags(c)
            c['_tags'].append('directed')
            cnt += 1
            yield c
    for div in DIVISORS:
        yield {'op': 'divisor', 'divisor': div, 'first_coef': None, 'upto': 40, '_tags': ['divisor_values']}
        for first, kind in [('7/5', 'default'), ('7/5', 'decimal'), ('71/50', 'decimal'), ('6/5', 'decimal'), ('7/5', 'fraction'),
                            ('1', 'int'), ('3/2', 'float'), ('3/2', 'decimal'), ('1', 'decimal'),
                            # long decimals (reduced denominator beyond 10^6) and doubles that are no short decimal
                            (num_str(Fraction('1.4142136')), 'decimal'), (num_str(Fraction('1.0000001')), 'decimal'),
                            (num_str(Fraction('1.23456789012345678901')), 'decimal'),
                            (num_str(Fraction(1.4)), 'float'), (num_str(Fraction(1.1)), 'float'),
                            ('7/10', 'decimal'), ('1/2', 'float'), ('9/10', 'fraction'), ('1/1000', 'decimal'), (num_str(Fraction(0.3)), 'float')]:
            if Fraction(first) <= _TEXTBOOK[div](1):
                yield {'op': 'divisor', 'divisor': div, 'first_coef': first, 'first_kind': kind, 'upto': 12,
                       '_tags': ['divisor_values', 'modified_first_coef', 'coef_as_' + kind]}
    if tier == 'thorough':
        for m in range(1, 5):
            for vals in itertools.product([0, 1, 2, 3], repeat=m):
                if sum(vals) == 0:
                    continue
                for n in range(1, 7):
                    for div in DIVISORS:
                        c = {'op': 'ha', 'divisor': div, 'first_coef': None,
                             'votes': [[i, str(v)] for i, v in enumerate(vals)], 'n': n, 'prev': [], 'max': [],
                             '_tags': ['exhaustive']}
                        _post_tags(c)
                        yield c
        # small scope with previous gains and caps: <= 3 parties, votes 0..3, n <= 5, every prev / cap assignment from {none, 0, 1, 2}
        for m in range(1, 4):
            for vals in itertools.product([0, 1, 2, 3], repeat=m):
                if sum(vals) == 0:
                    continue
                for n in range(1, 6):
                    for prevs in itertools.product([None, 1, 2], repeat=m):
                        if sum(p or 0 for p in prevs) > n:
                            continue
                        for capd in itertools.product([None, 0, 1], repeat=m):
                            div = DIVISORS[(sum(vals) + n + sum(p or 0 for p in prevs)) % len(DIVISORS)]
                            prev = [[i, p] for i, p in enumerate(prevs) if p is not None]
                            caps = [[i, (prevs[i] or 0) + d] for i, d in enumerate(capd) if d is not None]
                            c = {'op': 'ha', 'divisor': div, 'first_coef': None,
                                 'votes': [[i, str(v)] for i, v in enumerate(vals)], 'n': n, 'prev': prev, 'max': caps,
                                 '_tags': ['exhaustive', 'exhaustive_prev_caps']}
                            if _eligible(c):
                                _post_tags(c)
                                yield c


def _args(case):
    votes = {}
    for i, s in case['votes']:
        f = Fraction(s)
        votes[NAMES.n(i)] = int(f) if f.denominator == 1 else f
    prev = {NAMES.n(i): k for i, k in case['prev']}
    caps = {NAMES.n(i): k for i, k in case['max']}
    return votes, prev, caps


def impl(case):
    import votelib.evaluate.proportional as vp
    if case['op'] == 'divisor':
        return guarded(lambda: [num_str(Fraction(_dcase(case)(k))) for k in range(case['upto'])])
    votes, prev, caps = _args(case)
    # half of the cases run on ONE long-lived evaluator per divisor configuration (state kept on the object between elections
    # would make an outcome depend on earlier, unrelated elections), the others on a fresh object
    key = (case['divisor'], case['first_coef'], case.get('first_kind'))
    if int(case_key(case), 16) % 4 < 2:
        if key not in _EVALUATORS:
            _EVALUATORS[key] = vp.HighestAverages(_dcase(case))
        ev = _EVALUATORS[key]
    else:
        ev = vp.HighestAverages(_dcase(case))
    return guarded(lambda: enc_distribution(ev.evaluate(votes, case['n'], prev_gains=prev, max_seats=caps), NAMES))


def model_line(case):
    """both Lean models are validated: the pool machine ('ha') and the sorted-list machine ('ha_list'), alternating"""
    c = strip_case(case)
    c.pop('first_kind', None)
    if case['op'] == 'divisor':
        return c
    if int(case_key(case), 16) % 2:
        c['op'] = 'ha_list'
    return c


def compare(case, iobs, mobs):
    if case['op'] == 'divisor':
        a, b = canon(iobs), canon(mobs)
        return None if a == b else f'impl={json.dumps(a)} model={json.dumps(b)}'
    a = canon(iobs)
    b = canon_dist(mobs)
    if a != b:
        return f'impl={json.dumps(a)} model={json.dumps(b)}'
    return None


def oracle(case, obs):
    """the clauses of C01, recomputed with Fractions from the returned dictionary"""
    if case['op'] == 'divisor':
        if isinstance(obs, dict):
            return [('unexpected_error', obs.get('err'))]
        ref = _ref_div(case['divisor'], case['first_coef'])
        bad = [(k, v) for k, v in enumerate(obs) if Fraction(v) != ref(k)]
        return [('divisor_value', f'order {bad[0][0]}: {bad[0][1]} instead of {ref(bad[0][0])}')] if bad else []
    votes = {i: Fraction(s) for i, s in case['votes']}
    prev = dict((i, k) for i, k in case['prev'])
    caps = dict((i, k) for i, k in case['max'])
    n = case['n']
    d = _ref_div(case['divisor'], case['first_coef'])
    if isinstance(obs, dict):
        return [('unexpected_error', obs.get('err'))]
    out = []
    seats, ties = {}, []
    for k, v in obs:
        if isinstance(k, dict):
            ties.append((k['tie'], v))
        else:
            seats[k] = v
    if any((not isinstance(v, int)) or v <= 0 for v in list(seats.values()) + [m for _, m in ties]):
        out.append(('nonpositive_award', str(obs)))
    if any(c not in votes for c in seats) or any(c not in votes for T, _ in ties for c in T):
        out.append(('unknown_party', str(obs)))
    cap = lambda c: caps.get(c, n)     # noqa
    elig0 = [c for c in votes if d(prev.get(c, 0)) > 0 and prev.get(c, 0) < cap(c)]
    open_ = max(n - sum(prev.values()), 0)
    room = sum(cap(c) - prev.get(c, 0) for c in elig0)
    total = sum(seats.values()) + sum(m for _, m in ties)
    if total != min(open_, room):
        out.append(('seat_total', f'awarded {total}, open {open_}, room {room}'))
    for c, s in seats.items():
        if prev.get(c, 0) + s > cap(c) and prev.get(c, 0) <= cap(c):
            out.append(('cap_exceeded', f'party {c}: {prev.get(c,0)}+{s} > {cap(c)}'))
    if len(ties) > 1:
        out.append(('several_ties', str(ties)))
    tot = lambda c: prev.get(c, 0) + seats.get(c, 0)     # noqa
    # optimality: every eligible party's next quotient <= quotient of every awarded seat
    nxt = {c: votes[c] / d(tot(c)) for c in elig0 if tot(c) < cap(c)}
    awarded = [(votes[c] / d(j), c, j) for c, s in seats.items() for j in range(prev.get(c, 0), prev.get(c, 0) + s)]
    if nxt and awarded:
        mx = max(nxt.values())
        mn = min(a[0] for a in awarded)
        if mx > mn:
            out.append(('stronger_claim_unseated', f'next quotient {mx} > seated quotient {mn}'))
    for T, m in ties:
        if not m < len(T):
            out.append(('tie_not_larger_than_seats', f'{len(T)} members for {m} seats'))
        if m != open_ - sum(seats.values()) and room >= open_:
            out.append(('tie_seat_count', f'tie carries {m}, open after individual awards {open_ - sum(seats.values())}'))
        if nxt:
            qstar = max(nxt.values())
            exact = sorted(c for c, q in nxt.items() if q == qstar)
            if sorted(T) != exact:
                out.append(('tie_membership', f'tie {sorted(T)} but parties sharing the quotient {qstar}: {exact}'))
        else:
            out.append(('tie_membership', 'tie among ineligible parties'))
    if not ties and total < open_ and nxt:
        out.append(('seats_left_open', 'eligible parties remain but seats were not awarded'))
    # ties must not be resolved silently: if the awarded set's weakest quotient equals an unseated next quotient
    # and seats ran out, a Tie must have been reported instead
    if not ties and nxt and awarded and total == open_:
        mx = max(nxt.values())
        mn = min(a[0] for a in awarded)
        if mx == mn:
            # a party still waiting at quotient mn while a DIFFERENT party was seated at mn (equal quotients inside one
            # party only occur with zero votes and are not a tie between parties)
            waiting = {c for c, q in nxt.items() if q == mn}
            if mn > 0:
                bad = any(q == mn and (waiting - {c}) for q, c, j in awarded)
            else:
                # zero-vote parties: every seat has quotient 0; batches serve all waiting parties once per round, so a
                # party still waiting must hold at least as many of these seats as anybody else
                z = {c: seats.get(c, 0) for c in votes if votes[c] == 0}
                bad = any(z[c] > z[w] for c in z for w in waiting if w in z)
            if bad:
                out.append(('tie_resolved_silently', f'quotient {mn} both seated and unseated without a Tie'))
    return out


def nontrivial(case, obs):
    if case['op'] == 'divisor':
        return not isinstance(obs, dict)
    return len(case['votes']) >= 2 and not isinstance(obs, dict)


def shrink_candidates(case):
    if case['op'] == 'divisor':
        if case['upto'] > 1:
            yield dict(case, upto=case['upto'] - 1)
        return
    vs = case['votes']
    if len(vs) > 1:
        for i in range(len(vs)):
            drop = vs[i][0]
            c = dict(case)
            c['votes'] = vs[:i] + vs[i+1:]
            c['prev'] = [p for p in case['prev'] if p[0] != drop]
            c['max'] = [p for p in case['max'] if p[0] != drop]
            yield c
    for key in ('prev', 'max'):
        for i in range(len(case[key])):
            c = dict(case)
            c[key] = case[key][:i] + case[key][i+1:]
            yield c
    if case['n'] > 1:
        c = dict(case)
        c['n'] = case['n'] - 1
        yield c


def describe(case):
    fc = f", first_coef={case['first_coef']} given as {case.get('first_kind', 'fraction')}" if case['first_coef'] else ''
    if case['op'] == 'divisor':
        return f"divisor {case['divisor']!r}{fc} at orders 0..{case['upto'] - 1}"
    votes, prev, caps = _args(case)
    return f"HighestAverages({case['divisor']!r}{fc}).evaluate({votes!r}, {case['n']}, prev_gains={prev!r}, max_seats={caps!r})"


TECHNIQUE = 'Lean 4 proof of seat total, caps, optimality and exact ties of the highest-averages loop (invariant by induction, unbounded) + translated divisors + differential correspondence'
LEVEL_TEXT = ('The highest-averages loop is modelled in Lean (pool of next quotients, whole maximal batch per step, caps, previous gains, Tie on '
              'overflow); the divisor functions are regenerated from divisor.py on every run and proved positive and strictly increasing; the clauses '
              'of C01 are theorems about the model for all vote vectors, seat counts and constraint maps; the model is tied to the code by a '
              'differential correspondence and an independent oracle of the clauses on the implementation.')
LEVEL_NOTE = ('Trusted: Lean kernel + standard axioms; translate.py; the correspondence harness (1-6 parties, n<=12, votes up to 10^30); the pool abstraction of the '
              'sorted list with bisect re-insertion (validated by the correspondence, not proved).')


def signature(case, clause):
    if case['op'] == 'divisor':
        return f"divisor:{clause}"
    if clause == 'tie_resolved_silently' and case.get('first_coef') is not None:
        if Fraction(case['first_coef']) == _TEXTBOOK[case['divisor']](1):
            return 'ha:tie_resolved_silently:first_coef_equals_second_divisor'
    return f"ha:{clause}"
