"""C08 — every evaluator fills exactly the seats asked for, with valid distinct winners."""
import inspect
import importlib
from fractions import Fraction
from common import *   # noqa
import families as fam_mod

ID = 'C08'
NAMESPACE = 'VL.C08'
LEAN_MODULES = ['VotelibProofs.Props.C08']
GEN_MODULES = ['Divisor', 'Quota', 'Threshold', 'RankScore']
REQUIRED = ['getNBest_shape', 'plurality_shape', 'quotaSelector_refusals', 'ha_shape', 'haResult_sum', 'ge_keys_nodup',
            'electedOf_map_cand', 'electedOf_append', 'electedOf_replicate_tie', 'getNBest_shape_of_keys',
            'lr_shape', 'qd_shape', 'lr_shape_pos', 'qd_shape_pos', 'lr_refusals', 'quota_pos', 'lr_quota_nonpositive_refused',
            'getNBest_struct', 'breakSecondOrder_shape', 'copeland_shape', 'schulze_shape', 'minimax_shape',
            'positional_shape', 'positional_refusals', 'scorerOK_of_wf', 'approval_shape', 'approval_refusals',
            'selectNRandom_shape', 'selectNRandom_error', 'sortitor_shape', 'random_ballot_shape', 'random_selectors_refusals_partial',
            'random_ballot_exhausted_witness', 'rfc3797_shape', 'candidate_number_shape', 'selectLoop_popped', 'rfcLoop_popped',
            'selectLoop_error', 'rfcLoop_error', 'sortitor_refusals', 'selectLoop_error_ones', 'accumulate_pop',
            'tb_plurality_shape', 'replaceDist_sum', 'replaceAll',
            'quotaSelector_shape', 'ha_refusals', 'list_tiebreaker_shape', 'alternative_threshold_shape', 'input_order_shape', 'abs_threshold_shape', 'rel_threshold_shape', 'openlist_shape',
            # Lemmas/ShapeRankedT2.lean
            'kemeny_shape', 'kemeny_refusals', 'rankedpairs_shape_partial', 'rankedpairs_shape_le_two', 'rankedpairs_refusals',
            'rankedpairs_refusals_all', 'rankedpairs_short_witness', 'seatless_shape', 'seatless_smith_nonempty', 'benham_shape',
            'benham_refusals', 'benham_refusals_witness', 'tideman_shape', 'tideman_refusals', 'tideman_no_votes',
            'tideman_refusals_witness', 'benham_lone_elected', 'tidemanN_shape', 'tidemanN_refusals', 'tidemanN_refusals_witness',
            'bucklin_shape_partial', 'bucklin_whole_shape_partial', 'bucklin_refusals',
            'bucklin_whole_refusals', 'bucklin_answers', 'bucklin_whole_refusals_all', 'bucklin_short_witness',
            # Lemmas/ShapeCardinal.lean, ShapeApprovalPAV.lean
            'score_shape', 'score_refusals', 'score_total', 'score_refusals_partial', 'score_refusals_witness', 'score_total_trunc',
            'spav_shape', 'spav_refusals', 'pav_shape', 'pavStep_shape', 'pav_refusals', 'pavStep_refusals', 'mj_shape', 'mjPlus_total',
            'mjPlus_refusals', 'mjDefault_refusals_partial', 'mj_refusals_partial', 'mj_refusals_witness', 'star_shape', 'star_refusals',
            'star_total', 'star_refusals_partial', 'allocated_shape', 'allocated_shape_tie_fixed', 'allocated_refusals',
            'allocated_refusals_fixed', 'mem_scoreCands', 'scoreCands_nodup',
            # Lemmas/ShapeCardinalGraded.lean
            'score_total_graded', 'score_refusals_graded', 'mjPlus_total_graded', 'mjPlus_refusals_graded', 'mjDefault_refusals_graded_partial',
            'score_candidate_without_grades_witness', 'correctedScores_total_graded',
            # Lemmas/ShapeQuotaSubtract.lean
            'qd_subtract_shape', 'qd_subtract_refusals', 'lr_subtract_shape', 'lr_subtract_refusals', 'qd_subtract_ties',
            # Lemmas/ShapeSequential.lean (models VotelibModel/ShapeSequential.lean)
            'baldwin_answers', 'baldwin_shape', 'baldwin_refusals', 'bucklin_n_shape_partial', 'bucklin_n_shape_of_full',
            'bucklin_n_one_tie', 'bucklin_n_answers', 'bucklin_n_refusals', 'bucklin_n_refusals_all', 'bucklin_n_short_witness',
            'prefix_bucklin_decouple_offset_witness',
            # Lemmas/ShapeSTV.lean
            'stv_shape', 'stv_gregory_shape', 'stv_refusals', 'stv_refusals_partial', 'stv_fuel_unreachable', 'stv_gregory_no_fuel',
            'stv_default_refusals', 'stv_default_total', 'stv_droop_refusals', 'stv_hare_refusals', 'stvd_shape', 'stvd_gregory_shape',
            'stvd_refusals', 'stvd_refusals_partial', 'stvd_droop_refusals', 'stv_refusals_quota_zero_witness',
            'stv_refusals_no_step_witness', 'stvd_refusals_over_award_witness', 'stv_quota_pos_droop', 'stv_quota_pos_hare']
PROVED_FAMILIES = ['plurality', 'ha_d_hondt', 'ha_sainte_lague', 'ha_imperiali', 'ha_danish', 'ha_macau',
                   'quota_selector_droop', 'quota_selector_hare',
                   'lr_hare', 'lr_hagenbach_bischoff', 'lr_imperiali', 'lr_droop', 'lr_hare_rounded', 'lr_hagenbach_bischoff_ceil',
                   'lr_hagenbach_bischoff_rounded', 'qd_hare', 'qd_droop',
                   'condorcet_copeland_2o', 'condorcet_copeland_raw', 'condorcet_schulze', 'condorcet_minimax_winvotes',
                   'condorcet_minimax_margins', 'condorcet_minimax_pwo',
                   'positional_borda', 'positional_borda0', 'positional_dowdall', 'positional_geometric', 'positional_modified_borda',
                   'positional_fixed_top3', 'approval_av', 'approval_sav',
                   'condorcet_kemeny_young', 'condorcet_winner', 'smith_set', 'schwartz_set',
                   'stv_gregory_hare', 'stv_gregory_droop', 'stv_dist_gregory_droop', 'stv_gregory_hare_strict', 'stv_gregory_imperiali', 'stv_gregory_noquota',
                   'rel_threshold_5pc', 'rel_threshold_5pc_decimal', 'rel_threshold_5pc_float', 'rel_threshold_third', 'abs_threshold_2', 'openlist_jump_5pc', 'openlist_quota_precedence',
                   'openlist_tiebreaker_plurality', 'threshold_alternative', 'tiebreaking_plurality_input_order', 'aux_input_order', 'aux_sortitor', 'aux_random_ballot', 'aux_rfc3797', 'aux_candidate_number',
                   'lr_imperiali_subtract', 'lr_hagenbach_bischoff_subtract', 'qd_imperiali_subtract',
                   'baldwin', 'benham', 'tideman_alternative', 'allocated_score_hare', 'approval_pav', 'approval_spav', 'score_sum0', 'star']
PROVED_FAMILIES += [f + '_sparse' for f in PROVED_FAMILIES if f.startswith('condorcet_') or f in ('smith_set', 'schwartz_set')]
NAMES = Names(prefix='cand')
POSITIONAL_CFG = {'positional_borda': {'s': 'Borda', 'base': 1}, 'positional_borda0': {'s': 'Borda', 'base': 0},
              'positional_dowdall': {'s': 'Dowdall'}, 'positional_geometric': {'s': 'Geometric', 'base': 2},
              'positional_modified_borda': {'s': 'ModifiedBorda'}, 'positional_fixed_top3': {'s': 'FixedTop', 'top': 3}}
STV = {'stv_gregory_hare': ('hare', 'selector'), 'stv_gregory_droop': ('droop', 'selector'),
       'stv_dist_gregory_droop': ('droop', 'distributor'), 'stv_gregory_hare_strict': ('hare', 'selector'),
       'stv_gregory_imperiali': ('imperiali', 'selector'), 'stv_gregory_noquota': (None, 'selector')}
THRESHOLDS = {'rel_threshold_5pc': ('rel_threshold', '1/20', True), 'rel_threshold_5pc_decimal': ('rel_threshold', '1/20', True),
              'rel_threshold_5pc_float': ('rel_threshold', '3602879701896397/72057594037927936', True), 'rel_threshold_third': ('rel_threshold', '1/3', False),
              'abs_threshold_2': ('abs_threshold', '2', True)}
OPENLIST = {'openlist_jump_5pc': {'jump_fraction': '1/20', 'quota': None, 'quota_fraction': '1', 'take_higher': False,
                                  'accept_equal': False, 'list_precedence': False},
            'openlist_quota_precedence': {'jump_fraction': None, 'quota': 'droop', 'quota_fraction': '1/2', 'take_higher': False,
                                          'accept_equal': True, 'list_precedence': True}}
CARDINAL = {'score_mean': {'op': 'score', 'function': 'mean'}, 'score_sum0': {'op': 'score', 'function': 'sum', 'unscored': '0'},
            'score_median': {'op': 'score', 'function': 'median_low'},
            'majority_judgment': {'op': 'mj', 'tie_breaking': 'default'}, 'majority_judgment_plus': {'op': 'mj', 'tie_breaking': 'plus'},
            'score_median_trunc_quarter': {'op': 'score', 'function': 'median_low', 'truncation': '1/4'},
            'star': {'op': 'star', 'added_count': 1, 'added_fraction': '0'},
            'allocated_score_hare': {'op': 'allocated', 'quota': 'hare'}}
POSITIONAL = tuple(POSITIONAL_CFG)
CONDORCET_MODELLED = ('rankedpairs_winvotes', 'rankedpairs_margins', 'rankedpairs_pwo', 'copeland_2o', 'copeland_raw', 'schulze',
                      'kemeny_young', 'minimax_winvotes', 'minimax_margins', 'minimax_pwo')
_FAMS = None
DECLARED = ('VotingSystemError', 'NotImplementedError')
# distributors documented as not awarding the full number of seats (QuotaDistributor docstring): sum <= n only


class _WithList:
    """adapter: an open-list evaluator called as evaluate(votes, n_seats, candidate_list) with the party list = all candidates of
    the votes in DESCENDING id order (so that list order and vote order differ)"""
    def __init__(self, evaluator):
        self.evaluator = evaluator

    def evaluate(self, votes, n_seats):
        clist = sorted(votes.keys(), key=lambda c: -NAMES.i(c))
        return self.evaluator.evaluate(votes, n_seats, clist)


def local_families():
    """public classes of votelib.evaluate.* that the shared family table (harness/families.py) does not reach"""
    import votelib.evaluate.core as vc
    import votelib.evaluate.openlist as vo
    import votelib.evaluate.auxiliary as vx
    import votelib.evaluate.threshold as vt
    import votelib.evaluate.proportional as vp
    F = fam_mod.Family
    return [
        # the 'subtract' over-award policy (a configuration of the largest-remainder family): low quotas over-award
        F('lr_imperiali_subtract', 'simple', lambda: vp.LargestRemainder('imperiali', on_overaward='subtract'), kind='dist',
          declared=True),
        F('lr_hagenbach_bischoff_subtract', 'simple', lambda: vp.LargestRemainder('hagenbach_bischoff', on_overaward='subtract'),
          kind='dist', declared=True),
        F('qd_imperiali_subtract', 'simple', lambda: vp.QuotaDistributor('imperiali', on_overaward='subtract'), kind='dist',
          declared=True, partial=True),
        # score voting with truncation (a configuration of the score family)
        F('score_median_trunc_quarter', 'score', lambda: __import__('votelib.evaluate.cardinal', fromlist=['x']).ScoreVoting(
            'median_low', truncation=Fraction(1, 4)), declared=True, small_weights=True),
        F('openlist_jump_5pc', 'simple', lambda: _WithList(vo.ThresholdOpenList(jump_fraction=Fraction(5, 100)))),
        F('openlist_quota_precedence', 'simple',
          lambda: _WithList(vo.ThresholdOpenList(quota_function='droop', quota_fraction=Fraction(1, 2), accept_equal=True,
                                                 list_precedence=True))),
        F('openlist_tiebreaker_plurality', 'simple', lambda: _WithList(vo.ListOrderTieBreaker(vc.Plurality()))),
        # the tie-breaking wrapper around a distributor / a selector: a Tie key holding SEVERAL seats must be put to the tiebreaker for
        # all of them (laws of the wrapper itself: C14, collectSel_count / tieBreaking laws)
        F('tiebreaking_ha_input_order', 'simple', lambda: vc.TieBreaking(vp.HighestAverages('d_hondt'), vx.InputOrderSelector()),
          kind='dist'),
        F('tiebreaking_lr_hare_input_order', 'simple', lambda: vc.TieBreaking(vp.LargestRemainder('hare'), vx.InputOrderSelector()),
          kind='dist'),
        F('tiebreaking_plurality_input_order', 'simple', lambda: vc.TieBreaking(vc.Plurality(), vx.InputOrderSelector())),
        F('aux_input_order', 'simple', lambda: vx.InputOrderSelector()),
        F('aux_sortitor', 'simple', lambda: vx.Sortitor(seed=1)),
        F('aux_random_ballot', 'simple', lambda: vx.RandomUnrankedBallotSelector(seed=1), small_weights=True),
        F('aux_rfc3797', 'simple', lambda: vx.RFC3797Selector([1, 2, [3, 4]])),
        F('aux_candidate_number', 'simple', lambda: vx.CandidateNumberRanker()),
        F('threshold_alternative', 'simple',
          lambda: vt.AlternativeThresholds([vt.AbsoluteThreshold(2), vt.RelativeThreshold(Fraction(1, 5))]), kind='seatless',
          n_seats=False),
    ]


def fams():
    global _FAMS
    if _FAMS is None:
        _FAMS = {f.name: f for f in fam_mod.families() if not getattr(f, 'fractional', False)}
        for f in local_families():
            _FAMS[f.name] = f
    return _FAMS


def public_classes():
    """every public class with an evaluate() in votelib.evaluate.* (by reflection)"""
    out = []
    for m in ['core', 'proportional', 'sequential', 'condorcet', 'approval', 'cardinal', 'auxiliary', 'openlist', 'threshold']:
        mod = importlib.import_module('votelib.evaluate.' + m)
        for nm, cls in inspect.getmembers(mod, inspect.isclass):
            if cls.__module__ == mod.__name__ and hasattr(cls, 'evaluate') and not nm.startswith('_'):
                out.append(f'{m}.{nm}')
    return sorted(out)


def covered_classes():
    seen = set()

    def walk(o, depth=0):
        if depth > 3 or not hasattr(o, '__class__'):
            return
        mod = type(o).__module__
        if mod.startswith('votelib.evaluate.'):
            seen.add(mod.split('.')[-1] + '.' + type(o).__name__)
        for v in getattr(o, '__dict__', {}).values():
            if hasattr(v, 'evaluate') or hasattr(v, 'convert'):
                walk(v, depth + 1)
    for f in fams().values():
        try:
            walk(f.make())
        except Exception:
            pass
    return sorted(seen)


# families with a Lean theorem that is only part of the schema: the missing statement (they stay listed as unproved)
# abstract base classes / typing protocols without an evaluation of their own
ABSTRACT = {'core.Evaluator', 'core.Selector', 'core.SeatlessSelector', 'core.Distributor', 'core.SeatlessDistributor',
            'core.OpenListEvaluator', 'core.UnknownEvaluator', 'condorcet.Selector', 'condorcet.SeatlessSelector'}
# public classes the C08 family tables do not reach, with the property whose check exercises them
NOT_REACHED = {
    **{'core.' + c: 'composition wrapper: result shape is that of the wrapped evaluator, wrapper algebra is C14'
       for c in ('AdjustedSeatCount', 'ByConstituency', 'ByParty', 'Conditioned', 'FixedSeatCount', 'MultistageDistributor',
                 'PostConverted', 'PreApportioned', 'RemovedApportionment', 'TieBreaking', 'PartyListEvaluator')},
    'core.UnusedVotesDistributor': 'nested district votes: C18',
    'proportional.BiproportionalEvaluator': 'nested district votes: C07',
    'proportional.PureProportionality': 'returns fractional seats by design (documented as auxiliary)',
    'proportional.VotesPerSeat': 'seat-less distributor (no n_seats)',
    'threshold.CoalitionMemberBracketer': 'needs candidate objects with properties: C16',
    'threshold.PropertyBracketer': 'needs candidate objects with properties: C16',
    'threshold.PreviousGainThreshold': 'needs previous gains: C16',
}
PARTIAL_FAMILIES = {
    **{f'condorcet_rankedpairs_{k}': 'rankedpairs_shape (exactly n places for n >= 3) is FALSE of the code: rankedpairs_short_witness, open '
       'finding; proved: rankedpairs_shape_partial (everything but the length, never shorter than 2), rankedpairs_shape_le_two, rankedpairs_refusals'
       for k in ('winvotes', 'margins', 'pwo', 'winvotes_sparse', 'margins_sparse', 'pwo_sparse')},
    **{k: 'score_refusals / mjPlus_refusals for ALL profiles of positive total weight are FALSE of the code: a candidate graded only on zero-weight '
          'ballots has no grade (score_candidate_without_grades_witness: ZeroDivisionError / StatisticsError; open finding '
          'C08-score-candidate-without-grades); proved: score_shape / mj_shape (full), and the refusal clause under the exact hypothesis Graded '
          '(every candidate has a grade of positive weight): score_refusals_graded, score_total_graded, mjPlus_refusals_graded, mjPlus_total_graded'
       for k in ('score_mean', 'score_median', 'majority_judgment_plus')},
    **{k: 'tb_dist_shape (no Tie key left, positive awards to parties of the votes, total n) is not proved as ONE theorem yet: the family is '
          'modelled (VotelibModel/ShapeTieBreak.lean: main model + tieBreakDist, correspondence incl. the wide-tie cases) and the step is proved: '
          'replaceDist_sum (replacing a Tie key by exactly as many winners as it holds seats keeps the seat total and the dict property); the '
          'main results have the distribution shape (ha_shape / lr_shape); missing: the fold over all Tie keys and the positivity / key clauses'
       for k in ('tiebreaking_ha_input_order', 'tiebreaking_lr_hare_input_order')},
    'majority_judgment': 'mjDefault_refusals (only declared refusals) is FALSE of the code (StatisticsError: mj_refusals_witness, open finding '
                         'C08-mj-statistics-error); proved: mj_shape (full), mjDefault_refusals_partial (VotingSystemError or StatisticsError)',
    'score_median_trunc_quarter': 'score_refusals needs truncation = 0: with truncation the code raises StatisticsError / ZeroDivisionError '
                                  '(score_refusals_witness, open finding C08-score-truncation-empty); proved: score_shape (full), '
                                  'score_refusals_partial, score_total_trunc (no error when the cutoff leaves every candidate a grade)',
    **{k: 'bucklin_n_shape (exactly n places) is FALSE of the code (bucklin_n_short_witness / bucklin_short_witness: fewer than n candidates ever '
          'pass the majority quota; open finding C08-preference-addition-short-list); proved for every n, every coefficient function, with and '
          'without splitting of shared ranks: bucklin_n_shape_partial (everything but the length), bucklin_n_one_tie (a short answer has no tie), '
          'bucklin_n_answers + bucklin_n_refusals (no error outcome)' for k in ('bucklin', 'oklahoma', 'bucklin_whole', 'oklahoma_whole')},
}
UNPROVED = []
UNMODELLED = []


def _bookkeeping():
    global UNPROVED, UNMODELLED
    try:
        UNPROVED = [f'{n}: {PARTIAL_FAMILIES[n]}' for n in fams() if n in PARTIAL_FAMILIES] + \
                   ['shape_' + n for n in fams() if n not in PROVED_FAMILIES and n not in PARTIAL_FAMILIES]
        UNMODELLED = [c + (f' ({NOT_REACHED[c]})' if c in NOT_REACHED else '') for c in public_classes()
                      if c not in covered_classes() and c not in ABSTRACT]
    except Exception:
        pass
_bookkeeping()
NAME_MODES = ['str', 'int0', 'empty0', 'person', 'tuple']
REQUIRED_COUNTERS = ['sel', 'dist', 'seatless', 'tie_in_result', 'modelled', 'refusal', 'few_votes', 'all_equal', 'truncation_empties', 'rotation', 'score_tied', 'numbers_equal', 'numbers_none', 'named_only_on_zero_weight_ballot']
RULE = ('every evaluator family built from the public selector/distributor classes of votelib.evaluate.* (shared table harness/families.py + the local '
        'list in this module: open list, list tie-breaker, auxiliary selectors, AlternativeThresholds, the subtract over-award policy, score voting with '
        'truncation) with its admissible vote type (simple, approval, ranked incl. shared ranks, score, pairwise through the real converter) x generated '
        'profiles with positive total weight (2-6 candidates) x 1 <= n_seats <= candidates present; directed cases: very few votes for many seats, all '
        'parties equal, a truncation that empties a candidate, a candidate named only on a zero-weight ballot with as many seats as candidates (every non-simple family). Thorough adds every n per profile and a small-scope exhaustive enumeration (all simple '
        'profiles over <= 3 parties with counts 0..3 / 4 parties with counts 0..2, all ranked profiles of <= 2 distinct strict ballots over 3 candidates, '
        'all approval profiles of <= 2 distinct ballots over 3 candidates, weights 1..2, every family, every n). CandidateNumberRanker is run on numbered votelib.candidate.Person objects (distinct numbers, EQUAL numbers, a missing number None; candidates without a `number` attribute are outside its admissible input). Non-trivial = result is not an error; '
        'distinct by canonical request. Public classes no family reaches are listed under unmodelled with the property that exercises them.')
NOT_VERIFIED = ['families listed under unproved: the entry names the statement that is FALSE of the current code (with its Lean witness and the open finding) and '
                'what is proved instead',
                'Sortitor / RandomUnrankedBallotSelector / RFC3797Selector: the values of random.randrange resp. of the md5 chain are recorded from the run of the '
                'implementation and are a parameter of the model (theorems hold for every draw sequence); bisect_left is modelled as the number of smaller '
                'entries (cumulative sums of non-negative counts are sorted); RandomUnrankedBallotSelector is modelled for integer counts only',
                'QuotaDistributor and QuotaSelector are documented as not filling all seats: "exactly n" is read as "at most n" for them (DESIGN 12.2); '
                'candidates present for a Condorcet evaluator = candidates occurring in a pairwise entry',
                'correspondence is order-insensitive among individually elected candidates where the implementation iterates a frozenset (approval and '
                'score ballots, shared ranks): the elected set and the tie places are compared; AllocatedScore (outcome depends on the iteration '
                'order of a Tie, open finding C12-allocated-score-tie-order): on a difference the real evaluator is re-run with candidate objects that '
                'hash to their id (the order the model assumes) and that run is compared',
                'Benham is modelled for one seat only (C05): n >= 2 raises AssertionError (outside sentence 3: observation); Tideman alternative is modelled for every n (tidemanN)',
                'the Condorcet evaluators are modelled on the pairwise dictionary produced by the REAL RankedToCondorcetVotes converter (C13 owns its model)']


def generate(rng, tier):
    F = list(fams().values())
    per = 30 if tier == 'quick' else 600
    for f in F:
        for t in range(per):
            m = rng.randint(2, 6 if f.vtype in ('simple', 'approval') else 5)
            prof = fam_mod.gen_profile(rng, f.vtype, m)
            cands = fam_mod.present_candidates(f, prof)
            if not cands:
                continue
            n = rng.randint(1, max(1, len(cands)))
            tags = [f.kind]
            if not f.small_weights and fam_mod.base_vtype(f.vtype) != 'score' and rng.random() < 0.12:
                # weight regime: counts beyond double precision, or rational counts
                k = rng.choice([10 ** 18 + 3, 2 ** 53 + 1, 10 ** 30 + 7, Fraction(1, 3), Fraction(5, 2)])
                prof = fam_mod.scale(prof, k)
                tags.append('big_weights' if k > 1000 else 'fraction_weights')
            c = {'op': 'shape', 'family': f.name, 'prof': prof, 'n': n, '_tags': tags}
            if f.name == 'aux_candidate_number':
                # distinct numbers / EQUAL numbers (stable: dictionary order) / occasionally a candidate without number (None)
                ids = fam_mod.candidates_of('simple', prof)
                mode = rng.choice(['distinct', 'distinct', 'equal', 'equal', 'none'])
                pool = rng.sample(range(1, 60), len(ids)) if mode == 'distinct' else [rng.randint(1, 3) for _ in ids]
                if mode == 'none':
                    pool[rng.randrange(len(pool))] = None
                c['numbers'] = [[i, v] for i, v in zip(ids, pool)]
                tags.append('numbers_' + mode)
            yield c
    # directed: very few votes for many seats (rounded quotas reach 0), ties for the last remainder seat
    for fam in ['lr_hare_rounded', 'lr_hagenbach_bischoff_rounded', 'lr_droop', 'lr_hare', 'qd_droop', 'lr_imperiali_subtract',
                'qd_imperiali_subtract']:
        m = rng.randint(3, 6)
        vals = [0] * m
        vals[rng.randrange(m)] = 1
        yield {'op': 'shape', 'family': fam, 'prof': [[i, str(v)] for i, v in enumerate(vals)], 'n': m, '_tags': ['dist', 'few_votes']}
        k = rng.randint(1, 3)
        yield {'op': 'shape', 'family': fam, 'prof': [[i, str(k)] for i in range(m)], 'n': rng.randint(1, m - 1),
               '_tags': ['dist', 'all_equal']}
    # directed: a WIDE tie at the cut - four to six candidates on exactly the same count contesting three or more places (one Tie object
    # repeated three times and more), with some candidates above and below: the multi-place tie paths of every rule on party totals
    # (Tie.break_by_list of the list-order tie-breaker advances through the tied group once per contested place)
    for f in F:
        if f.vtype == 'simple' and f.n_seats and not f.small_weights:
            for t in range(8 if tier == 'quick' else 120):
                tied = rng.randint(4, 6)
                above = rng.randint(0, 2)
                below = rng.randint(0, 2)
                v = rng.randint(2, 9)
                vals = [v + rng.randint(1, 5) for _ in range(above)] + [v] * tied + [rng.randint(0, v - 1) for _ in range(below)]
                rng.shuffle(vals)
                places = rng.randint(3, tied - 1)
                w = rng.choice([1, 1, 10 ** 18 + 3, Fraction(1, 3)])
                yield {'op': 'shape', 'family': f.name, 'prof': [[i, num_str(x * w)] for i, x in enumerate(vals)], 'n': above + places,
                       '_tags': [f.kind, 'wide_tie_three_or_more_places']}
    # directed: the withdrawal loop of on_overaward='subtract' run SEVERAL times over the same tied group (a low quota over-awards by
    # two or more seats while the smallest remainders are exactly equal): the tie entry is created, decremented and deleted again
    for fam in ['lr_imperiali_subtract', 'qd_imperiali_subtract', 'lr_hagenbach_bischoff_subtract']:
        for t in range(30 if tier == 'quick' else 600):
            g = rng.choice([2, 2, 2, 3])
            k = rng.choice([1, 2, 5, 10, 12])
            vals = [k] * g + [rng.choice([0, 0, 1, k // 2]) for _ in range(rng.choice([0, 0, 1, 2]))]
            rng.shuffle(vals)
            w = rng.choice([1, 1, 1, 10 ** 18 + 3, Fraction(1, 3)])
            yield {'op': 'shape', 'family': fam, 'prof': [[i, num_str(v * w)] for i, v in enumerate(vals)],
                   'n': rng.randint(1, len(vals)), '_tags': ['dist', 'subtract_repeated_tie']}
    # directed: open lists with MORE candidates over the jump threshold than seats and list leaders that do not jump (the party
    # list is in descending id order, the votes are independent of it): the cut among the jumpers / list-precedence branches
    for f in F:
        if f.name.startswith('openlist_'):
            for t in range(40 if tier == 'quick' else 400):
                m = rng.randint(4, 8)
                vals = [rng.choice([0, 1, 2]) if rng.random() < 0.3 else rng.randint(20, 60) for _ in range(m)]
                if sum(vals) == 0:
                    vals[0] = 5
                n = rng.randint(1, max(1, m // 2))
                yield {'op': 'shape', 'family': f.name, 'prof': [[i, str(v)] for i, v in enumerate(vals)], 'n': n,
                       '_tags': [f.kind, 'openlist_many_jumpers']}
    # directed: transferable vote with a candidate that occurs ONLY inside shared ranks and holds two quotas when 3-4 seats are filled
    for f in F:
        if f.name.startswith('stv_'):
            for t in range(12 if tier == 'quick' else 120):
                prof = fam_mod.gen_ranked_shared_only(rng, 4)
                yield {'op': 'shape', 'family': f.name, 'prof': prof, 'n': rng.choice([3, 4, 4]), '_tags': [f.kind, 'stv_shared_only_candidate']}
    # directed: a quota below Droop (imperiali): MORE candidates reach the quota than seats remain, with distinct surpluses
    for f in F:
        if f.name == 'stv_gregory_imperiali':
            for t in range(16 if tier == 'quick' else 160):
                n = rng.choice([1, 2, 2, 3])
                m = n + rng.randint(1, 2)
                base = rng.randint(20, 30)
                vals = sorted({base + 2 * i + rng.randint(0, 1) for i in range(m)}, reverse=True)
                prof = [[[i], str(v)] for i, v in enumerate(vals)]
                if rng.random() < 0.5:
                    prof.append([[len(vals), 0], str(rng.randint(1, 6))])
                rng.shuffle(prof)
                yield {'op': 'shape', 'family': f.name, 'prof': prof, 'n': n, '_tags': [f.kind, 'stv_more_over_quota_than_seats']}
    # directed: a full rotation (everybody tied everywhere) for all but one seat - the multi-seat tie branches of every ranked family
    for f in F:
        if f.vtype in ('ranked', 'ranked_noshared') and f.n_seats:
            m = rng.randint(3, 4)
            base = rng.sample(range(m), m)
            w = str(rng.choice([1, 2, 3]))
            yield {'op': 'shape', 'family': f.name, 'prof': [[base[i:] + base[:i], w] for i in range(m)], 'n': m - 1,
                   '_tags': [f.kind, 'rotation']}
    # directed: tie-heavy score profiles (narrow grade band, full ballots, 4-5 candidates) for every seat count: the tie-break
    # branches of majority judgment / STAR / score voting, incl. several candidates separating in one tie-break step
    for f in F:
        if fam_mod.base_vtype(f.vtype) == 'score':
            for t in range((150 if 'majority_judgment' in f.name else 30) if tier == 'quick' else 600):
                m = rng.choice([4, 4, 5])
                prof = fam_mod.gen_score_tied(rng, m)
                yield {'op': 'shape', 'family': f.name, 'prof': prof, 'n': rng.choice([2, 3, 3, 3, 4]), '_tags': [f.kind, 'score_tied']}
    # directed: a candidate named ONLY on a ballot of weight 0 (the profile keeps positive total weight), as many seats as candidates:
    # the zero-support candidate is needed to fill the seats
    for f in F:
        bt = fam_mod.base_vtype(f.vtype)
        if bt == 'simple':
            continue
        for t in range(6 if tier == 'quick' else 60):
            m = rng.randint(2, 4)
            prof = [bw for bw in fam_mod.gen_profile(rng, f.vtype, m) if Fraction(bw[1]) > 0]
            if not prof:
                continue
            new = 1 + max(fam_mod.candidates_of(bt, prof))
            other = rng.choice(fam_mod.candidates_of(bt, prof))
            if bt == 'ranked':
                zb = rng.choice([[new], [new, other], [other, new]])
            elif bt == 'approval':
                zb = rng.choice([[new], sorted([new, other])])
            else:
                zb = rng.choice([[[new, rng.randint(0, 5)]], sorted([[new, rng.randint(0, 5)], [other, rng.randint(0, 5)]])])
            prof = prof + [[zb, '0']]
            rng.shuffle(prof)
            cands = fam_mod.present_candidates(f, prof)
            if not cands:
                continue
            n = len(cands) if rng.random() < 0.7 else rng.randint(1, len(cands))
            yield {'op': 'shape', 'family': f.name, 'prof': prof, 'n': n if f.n_seats else 1,
                   '_tags': [f.kind, 'named_only_on_zero_weight_ballot']}
    yield {'op': 'shape', 'family': 'score_median_trunc_quarter', 'prof': [[[[0, 3], [1, 2]], '2'], [[[0, 1]], '8']], 'n': 1,
           '_tags': ['sel', 'truncation_empties']}
    if tier == 'thorough':
        yield from small_scope(F)
        # every n for a fixed profile
        for f in F:
            for t in range(10):
                m = rng.randint(2, 5)
                prof = fam_mod.gen_profile(rng, f.vtype, m)
                cands = fam_mod.present_candidates(f, prof)
                for n in range(1, len(cands) + 1):
                    yield {'op': 'shape', 'family': f.name, 'prof': prof, 'n': n, '_tags': [f.kind, 'all_n']}


def small_scope(F):
    """small-scope exhaustive enumeration (thorough tier): every simple profile over <= 3 parties with counts 0..3 (and 4 parties with
    counts 0..2), every ranked profile of one or two distinct strict ballots over 3 candidates with weights 1..2, every approval profile
    of one or two distinct ballots over 3 candidates - x every family of that vote type x every admissible n"""
    import itertools
    simple = []
    for m, top in ((1, 3), (2, 3), (3, 3), (4, 2)):
        for vals in itertools.product(range(top + 1), repeat=m):
            if sum(vals) > 0:
                simple.append([[i, str(v)] for i, v in enumerate(vals)])
    ballots = [list(p) for k in (1, 2, 3) for p in itertools.permutations(range(3), k)]
    ranked = [[[b, str(w)]] for b in ballots for w in (1, 2)]
    ranked += [[[a, str(wa)], [b, str(wb)]] for a, b in itertools.combinations(ballots, 2) for wa in (1, 2) for wb in (1, 2)]
    sets = [list(c) for k in (1, 2, 3) for c in itertools.combinations(range(3), k)]
    approval = [[[b, str(w)]] for b in sets for w in (1, 2)]
    approval += [[[a, str(wa)], [b, str(wb)]] for a, b in itertools.combinations(sets, 2) for wa in (1, 2) for wb in (1, 2)]
    by_type = {'simple': simple, 'ranked': ranked, 'ranked_noshared': ranked, 'approval': approval}
    for f in F:
        for prof in by_type.get(f.vtype, []):
            cands = fam_mod.present_candidates(f, prof)
            for n in (range(1, len(cands) + 1) if f.n_seats else [1]):
                yield {'op': 'shape', 'family': f.name, 'prof': prof, 'n': n, '_tags': [f.kind, 'small_scope']}


def candidate_numbers(case):
    """candidacy numbers of the candidates of an aux_candidate_number case: [[id, number | None], ...] (field `numbers`; cases without
    it use distinct numbers running against the ids)"""
    if case.get('numbers') is not None:
        return [list(x) for x in case['numbers']]
    return [[i, (7 * (50 - i)) % 53 + 1] for i in fam_mod.candidates_of('simple', case['prof'])]


def _numbered_names(case):
    """CandidateNumberRanker orders by the `number` attribute of the candidate objects: numbered votelib.candidate.Person objects
    (candidates without that attribute are outside the evaluator's admissible input)"""
    import votelib.candidate
    nums = dict((i, v) for i, v in candidate_numbers(case))
    top = max(nums) + 1
    return Names(names=[votelib.candidate.Person(f'cand{i}', number=nums.get(i)) for i in range(top)])


def impl(case):
    if case['family'] == 'aux_candidate_number':
        return fam_mod.run_family(fams()[case['family']], case['prof'], case['n'], _numbered_names(case))
    return fam_mod.run_family(fams()[case['family']], case['prof'], case['n'], NAMES)


def oracle(case, obs):
    f = fams()[case['family']]
    cands = set(fam_mod.present_candidates(f, case['prof']))
    n = case['n']
    out = []
    if isinstance(obs, dict) and 'err' in obs:
        if obs['err'] in DECLARED:
            return []
        if f.declared:
            return [('undeclared_exception:' + obs['err'], f'{f.name}: {obs["err"]}')]
        if f.name == 'aux_candidate_number' and obs['err'] == 'TypeError' and any(v is None for _, v in candidate_numbers(case)):
            return []      # a candidate WITHOUT candidacy number cannot be ranked by it: observation (the model says TypeError too)
        if obs['err'] == 'TypeError' and len(cands) >= n:
            # sentence 1 (every selection evaluator lists n entries when n candidates are present): a TypeError is never a
            # refusal of the election but a slip in a call (e.g. a missing argument) - no evaluator answers that way on purpose
            return [('no_result:TypeError', f'{f.name}: TypeError with {len(cands)} candidates for {n} seats')]
        return []          # observation only (counted in the evidence)
    if f.kind == 'dist':
        total = 0
        for k, v in obs:
            if not isinstance(v, int) or isinstance(v, bool) or v <= 0:
                out.append(('award_not_positive_integer', f'{k}: {v}'))
            else:
                total += v
            members = k['tie'] if isinstance(k, dict) else [k]
            if any(c not in cands for c in members):
                out.append(('unknown_candidate', str(k)))
        if f.partial:
            if total > n:
                out.append(('seat_total', f'{total} seats awarded for {n}'))
        elif total != n:
            out.append(('seat_total', f'{total} seats awarded for {n}'))
        return out
    elected = [x for x in obs if not isinstance(x, dict)]
    ties = [tuple(sorted(x['tie'])) for x in obs if isinstance(x, dict)]
    if any(c not in cands for c in elected) or any(c not in cands for T in ties for c in T):
        out.append(('unknown_candidate', str(obs)))
    if len(set(elected)) != len(elected):
        out.append(('candidate_twice', str(obs)))
    if f.kind == 'sel' and n <= len(cands):
        if (len(obs) > n) if f.partial else (len(obs) != n):
            out.append(('wrong_length', f'{len(obs)} entries for {n} seats ({len(cands)} candidates)'))
        for T in set(ties):
            if not ties.count(T) < len(T):
                out.append(('tie_not_larger_than_seats', f'tie {T} repeated {ties.count(T)} times'))
        if any(c in T for c in elected for T in ties):
            out.append(('candidate_twice', f'elected and tied: {obs}'))
    return out


def zero_quota(case):
    """a registered quota function that evaluates to 0 on this request (rounded quotas with very few votes)"""
    f = case['family']
    if not f.startswith(('lr_', 'qd_')):
        return False
    import votelib.component.quota as vq
    try:
        return vq.construct(f[3:].replace('_subtract', ''))(sum(Fraction(w) for _, w in case['prof']), case['n']) == 0
    except Exception:
        return False


# ---- the recorded defects' own preconditions, computed by the oracle independently of the implementation's code path and of the
# ---- Lean model: an open finding is only "known" on inputs where its recorded cause is present (anything else gets another signature)

def pa_passing(case):
    """PreferenceAddition (Bucklin / Oklahoma, shared ranks split evenly over their orders): the number of candidates whose cumulated
    preference total after the LAST round exceeds half the votes.  A candidate of a shared rank of size g starting at place s stands at
    each of the places s..s+g-1 in the same share of the orders, so its coefficient is the average over those places."""
    coef = (lambda i: Fraction(1)) if case['family'].startswith('bucklin') else (lambda i: Fraction(1, i + 1))
    whole = case['family'].endswith('_whole')      # split_equal_rankings=False: a shared rank is ONE place, every member gets it in full
    tot, total_w = {}, Fraction(0)
    for b, w in case['prof']:
        w = Fraction(w)
        total_w += w
        pos = 0
        for it in b:
            g = it if isinstance(it, list) else [it]
            avg = coef(pos) if whole else sum(coef(pos + j) for j in range(len(g))) / len(g)
            for c in g:
                tot[c] = tot.get(c, 0) + w * avg
            pos += 1 if whole else len(g)
    return sum(1 for v in tot.values() if v > total_w / 2)


def rp_unranked(case):
    """ranked pairs: lock the pairs of the pairwise dictionary from the strongest on (strength by the family's scorer, then by count,
    equal ones in dictionary order), skipping a pair that would close a cycle -> (candidates that win some locked pair, the others =
    the candidates the locked pairs leave unranked)"""
    pw = {(a, b): Fraction(w) for a, b, w in _pairwise(case)}
    kind = _bf(case['family'])[len('condorcet_rankedpairs_'):]
    if kind == 'winvotes':
        score = {p: (v if v > pw.get((p[1], p[0]), 0) else 0) for p, v in pw.items()}
    elif kind == 'margins':
        score = {p: v - pw.get((p[1], p[0]), 0) for p, v in pw.items()}
    else:
        score = dict(pw)
    order = sorted(pw, key=lambda p: (-score[p], -pw[p]))        # sorted() is stable: equal keys keep the dictionary order
    locked = []

    def reach(src, dst):
        seen, todo = {src}, [src]
        while todo:
            x = todo.pop()
            for a, b in locked:
                if a == x and b not in seen:
                    seen.add(b)
                    todo.append(b)
        return dst in seen
    for a, b in order:
        if not reach(b, a):
            locked.append((a, b))
    cands = {c for p in pw for c in p}
    sources = {a for a, _ in locked}
    return sources, cands - sources


def candidate_without_grades(case):
    """score profiles: is some candidate graded ONLY on ballots of weight 0?  (it then has no grade to aggregate: the recorded cause of
    the ZeroDivisionError / StatisticsError of finding C08-score-candidate-without-grades)"""
    if fam_mod.base_vtype(fams()[case['family']].vtype) != 'score':
        return False
    wt = {}
    for b, w in case['prof']:
        for c, _ in b:
            wt[c] = wt.get(c, 0) + Fraction(w)
    return any(v == 0 for v in wt.values())


def mj_candidate_runs_out(case):
    """majority judgment, default tie-break: the candidates level with the n-th median lose one median grade each per step (every one of
    them stays in the running until it is elected) until the medians fill the contested places.  Does some of them run out of grades
    while another still has some?  (the recorded cause of the StatisticsError: the median of no grades; when ALL run out together
    the evaluator refuses properly)"""
    grades = {}
    for b, w in case['prof']:
        for c, g in b:
            grades.setdefault(c, []).extend([Fraction(g)] * int(Fraction(w)))
    if any(len(l) == 0 for l in grades.values()):
        return False        # a candidate without any grade: not a tie-break matter (candidate_without_grades)

    def lmed(l):
        return sorted(l)[(len(l) - 1) // 2]

    def cut(med, k):
        srt = sorted(med.values(), reverse=True)
        tau = srt[k - 1]
        return [c for c, v in med.items() if v > tau], [c for c, v in med.items() if v == tau]
    k = case['n']
    if len(grades) <= k:
        return False
    above, level = cut({c: lmed(l) for c, l in grades.items()}, k)
    if len(above) + len(level) <= k:
        return False
    k -= len(above)
    ms = {c: list(grades[c]) for c in level}
    for _ in range(100000):
        if all(len(l) == 0 for l in ms.values()):
            return False
        if any(len(l) == 0 for l in ms.values()):
            return True
        med = {c: lmed(l) for c, l in ms.items()}
        above, level = cut(med, k)
        if len(above) + len(level) <= k:
            return False
        if above:
            k -= len(above)
            for c in above:
                del ms[c]
            continue
        for c, l in ms.items():
            l.remove(med[c])
    return False


def truncation_empties(case):
    """score voting with truncation 1/4: the cutoff int(n_voters / 4) is taken off both ends of every candidate's grades - is some
    candidate graded by at most 2 * cutoff voters?  (the recorded cause of the StatisticsError)"""
    n_votes = sum(int(Fraction(w)) for _, w in case['prof'])
    cutoff = int(Fraction(n_votes, 4))
    counts = {}
    for b, w in case['prof']:
        for c, _ in b:
            counts[c] = counts.get(c, 0) + int(Fraction(w))
    return cutoff > 0 and any(v <= 2 * cutoff for v in counts.values())


def signature(case, clause):
    f = case['family']
    if clause == 'undeclared_exception:ZeroDivisionError' and zero_quota(case):
        return 'shape:largest_remainder_family:zero_quota:' + clause
    grp = 'largest_remainder_family' if f.startswith(('lr_', 'qd_')) else 'preference_addition' if f in ('bucklin', 'oklahoma', 'bucklin_whole', 'oklahoma_whole') else 'ranked_pairs' if f.startswith('condorcet_rankedpairs') else f
    try:
        if f in CARDINAL and clause.startswith('undeclared_exception:') and candidate_without_grades(case):
            return 'shape:score_family:candidate_without_grades'
        if grp == 'preference_addition' and clause == 'wrong_length':
            obs = impl(case)
            recorded = (isinstance(obs, list) and not any(isinstance(x, dict) for x in obs) and len(obs) < case['n']
                        and len(obs) == pa_passing(case))
            if not recorded:
                return f'shape:{grp}:wrong_length:not_the_majority_quota_count'
        if grp == 'ranked_pairs' and clause == 'wrong_length':
            obs = impl(case)
            sources, rest = rp_unranked(case)
            cands = sources | rest
            recorded = (isinstance(obs, list) and not any(isinstance(x, dict) for x in obs) and len(rest) >= 2
                        and len(obs) == len(sources) + 1 and sources <= set(obs) and (cands - set(obs)) <= rest)
            if not recorded:
                return f'shape:{grp}:wrong_length:not_the_unranked_leftovers'
        if f == 'majority_judgment' and clause == 'undeclared_exception:StatisticsError' and not mj_candidate_runs_out(case):
            return f'shape:{grp}:{clause}:no_candidate_runs_out_of_grades'
        if f == 'score_median_trunc_quarter' and clause == 'undeclared_exception:StatisticsError' and not truncation_empties(case):
            return f'shape:{grp}:{clause}:no_candidate_emptied_by_the_cutoff'
    except Exception:           # (the precondition functions are total; should one fail, the violation is NOT the recorded one)
        return f'shape:{grp}:{clause}:not_the_recorded_cause'
    return f"shape:{grp}:{clause}"


def nontrivial(case, obs):
    return not (isinstance(obs, dict) and 'err' in obs)


def _pairwise(case):
    """the pairwise dictionary the family's REAL converter makes of the ranked profile (both modes of unranked_at_bottom)"""
    import votelib.convert as cv
    pw = cv.RankedToCondorcetVotes(unranked_at_bottom=fams()[case['family']].at_bottom).convert(fam_mod.build('ranked', case['prof'], NAMES))
    return [[NAMES.i(a), NAMES.i(b), num_str(w)] for (a, b), w in pw.items()]


def _bf(f):
    return f[:-len('_sparse')] if f.endswith('_sparse') else f


def model_line(case):
    f = _bf(case['family'])
    if f == 'plurality':
        return {'op': 'plurality', 'n': case['n'], 'votes': case['prof']}
    if f in PROVED_FAMILIES and f.startswith('ha_'):
        return {'op': 'ha', 'divisor': f[3:], 'first_coef': None, 'votes': case['prof'], 'n': case['n'], 'prev': [], 'max': []}
    if f.startswith(('lr_', 'qd_')):
        pol = 'subtract' if f.endswith('_subtract') else 'error'
        return {'op': f[:2], 'quota': f[3:].replace('_subtract', ''), 'accept_equal': True, 'on_overaward': pol, 'n': case['n'], 'votes': case['prof'],
                'prev': None, 'max': None}
    if f.startswith('condorcet_') and f[len('condorcet_'):] in CONDORCET_MODELLED:
        # the evaluator's admissible vote type is the pairwise dictionary: convert with the REAL converter (C13) and send
        # the dictionary in its insertion order to the C05 model of the evaluator
        return {'op': 'eval', 'name': f[len('condorcet_'):], 'n': case['n'], 'votes': _pairwise(case)}
    if f in POSITIONAL:
        return {'op': 'positional_plurality', 'scorer': POSITIONAL_CFG[f], 'votes': case['prof'], 'n': case['n']}
    if f in ('approval_av', 'approval_sav'):
        return {'op': 'approval_plurality', 'split': f == 'approval_sav', 'votes': case['prof'], 'n': case['n']}
    if f in STV:
        quota, form = STV[f]
        votes = [[[[NAMES.i(x) for x in frozenset(NAMES.n(i) for i in it)] if isinstance(it, list) else it for it in b], w]
                 for b, w in case['prof']]       # shared ranks in the iteration order of the frozenset the implementation sees
        return {'op': 'stv_eval', 'form': form, 'method': 'gregory', 'quota': quota, 'accept_equal': not f.endswith('_strict'),
                'mandatory': False, 'step': -1, 'n': case['n'], 'prev': [], 'max': [], 'draws': [], 'votes': votes}
    if f in THRESHOLDS:
        op, t, eq = THRESHOLDS[f]
        return {'op': op, 'votes': case['prof'], 'threshold': t, 'accept_equal': eq}
    if f in ('approval_pav', 'approval_spav'):
        return {'op': f[len('approval_'):], 'votes': case['prof'], 'n': case['n']}
    if f in CARDINAL:
        if not all(Fraction(w).denominator == 1 for _, w in case['prof']):
            return None          # the aggregation expands one element per vote: integer counts only (C12)
        line = {'votes': [[[[c, num_str(sc)] for c, sc in b], int(Fraction(w))] for b, w in case['prof']], 'n': case['n'],
                'function': 'mean', 'unscored': None, 'min_count': 0, 'truncation': '0', 'bottom': '0'}
        line.update(CARDINAL[f])
        return line
    if f == 'baldwin':
        return {'op': 'baldwin', 'votes': case['prof'], 'n': case['n']}
    if f in ('bucklin', 'oklahoma', 'bucklin_whole', 'oklahoma_whole'):
        return {'op': 'preference_addition', 'votes': case['prof'], 'n': case['n'], 'coef': f.split('_')[0], 'split': not f.endswith('_whole')}
    if f == 'tiebreaking_plurality_input_order':
        return {'op': 'tb_plurality', 'votes': case['prof'], 'n': case['n']}
    if f == 'tiebreaking_lr_hare_input_order':
        return {'op': 'tb_lr', 'quota': 'hare', 'accept_equal': True, 'on_overaward': 'error', 'n': case['n'], 'votes': case['prof']}
    if f == 'tiebreaking_ha_input_order':
        return {'op': 'tb_ha', 'divisor': 'd_hondt', 'first_coef': None, 'votes': case['prof'], 'n': case['n'], 'prev': [], 'max': []}
    if f == 'aux_input_order':
        return {'op': 'input_order', 'votes': case['prof'], 'n': case['n']}
    if f in ('aux_sortitor', 'aux_random_ballot'):
        if not all(Fraction(w).denominator == 1 for _, w in case['prof']):
            return None          # rational counts take another branch of select_n_random (integer counts only)
        return {'op': 'sortitor' if f == 'aux_sortitor' else 'random_ballot', 'votes': case['prof'], 'n': case['n'],
                'draws': [num_str(d) for d in _recorded_draws(case)]}
    if f == 'aux_rfc3797':
        ev = fams()[f].make()
        return {'op': 'rfc3797', 'votes': case['prof'], 'n': case['n'], 'draws': [ev._random_value(i) for i in range(case['n'])]}
    if f == 'aux_candidate_number':
        return {'op': 'candidate_number', 'votes': case['prof'], 'n': case['n'], 'numbers': candidate_numbers(case)}
    if f == 'threshold_alternative':
        return {'op': 'seatless', 'votes': case['prof'], 'prev': None, 'members': [], 'props': [],
                'sel': {'k': 'alt', 'parts': [{'k': 'abs', 't': '2', 'eq': True}, {'k': 'rel', 't': '1/5', 'eq': True}]}}
    if f in ('condorcet_winner', 'smith_set', 'schwartz_set'):
        return {'op': {'condorcet_winner': 'cw', 'smith_set': 'smith', 'schwartz_set': 'schwartz'}[f], 'votes': _pairwise(case)}
    if f == 'benham' and case['n'] == 1:
        return {'op': 'benham', 'profile': case['prof']}
    if f == 'tideman_alternative':
        # one seat: `tideman`; any number of seats (since fixes 33df8fe / bddde61): `tidemanN`, one tier per seat
        line = {'op': 'tideman', 'profile': case['prof'], 'smith': True}
        if case['n'] != 1:
            line['n'] = case['n']
        return line
    if f.startswith('openlist_'):
        clist = sorted(fam_mod.candidates_of('simple', case['prof']), reverse=True)
        if f == 'openlist_tiebreaker_plurality':
            return {'op': 'tiebreak', 'votes': case['prof'], 'n': case['n'], 'list': clist, 'inner': 'plurality'}
        cfg = OPENLIST[f]
        return dict(cfg, op='openlist', votes=case['prof'], n=case['n'], list=clist)
    if f.startswith('quota_selector_'):
        return {'op': 'quota_selector', 'n': case['n'], 'votes': case['prof'], 'quota': f[len('quota_selector_'):],
                'accept_equal': True, 'on_more': 'select'}
    return None


def _recorded_draws(case):
    """the values random.randrange really returns while the implementation evaluates the case (the seeded generator of the random
    selectors): the model's `draws` parameter"""
    import random
    rec = []
    orig = random.randrange

    def recording(*a, **kw):
        v = orig(*a, **kw)
        rec.append(v)
        return v
    random.randrange = recording
    try:
        fam_mod.run_family(fams()[case['family']], case['prof'], case['n'], NAMES)
    finally:
        random.randrange = orig
    return rec


def has_shared(prof):
    return any(isinstance(it, list) for b, _ in prof for it in b)


def sel_unordered(obs):
    """selection result up to the order of the individually elected candidates (the order among equal scores follows the
    iteration order of a frozenset / the insertion order of an unordered set: C10's subject, not C08's)"""
    if isinstance(obs, dict):
        return obs
    obs = canon(obs)
    return [sorted(x for x in obs if not isinstance(x, dict)), [x for x in obs if isinstance(x, dict)]]


def compare(case, iobs, mobs):
    if case['family'] in CARDINAL or case['family'] in ('approval_pav', 'approval_spav'):
        # ballots are frozensets: equal scores come in hash order (the C12 correspondence canonicalises by the score keys; C08
        # compares the shape: elected set + tie places)
        if isinstance(mobs, dict) and 'sel' in mobs:
            mobs = mobs['sel']
        a, b = sel_unordered(iobs), sel_unordered(mobs)
        if a != b and case['family'] == 'allocated_score_hare':
            # the outcome of allocated score depends on the order in which tied round winners are processed = the iteration order
            # of a Tie frozenset (open finding C12-allocated-score-tie-order).  The model reads it as ascending candidate id: re-run the
            # REAL evaluator with candidate objects that hash to their id (C12's device) and compare that run
            from props.C12 import K
            ids = 1 + max(c for b, _ in case['prof'] for c, _ in b)
            alt = fam_mod.run_family(fams()[case['family']], case['prof'], case['n'], Names(names=[K(i) for i in range(ids)]))
            a = sel_unordered(alt)
            if a == b:
                return None
        a, b = sel_unordered(iobs), sel_unordered(mobs)
        return None if a == b else f'impl={json.dumps(a)} model={json.dumps(b)} (order-insensitive: frozenset ballots)'
    if (case['family'] in POSITIONAL + ('baldwin', 'bucklin', 'oklahoma', 'bucklin_whole', 'oklahoma_whole') and has_shared(case['prof'])) or case['family'] in ('approval_av', 'approval_sav'):
        a, b = sel_unordered(iobs), sel_unordered(mobs)
        return None if a == b else f'impl={json.dumps(a)} model={json.dumps(b)} (order-insensitive: frozenset ballots)'
    if case['family'].startswith('condorcet_') and not case['family'].startswith('condorcet_winner'):
        import props.C05 as P05
        return P05.compare({'op': 'eval', 'name': _bf(case['family'])[len('condorcet_'):]}, iobs, mobs)
    if case['family'] == 'threshold_alternative':
        # candidates of equal mean rank come in the iteration order of a Python set
        a, b = (iobs if isinstance(iobs, dict) else sorted(iobs)), (mobs if isinstance(mobs, dict) else sorted(mobs))
    elif _bf(case['family']) in ('condorcet_winner', 'smith_set', 'schwartz_set'):
        # the order inside the set follows the Copeland ordering, ties in dict order: compare as the code returns it
        a, b = canon(iobs), canon(mobs)
    elif case['family'].startswith(('ha_', 'lr_', 'qd_')) or case['family'] in ('stv_dist_gregory_droop', 'tiebreaking_ha_input_order',
                                                                              'tiebreaking_lr_hare_input_order'):
        a, b = canon(iobs), canon_dist(mobs)
    else:
        a, b = canon(iobs), canon(mobs)
    if a != b:
        return f'impl={json.dumps(a)} model={json.dumps(b)}'
    return None


_gen = generate


def generate(rng, tier):    # noqa
    for c in _gen(rng, tier):
        if model_line(c) is not None:
            c['_tags'].append('modelled')
        o = impl(c)
        if isinstance(o, dict) and o.get('err') in DECLARED:
            c['_tags'].append('refusal')
        elif isinstance(o, dict):
            c['_tags'].append('observation:' + case_family_err(c, o))
        elif any(isinstance(x, dict) for x in o) or any(isinstance(k, dict) for k, *_ in [x for x in o if isinstance(x, list)]):
            c['_tags'].append('tie_in_result')
        yield c


def case_family_err(c, o):
    return f"{c['family']}:{o.get('err')}"


def describe(case):
    return f"{case['family']}: evaluate(profile, {case['n']}); profile={case['prof']}"


def shrink_candidates(case):
    p = case['prof']
    for i in range(len(p)):
        if len(p) > 1:
            c = dict(case)
            c['prof'] = p[:i] + p[i+1:]
            cands = fam_mod.present_candidates(fams()[case['family']], c['prof'])
            if case['n'] <= len(cands) and sum(Fraction(w) for _, w in c['prof']) > 0:
                yield c
    if case['n'] > 1:
        c = dict(case)
        c['n'] = case['n'] - 1
        yield c


TECHNIQUE = ('Lean 4 shape and refusal theorems (selection / distribution / seat-less schemata) about the executable models of every evaluator family + '
             'differential correspondence of those models with the implementation + shape oracle on the implementation over every family found by reflection')
LEVEL_TEXT = ('For every modelled evaluator family the result-shape schema (exactly n entries, candidates from the votes, nobody twice, a tie repeated once per '
              'contested seat and larger than those seats; positive integer awards to parties of the votes summing to the seats to fill; distinct candidates for '
              'seat-less selectors) and the refusal clause (the only error outcomes are VotingSystemError / NotImplementedError) are Lean theorems for ALL inputs '
              'under explicit decidable well-formedness: plurality, quota selector, highest averages, largest remainder and quota distributor (all three '
              'over-award policies), STV selector and distributor, Copeland (both), Schulze, minimax (three scorers), Kemeny-Young, Benham (one seat), Tideman alternative (n seats), allocated score, positional voting (six scorers), '
              'AV, SAV, PAV, SPAV, score voting, majority judgment (shape; refusals for tie_breaking=plus), STAR, Baldwin, thresholds, open list, list tie-breaker, '
              'Condorcet winner / Smith / Schwartz sets, InputOrderSelector, CandidateNumberRanker, Sortitor / RandomUnrankedBallotSelector / RFC3797Selector (for every draw sequence). Where the code violates the schema the strongest true part is proved (_partial) and the '
              'violation is a kernel-checked witness + open finding: ranked pairs and PreferenceAddition (short lists), majority judgment default tie-break (StatisticsError), a score candidate graded only on zero-weight ballots (ZeroDivisionError / StatisticsError), score truncation (StatisticsError).')
LEVEL_NOTE = ('Trusted: Lean kernel + standard axioms; the models are tied to the code by the correspondence run of this check (and of the owning properties). '
              'Wrappers and nested-vote evaluators are exercised by C14/C07/C18.')
