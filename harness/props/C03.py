"""C03 — transferable-vote counts conserve votes and eliminate only the lowest (count by count)."""
import itertools
from fractions import Fraction
from common import *   # noqa
from props.stvlib import *   # noqa
from props import stvlib

ID = 'C03'
NAMESPACE = 'VL.C03'
LEAN_MODULES = ['VotelibProofs.Props.C03']
GEN_MODULES = ['Quota']
REQUIRED = ['gregory_subtract_exact', 'gregory_split_equal', 'gregory_meets_spec', 'hare_meets_spec',
            'hare_draws_in_contract', 'hare_draw_outside_contract',
            'conservation', 'conservation_runCounts', 'conservation_gregory', 'conservation_hare', 'conservation_step',
            'trace_states_reached', 'weights_nonneg', 'topCont_some_iff', 'topCont_none_iff',
            'rests_with_top_continuing', 'exhausted_only_when_none_remains', 'rests_with_top_of_strict_prefix', 'topItem_some_iff', 'rests_with_top_rank', 'shared_first_rank_divides_equally',
            'elected_only_by_quota_or_last_standing', 'retained_count_formula', 'eliminates_exactly_lowest',
            'exhausted_pile_never_contender', 'removed_after_election_are_elected']
NAME_MODES = ['str', 'int0', 'empty0', 'person', 'tuple']
REQUIRED_COUNTERS = ['selector_next_count', 'selector_next_count_answered', 'surplus_transfer', 'exhausted_pile_gt_candidate', 'shared_first_rank', 'zero_first_pref_candidate',
                     'eliminate_step_-2', 'mandatory_quota', 'multi_seat_candidate', 'hare_draw', 'shortcut',
                     'elimination', 'refusal', 'fraction_weights', 'stv_next', 'stv_nth', 'distributor',
                     # generator audit (harness/GENERATOR_CHECKLIST.md)
                     'big_on_quota', 'big_below_quota', 'big_above_quota', 'big_two_quotas', 'big_near_tie', 'decimal_weights',
                     'decimal_long', 'zero_total', 'shared_only_candidate', 'shared_rank_3', 'shared_rank_4plus',
                     'exhausted_several_quotas', 'overcount_correction', 'prev_absent_party', 'cap_reached_cumulatively',
                     'quota_callable', 'quota_constant', 'quota_none', 'transferer_by_name', 'retainer_plurality', 'step_positive',
                     'step_none', 'sens_accept_equal', 'sens_mandatory_quota', 'sens_eliminate_step', 'warmup_refusal',
                     'warmup_larger', 'warmup_other_n', 'warmup_big',
                     # no returned state may be changed by a later call
                     'reexhaust_trace', 'reexhaust_nth', 'count_taken_twice', 'nth_snapshot_checked',
                     # checklist items 10-12
                     'three_elected_one_count', 'two_on_quota_exactly', 'two_on_quota_exactly_not_accepted', 'hare_3way_remainder2',
                     'step2_tie_inside_eliminated', 'step2_tie_at_boundary', 'two_over_awarded', 'quota_below_one',
                     'fewer_votes_than_seats', 'n_seats_zero', 'cross_selector_options', 'cross_distributor_options',
                     'deep_only_candidate_last_ballot_short']
RULE = ('(audited against harness/GENERATOR_CHECKLIST.md) ranked profiles over 1-6 candidates, 1-10 ballot types (truncated, shared ranks, empty ballots, zero-first-preference '
        'candidates), weights from a tie-forcing small set / Fractions / integers up to 10^20, n_seats 1..#candidates, Gregory and '
        'Hare(seed) transfer, quota droop / hare / hagenbach_bischoff / None, accept_quota_equal, mandatory_quota, eliminate_step '
        '-1/-2, selector and distributor form (max_seats up to 3, prev_gains); every evaluate() run is recorded count by count '
        '(stv_trace), plus single counts from synthetic states with a large exhausted pile (stv_next) and nth_count (stv_nth). '
        'Non-trivial = at least two candidates and at least one executed count; distinct by canonical request.')
NOT_VERIFIED = ['Decimal (and float) vote counts: the STV classes raise TypeError in every configuration (Fraction(Decimal, ...) in the '
                'quota functions / Decimal // float without a quota); generated as a pinned refusal, whatever is returned instead is compared',
                'a retainer other than Plurality(), a non-negative eliminate_step once nobody is left (IndexError instead of '
                'VotingSystemError): outside the quantifier, accepted as equivalent outcomes',
                'random module: Hare draws are recorded from distribute_n_random and replayed to the model as an oracle stream '
                '(each checked against the DrawOK contract, which the model enforces as well)',
                'iteration order of frozensets (shared ranks) is passed to the model as observed in the harness process',
                'order of papers inside a pile (compared as multisets)',
                'a custom retainer, previous gains above n_seats, non-positive quota values (explicit unmodelled outcomes)',
                'dict equality `new_allocation == allocation` is modelled as "nothing elected and nothing eliminated"']
EXHAUSTIVE = {'thorough': False}
_CACHE = {}
UNPROVED = []


# ------------------------------------------------------------------------------------------------
# implementation side

def _bad_clause(msg):
    return ('float_in_exact_path' if msg.startswith('float in') else 'object_changed_in_place' if msg.startswith('aliasing')
            else 'draw_contract')


def _tag(case, *tags):
    ts = case.setdefault('_tags', [])
    for t in tags:
        if t not in ts:
            ts.append(t)


def _selector_next(case, votes, n):
    """the selector's own count API (TransferableVoteSelector.next_count, sequential.py L429-458) driven from initial_allocation,
    next to the distributor's count under caps of one seat (which the model covers): (got, expected); Gregory only (no draws)"""
    import votelib.evaluate.sequential as seq
    import votelib.util as vutil

    def one(run):
        try:
            a, e = call_with_timeout(run, 5)
            names = sorted(NAMES.i(c) for c in (e if isinstance(e, list) else list(e)))
            return {'alloc': enc_alloc(a), 'elected': names}
        except Exception as ex:      # noqa
            return {'err': err_name(ex), 'msg': str(ex)[:160]}
    total = sum(votes.values())
    d1 = make_distributor(case)
    sel = seq.TransferableVoteSelector(d1)
    got = one(lambda: sel.next_count(seq.initial_allocation(votes, d1.transferer), n, total, []))
    d2 = make_distributor(case)
    caps = {c: 1 for c in vutil.all_ranked_candidates(votes)}
    exp = one(lambda: d2.next_count(seq.initial_allocation(votes, d2.transferer), n, total, prev_gains={}, max_seats=caps))
    return got, exp


def _run_trace(case):
    import votelib.evaluate.sequential as seq
    votes = py_votes(case)
    n = case['n']
    prev = seats_dict(case.get('prev'))
    maxs = seats_dict(case.get('max'))
    selector = case.get('form', 'selector') == 'selector'
    # initial allocation on its own (Hare(seed) reseeds before every draw, so it is reproducible)
    with DrawRecorder() as dr0:
        try:
            init = enc_alloc(call_with_timeout(lambda: seq.initial_allocation(votes, make_distributor(case).transferer), 5))
        except Exception as e:      # noqa
            init = {'err': err_name(e)}
    if selector:
        res, counts, draws, bad, msg = record_run(case, lambda d, s: s.evaluate(votes, n), args={'votes': votes})
        result = res if isinstance(res, dict) else [NAMES.i(c) for c in res]
    else:
        pg, ms = dict(prev), dict(maxs)
        res, counts, draws, bad, msg = record_run(case, lambda d, s: d.evaluate(votes, n, prev_gains=pg, max_seats=ms),
                                                  args={'votes': votes, 'prev_gains': pg, 'max_seats': ms}, form='distributor')
        result = res if isinstance(res, dict) and 'err' in res else enc_seats(res)
    if counts:
        # the allocation the first count started from is the initial allocation of this very run (an unseeded Hare draws anew)
        init = counts[0]['alloc_in']
    out_counts = []
    compared = counts
    if isinstance(result, dict) and result.get('err') == 'VotingSystemError' and counts and 'err' not in counts[-1]:
        compared = counts[:-1]      # the count that made no progress: nth_count raises instead of storing it
    seats = dict(prev) if not selector else {}
    by_quota = 0
    for rec in compared:
        if 'err' in rec:
            break
        for c, k in rec['elected']:
            seats[NAMES.n(c)] = seats.get(NAMES.n(c), 0) + k
        if not rec['shortcut']:
            by_quota += sum(k for _, k in rec['elected'])
        out_counts.append({'alloc': rec['alloc'], 'seats': enc_seats(seats), 'by_quota': by_quota, 'final': rec['shortcut']})
    quota = None
    for rec in counts:
        if rec.get('quota') is not None:
            quota = rec['quota']
    selnext = None
    if selector and case.get('method') == 'gregory' and not case.get('warmup'):
        selnext = _selector_next(case, votes, n)
    return {'init': init, 'counts': out_counts, 'result': result, 'quota': quota,
            '_detail': counts, '_draws': draws, '_bad_draws': bad + dr0.bad, '_msg': msg, '_selnext': selnext}


def _run_next(case):
    alloc = py_alloc(case['alloc'])
    prev = seats_dict(case.get('prev'))
    maxs = seats_dict(case.get('max'))
    total = num(case['total'])

    twice = not (case['method'] == 'hare' and case.get('transferer_form') == 'name')      # an unseeded Hare draws anew

    pg, ms = dict(prev), dict(maxs)

    def call(d, s):
        r1 = d.next_count(alloc, case['n'], total, prev_gains=pg, max_seats=ms)
        if twice:
            # the same count once more from the very same state object
            d.next_count(alloc, case['n'], total, prev_gains=pg, max_seats=ms)
        return r1
    res, counts, draws, bad, msg = record_run(case, call, args={'allocation': alloc, 'prev_gains': pg, 'max_seats': ms},
                                              form='distributor')
    if isinstance(res, dict) and 'err' in res:
        return {'err': res['err'], '_draws': draws, '_bad_draws': bad, '_msg': msg, '_detail': counts}
    rec = counts[0]
    repeat = None
    if twice and len(counts) >= 2:
        _tag(case, 'count_taken_twice')
        r2 = counts[1]
        if 'err' in r2:
            repeat = f"the second time the count raised {r2['err']}"
        else:
            for k in ('alloc_in', 'alloc', 'elected', 'shortcut', 'eliminated'):
                if json.dumps(rec[k]) != json.dumps(r2[k]):
                    repeat = f'{k} differs the second time: {rec[k]} then {r2[k]}'
                    break
    return {'alloc': rec['alloc'], 'elected': rec['elected'], 'eliminated': rec['eliminated'], 'shortcut': rec['shortcut'],
            'quota': rec['quota'], '_draws': draws, '_bad_draws': bad, '_detail': counts, '_repeat': repeat}


def _run_nth(case):
    votes = py_votes(case)
    n, k = case['n'], case['k']
    selector = case.get('form', 'selector') == 'selector'
    if selector:
        res, counts, draws, bad, msg = record_run(case, lambda d, s: s.nth_count(votes, n, k), args={'votes': votes})
    else:
        pg, ms = seats_dict(case.get('prev')), seats_dict(case.get('max'))
        res, counts, draws, bad, msg = record_run(
            case, lambda d, s: d.nth_count(votes, n, k, prev_gains=pg, max_seats=ms),
            args={'votes': votes, 'prev_gains': pg, 'max_seats': ms}, form='distributor')
    if isinstance(res, dict) and 'err' in res:
        return {'err': res['err'], '_draws': draws, '_bad_draws': bad, '_detail': counts}
    totals, seats = res
    return {'totals': [[None if h is None else NAMES.i(h), num_str(t)] for h, t in totals.items()],
            'seats': [NAMES.i(c) for c in seats] if selector else enc_seats(seats), '_draws': draws, '_bad_draws': bad,
            '_detail': counts}


def impl(case):
    try:
        with hard_guard():
            return _impl(case)
    except HarnessTimeout as e:
        _CACHE[case_key(case)] = []
        base = {'_draws': [], '_bad_draws': [], '_detail': [], '_msg': str(e)}
        if case['op'] == 'stv_trace':
            return dict(base, init={'err': 'CaseExceedsTimeBudget'}, counts=[], result={'err': 'CaseExceedsTimeBudget'}, quota=None)
        return dict(base, err='CaseExceedsTimeBudget')


def _impl(case):
    key = case_key(case)
    if case['op'] == 'stv_trace':
        obs = _run_trace(case)
        _retag_trace(case, obs)
    elif case['op'] == 'stv_next':
        obs = _run_next(case)
        _tag(case, 'stv_next')
        if obs.get('err') == 'NotImplementedError':
            _tag(case, 'refusal')
        if 'alloc' in obs:
            _tag(case, 'shortcut' if obs['shortcut'] else ('elimination' if not obs['elected'] else 'quota_election'))
            tot = _totals(case['alloc'])
            if not obs['shortcut'] and not obs['elected'] and None in tot and any(tot[None] > t for h, t in tot.items() if h is not None):
                _tag(case, 'exhausted_pile_gt_candidate')
    elif case['op'] == 'stv_nth':
        obs = _run_nth(case)
        _tag(case, 'stv_nth')
        if _grows_existing_exhausted((obs.get('_detail') or [])[-1:]):
            _tag(case, 'reexhaust_nth')     # the last executed count adds to an exhausted pile of the reported state
    else:
        raise ValueError(case['op'])
    obs, leak = defloat(obs)
    if leak and not any(str(b).startswith('float in') for b in obs.get('_bad_draws', [])):
        obs.setdefault('_bad_draws', []).insert(0, 'float in an exact path: ' + leak)
    _CACHE[key] = obs.get('_draws', [])
    if obs.get('_draws'):
        _tag(case, 'hare_draw')
    return obs


def _retag_trace(case, obs):
    if case.get('form', 'selector') != 'selector':
        _tag(case, 'distributor')
    if case.get('step', -1) == -2:
        _tag(case, 'eliminate_step_-2')
    if case.get('mandatory'):
        _tag(case, 'mandatory_quota')
    if obs.get('_selnext'):
        _tag(case, 'selector_next_count')
        if 'err' not in obs['_selnext'][1]:
            _tag(case, 'selector_next_count_answered')
    if any(Fraction(w).denominator != 1 for _, w in case['votes']):
        _tag(case, 'fraction_weights')
    if any(b and isinstance(b[0], list) for b, _ in case['votes']):
        _tag(case, 'shared_first_rank')
    firsts = set()
    for b, _ in case['votes']:
        if b:
            firsts.update(b[0] if isinstance(b[0], list) else [b[0]])
    if set(profile_cands(case['votes'])) - firsts:
        _tag(case, 'zero_first_pref_candidate')
    if isinstance(obs['result'], dict) and obs['result'].get('err') == 'NotImplementedError':
        _tag(case, 'refusal')
    for b, _ in case['votes']:
        for it in b:
            if isinstance(it, list) and len(it) == 3:
                _tag(case, 'shared_rank_3')
            if isinstance(it, list) and len(it) >= 4:
                _tag(case, 'shared_rank_4plus')
    alone = {it for b, _ in case['votes'] for it in b if not isinstance(it, list)}
    if any(c not in alone for c in profile_cands(case['votes'])):
        _tag(case, 'shared_only_candidate')
    if case.get('wtype') == 'decimal':
        _tag(case, 'decimal_weights')
        if any(Fraction(w).denominator > 10 ** 6 for _, w in case['votes']):
            _tag(case, 'decimal_long')
    if case['votes'] and sum(Fraction(w) for _, w in case['votes']) == 0:
        _tag(case, 'zero_total')
    q_form = case.get('quota')
    _tag(case, 'quota_none' if q_form is None else 'quota_constant' if quota_is_const(q_form)
         else 'quota_callable' if case.get('quota_form') == 'callable' else 'quota_name')
    if case.get('transferer_form') == 'name':
        _tag(case, 'transferer_by_name')
    if case.get('retainer'):
        _tag(case, 'retainer_plurality')
    if case.get('step', -1) is None:
        _tag(case, 'step_none')
    elif case.get('step', -1) >= 0:
        _tag(case, 'step_positive')
    if case.get('warmup'):
        _tag(case, 'warmup_' + case.get('_warm_kind', 'x'))
    if deep_only_after_last(case['votes']):
        _tag(case, 'deep_only_candidate_last_ballot_short')
    if _grows_existing_exhausted(obs['_detail']):
        _tag(case, 'reexhaust_trace')
    if case['n'] == 0:
        _tag(case, 'n_seats_zero')
    if case['votes'] and 0 < sum(Fraction(w) for _, w in case['votes']) < case['n']:
        _tag(case, 'fewer_votes_than_seats')
    if any(d.get('c') is not None and d.get('_k', 0) >= 3 and Fraction(d.get('_n', '0')) >= 2 for d in obs.get('_draws') or []):
        _tag(case, 'hare_3way_remainder2')
    for rec in obs['_detail']:
        if 'err' in rec or rec['shortcut']:
            continue
        qv = Fraction(rec['quota']) if rec.get('quota') is not None else None
        tin = _totals(rec['alloc_in'])
        if qv is not None and 0 < qv < 1:
            _tag(case, 'quota_below_one')
        if len(rec['elected']) >= 3:
            _tag(case, 'three_elected_one_count')
        if qv is not None and sum(1 for c, k in rec['elected'] if tin.get(c) == k * qv) >= 2:
            _tag(case, 'two_on_quota_exactly')
        if qv is not None and qv > 0 and rec['elected']:
            n_rem = case['n'] - sum(k for _, k in rec['prev'])
            if sum(1 for h, t in tin.items() if h is not None and t >= qv) - n_rem >= 2 and n_rem >= 1:
                _tag(case, 'two_over_awarded')
        if case.get('step', -1) == -2 and not rec['elected'] and len(rec['eliminated']) == 2 \
                and tin.get(rec['eliminated'][0]) == tin.get(rec['eliminated'][1]):
            _tag(case, 'step2_tie_inside_eliminated')
    if case.get('form', 'selector') != 'selector' and any(c not in profile_cands(case['votes']) for c, _ in case.get('prev') or []):
        _tag(case, 'prev_absent_party')
    times = {}
    for rec in obs['_detail']:
        if 'err' in rec:
            continue
        for c, k in rec['elected']:
            if k:
                times[c] = times.get(c, 0) + 1
        tot_in = _totals(rec['alloc_in'])
        qv = Fraction(rec['quota']) if rec.get('quota') else None
        if qv is not None and qv > 0 and None in tot_in and tot_in[None] >= 2 * qv:
            _tag(case, 'exhausted_several_quotas')
        if qv is not None and qv > 0 and not rec['shortcut'] and rec['elected']:
            n_rem = case['n'] - sum(k for _, k in rec['prev'])
            if sum(1 for h, t in tot_in.items() if h is not None and t >= qv) > n_rem >= 1:
                _tag(case, 'overcount_correction')
    if any(v >= 2 for v in times.values()):
        _tag(case, 'cap_reached_cumulatively')
    for rec in obs['_detail']:
        if 'err' in rec:
            continue
        if rec['shortcut']:
            _tag(case, 'shortcut')
        elif rec['elected']:
            if any(k >= 2 for _, k in rec['elected']):
                _tag(case, 'multi_seat_candidate')
            q = Fraction(rec['quota']) if rec['quota'] else None
            tot = _totals(rec['alloc_in'])
            if q is not None and any(tot.get(c, 0) > k * q for c, k in rec['elected']) and rec['eliminated']:
                _tag(case, 'surplus_transfer')
        else:
            _tag(case, 'elimination')
            tot = _totals(rec['alloc_in'])
            if None in tot and any(tot[None] > t for h, t in tot.items() if h is not None):
                _tag(case, 'exhausted_pile_gt_candidate')


# ------------------------------------------------------------------------------------------------
# the property, stated on the implementation's observable

def _totals(alloc):
    return {h: sum((Fraction(w) for _, w in pile), Fraction(0)) for h, pile in alloc}


def _held(alloc):
    return sum(_totals(alloc).values(), Fraction(0))


def _check_state(alloc, out, where, cont=None):
    """non-negativity and 'rests with the highest-ranked continuing candidate' on one state.  `cont`: the continuing candidates
    worked out from the ballots (everybody named anywhere, less those declared elected to their maximum or excluded so far); for a
    synthetic single state (stv_next) they are the candidates of the allocation."""
    keys = [h for h, _ in alloc if h is not None]
    if cont is None:
        cont = keys
    elif sorted(keys) != sorted(cont):
        out.append(('continuing_candidate_without_pile',
                    f'{where}: continuing by the ballots {sorted(cont)}, piles exist for {sorted(keys)}'))
    for h, pile in alloc:
        for b, w in pile:
            w = Fraction(w)
            if w < 0:
                out.append(('negative_weight', f'{where}: ballot {b} holds {w} with {h}'))
            if w != 0 and not has_shared(b):
                top = next((c for c in b if c in cont), None)
                if h != top:
                    out.append(('not_with_top_continuing',
                                f'{where}: ballot {b} (weight {w}) rests with {h}, highest continuing is {top}'))


def _check_count(case, a_in, prev, rec, out, where):
    """election / elimination discipline and one-step conservation of a single count"""
    n = case['n']
    maxs = dict((c, k) for c, k in (case.get('max') or []))
    if case.get('form', 'selector') == 'selector' and 'votes' in case:
        maxs = {c: 1 for c in profile_cands(case['votes'])}
    prev = dict(prev)
    tot = _totals(a_in)
    cont = [h for h, _ in a_in if h is not None]
    elected = dict((c, k) for c, k in rec['elected'])
    n_rem = n - sum(prev.values())
    if rec['shortcut']:
        ok = (not case.get('mandatory', False) and set(elected) == set(cont) and sum(elected.values()) == n_rem
              and all(c in maxs and k == maxs[c] - prev.get(c, 0) for c, k in elected.items()))
        if not ok:
            out.append(('last_standing', f'{where}: elected {elected} without count; continuing {cont}, open seats {n_rem}'))
        return
    q = Fraction(rec['quota']) if rec['quota'] is not None else None
    for c, k in elected.items():
        if c not in cont or k < 1 or q is None or tot[c] < k * q:
            out.append(('elected_below_quota', f'{where}: {c} gets {k} seat(s) holding {tot.get(c)} with quota {q}'))
    a_out = rec['alloc']
    keys_in = [h for h, _ in a_in]
    keys_out = [h for h, _ in a_out]
    if None in keys_in and None not in keys_out:
        out.append(('exhausted_pile_removed', f'{where}: the exhausted pile disappeared'))
    if any(h is not None and h not in keys_in for h in keys_out):
        out.append(('candidate_resurrected', f'{where}: keys {keys_out} from {keys_in}'))
    spent = (q * sum(elected.values())) if (elected and q is not None) else 0
    if _held(a_out) + spent != _held(a_in):
        out.append(('conservation', f'{where}: held {_held(a_in)} -> {_held(a_out)} + {spent} for seats'))
    removed = [h for h in keys_in if h is not None and h not in keys_out]
    if elected:
        full = [c for c, k in elected.items() if c in maxs and prev.get(c, 0) + k >= maxs[c]]
        if sorted(removed) != sorted(full):
            out.append(('wrong_removal_after_election', f'{where}: removed {removed}, elected to their maximum {full}'))
    else:
        step = case.get('step', -1)
        keep = max(len(cont) + step, 1) if step < 0 else max(min(step, len(cont) - 1), 0)
        want = max(len(cont) - keep, 0)
        retained = [c for c in cont if c not in removed]
        ok = len(removed) == want and all(tot[x] <= tot[y] for x in removed for y in retained)
        if not ok:
            # the defect repaired by b992cbb had its own precondition: the exhausted pile outranks a continuing candidate
            outranks = None in tot and any(tot[None] >= t for h, t in tot.items() if h is not None)
            out.append(('elimination_not_lowest_exhausted_pile_outranks' if outranks else 'elimination_not_lowest',
                        f'{where}: eliminated {removed} from totals { {k: str(v) for k, v in tot.items()} }, '
                        f'configured number {want}'))


def _allowed_errors(case):
    allowed = {'NotImplementedError', 'VotingSystemError', 'DoesNotTerminate', 'CaseExceedsTimeBudget'}   # own clauses
    if case.get('step', -1) is None:
        allowed.add('ValueError')       # "need to specify eliminate step without standalone retainer" (L345-347)
    elif case.get('step', -1) >= 0:
        # outside the quantifier (eliminate_step in {-1,-2}); "might cause an infinite loop if not used properly": with nobody left
        # and seats open `get_n_best({}, -1)` raises IndexError where a negative step ends in VotingSystemError
        allowed.add('IndexError')
    if case.get('wtype') == 'decimal':
        allowed.add('TypeError')        # Decimal vote counts are not supported by the STV classes in any configuration
    return allowed


def _positive_step_equiv(case, ierr, merr):
    return (isinstance(case.get('step', -1), int) and case.get('step', -1) >= 0 and ierr == 'IndexError'
            and merr == 'VotingSystemError')


def _overshoot(case, detail):
    """more seats awarded than asked for (distributor form, multi-seat over-award): outside this property (seat
    totals are C08's subject); a run is followed only up to that state"""
    seats_run = sum(k for _, k in (case.get('prev') or [])) if case.get('form', 'selector') != 'selector' else 0
    overshoot = seats_run > case['n']
    for rec in detail:
        if 'err' not in rec:
            seats_run += sum(k for _, k in rec['elected'])
            overshoot = overshoot or seats_run > case['n']
    return overshoot


def _mutation_clauses(obs, out):
    for rec in obs.get('_detail') or []:
        if rec.get('mutated'):
            out.append(('state_changed_after_return', rec['mutated'][:400]))
            break


def _grows_existing_exhausted(detail):
    """a count in which ballots exhaust although an exhausted pile already exists"""
    for rec in detail:
        if 'err' in rec or rec.get('shortcut'):
            continue
        t_in, t_out = _totals(rec['alloc_in']), _totals(rec['alloc'])
        if None in t_in and t_in[None] > 0 and t_out.get(None, 0) > t_in[None]:
            return True
    return False


def _oracle_trace(case, obs):
    out = []
    if obs['_bad_draws']:
        out.append((_bad_clause(obs['_bad_draws'][0]), obs['_bad_draws'][0]))
    _mutation_clauses(obs, out)
    res = obs['result']
    if isinstance(res, dict) and budget_clause(res.get('err')):
        out.append((budget_clause(res['err']), str(obs.get('_msg'))))
        if res['err'] == 'CaseExceedsTimeBudget':
            return out
    if obs.get('_selnext'):
        got, exp = obs['_selnext']
        same = (got.get('err') == exp.get('err')) if ('err' in got or 'err' in exp) else (
            canon_alloc(got['alloc']) == canon_alloc(exp['alloc']) and got['elected'] == exp['elected'])
        if not same:
            out.append(('selector_next_count_differs',
                        f"TransferableVoteSelector.next_count from the initial allocation gives {got}, the count itself is {exp}"[:600]))
    overshoot = _overshoot(case, obs['_detail'])
    allowed = _allowed_errors(case)
    if isinstance(res, dict) and 'err' in res and res['err'] not in allowed and not overshoot:
        out.append(('unexpected_error', f"{res['err']}: {obs.get('_msg')}"))
    # the quota in force is the textbook value of the configured quota (computed here, not taken from votelib)
    Vq = sum((Fraction(w) for _, w in case['votes']), Fraction(0))
    want_q = ref_quota(case, Vq, case['n'])
    for i, rec in enumerate(obs['_detail']):
        if 'err' in rec:
            if not rec.get('quota_computed'):
                continue
            rec = dict(rec, quota=rec.get('quota_seen'))
        elif rec['shortcut']:
            continue
        got_q = Fraction(rec['quota']) if rec.get('quota') is not None else None
        if (case.get('quota') is None or quota_is_const(case.get('quota')) or case.get('quota') in REF_QUOTAS) and got_q != want_q:
            out.append(('quota_value', f'count {i + 1}: quota {got_q}, the configured quota of {Vq} votes and {case["n"]} seats is {want_q}'))
            break
    if overshoot:
        _tag(case, 'seat_overshoot_out_of_scope')
    init = obs['init']
    if isinstance(init, dict):
        out.append(('unexpected_error', 'initial_allocation: ' + str(init.get('err'))))
        return out
    votes = [(b, Fraction(w)) for b, w in case['votes']]
    V = sum((w for _, w in votes), Fraction(0))
    empty = sum((w for b, w in votes if not b), Fraction(0))
    if _held(init) + empty != V:
        out.append(('conservation', f'initial allocation holds {_held(init)} + {empty} empty of {V} cast'))
    # who continues is read off the ballots, not off the implementation's allocation: everybody named on any ballot ...
    ref_cont = list(profile_cands(case['votes']))
    _check_state(init, out, 'initial allocation', cont=ref_cont)
    # shared first rank: divided among its candidates, equally under fractional transfer
    piles = {h: {json.dumps(b): Fraction(w) for b, w in pile} for h, pile in init}
    for b, w in votes:
        if b and isinstance(b[0], list) and b[0]:
            got = {c: piles.get(c, {}).get(json.dumps(b), Fraction(0)) for c in b[0]}
            others = sum((p.get(json.dumps(b), 0) for h, p in piles.items() if h not in b[0]), Fraction(0))
            if case['method'] == 'gregory':
                ok = all(v == w / len(b[0]) for v in got.values()) and others == 0
            else:
                ok = sum(got.values()) == w and others == 0 and all(v >= 0 and v.denominator == 1 for v in got.values())
            if not ok:
                out.append(('shared_first_split', f'ballot {b} x {w} divided as {got}'))
    state = init
    prev = dict((c, k) for c, k in (case.get('prev') or [])) if case.get('form', 'selector') != 'selector' else {}
    by_quota = 0
    for i, rec in enumerate(obs['_detail']):
        where = f'count {i + 1}'
        if json.dumps(rec['alloc_in']) != json.dumps(state):
            out.append(('count_not_from_previous_state', where))
        if dict(rec['prev']) != prev:
            out.append(('seat_bookkeeping', f"{where}: prev_gains {rec['prev']} expected {prev}"))
        if 'err' in rec or sum(prev.values()) > case['n']:
            break
        _check_count(case, state, prev, rec, out, where)
        for c, k in rec['elected']:
            prev[c] = prev.get(c, 0) + k
        if rec['shortcut']:
            break
        by_quota += sum(k for _, k in rec['elected'])
        state = rec['alloc']
        # ... less those the count declared excluded or elected to their maximum
        ref_cont = [c for c in ref_cont if c not in rec['eliminated']]
        _check_state(state, out, f'after {where}', cont=ref_cont)
        q = Fraction(rec['quota']) if rec['quota'] is not None else None
        spent = q * by_quota if (by_quota and q is not None) else 0
        if _held(state) + empty + spent != V:
            out.append(('conservation', f'after {where}: held {_held(state)} + exhausted-empty {empty} + {by_quota} x quota {q} != cast {V}'))
    return out


def _oracle_next(case, obs):
    out = []
    if obs.get('_bad_draws'):
        out.append((_bad_clause(obs['_bad_draws'][0]), obs['_bad_draws'][0]))
    _mutation_clauses(obs, out)
    if 'err' in obs and budget_clause(obs['err']):
        out.append((budget_clause(obs['err']), str(obs.get('_msg'))))
        return out
    if 'err' in obs:
        if obs['err'] not in (_allowed_errors(case) - {'VotingSystemError'}):
            out.append(('unexpected_error', f"{obs['err']}: {obs.get('_msg')}"))
        return out
    if obs.get('_repeat'):
        out.append(('count_not_repeatable', obs['_repeat'][:400]))
    _check_count(case, case['alloc'], dict((c, k) for c, k in case.get('prev') or []), obs, out, 'count')
    if not obs['shortcut']:
        _check_state(obs['alloc'], out, 'after count')
    return out


def oracle(case, obs):
    if case['op'] == 'stv_trace':
        return _oracle_trace(case, obs)
    if case['op'] == 'stv_next':
        return _oracle_next(case, obs)
    out = []
    if obs.get('_bad_draws'):
        out.append((_bad_clause(obs['_bad_draws'][0]), obs['_bad_draws'][0]))
    if 'err' in obs and budget_clause(obs['err']):
        out.append((budget_clause(obs['err']), str(obs.get('_msg'))))
    if ('err' in obs and obs['err'] not in _allowed_errors(case)
            and not _overshoot(case, obs.get('_detail', []))):
        out.append(('unexpected_error', obs['err']))
    _mutation_clauses(obs, out)
    detail = [r for r in obs.get('_detail') or []]
    if 'totals' in obs and detail and not _overshoot(case, detail):
        # nth_count reports the state its last executed count started from, as that state was when the count began
        _tag(case, 'nth_snapshot_checked')
        want = [[h, str(t)] for h, t in _totals(detail[-1]['alloc_in']).items()]
        got = [[h, str(Fraction(t))] for h, t in obs['totals']]
        if got != want:
            out.append(('nth_count_snapshot', f'nth_count reports {got}; the state before count {len(detail)} was {want}'))
        # ... and the votes it reports still add up: held + empty ballots + quota x seats filled by quota before that count
        votes = [(b, Fraction(w)) for b, w in case['votes']]
        V = sum((w for _, w in votes), Fraction(0))
        empty = sum((w for b, w in votes if not b), Fraction(0))
        by_quota = sum(k for r in detail[:-1] if 'err' not in r and not r['shortcut'] for _, k in r['elected'])
        qs = [Fraction(r['quota']) for r in detail if r.get('quota') is not None]
        spent = qs[0] * by_quota if (qs and by_quota) else 0
        if (qs or not by_quota) and sum((Fraction(t) for _, t in obs['totals']), Fraction(0)) + empty + spent != V:
            out.append(('conservation', f'nth_count({case["k"]}) reports {got}: with {empty} empty and {by_quota} x quota '
                                        f'{qs[0] if qs else None} this is not the {V} votes cast'))
    return out


def nontrivial(case, obs):
    if case['op'] == 'stv_trace':
        return len(profile_cands(case['votes'])) >= 2 and len(obs.get('_detail', [])) >= 1
    if case['op'] == 'stv_next':
        return 'alloc' in obs
    return 'totals' in obs


# ------------------------------------------------------------------------------------------------
# model side

def model_line(case):
    key = case_key(case)
    if key not in _CACHE:
        impl(case)
    line = {'op': case['op'], 'n': case['n'], 'form': case.get('form', 'selector'),
            'prev': case.get('prev') or [], 'max': case.get('max') or [], 'draws': _CACHE[key]}
    line.update(cfg_line(case))
    if 'votes' in case:
        line['votes'] = [[case_to_model_ballot(b), w] for b, w in case['votes']]
    if case['op'] == 'stv_next':
        line['alloc'] = [[h, [[case_to_model_ballot(b), w] for b, w in pile]] for h, pile in case['alloc']]
        line['total'] = case['total']
    if case['op'] == 'stv_nth':
        line['k'] = case['k']
    return line


def _cmp_alloc(a, b, where):
    if isinstance(a, dict) or isinstance(b, dict):
        return None if a == b else f'{where}: impl={a} model={b}'
    ka, pa = canon_alloc(a)
    kb, pb = canon_alloc(b)
    if ka != kb:
        return f'{where}: holder order impl={ka} model={kb}'
    if pa != pb:
        return f'{where}: piles differ impl={pa} model={pb}'
    return None


def compare(case, iobs, mobs):
    if not isinstance(mobs, dict):
        return f'model answered {mobs}'
    if (case.get('wtype') == 'decimal' and isinstance(iobs.get('result'), dict) and iobs['result'].get('err') == 'TypeError'):
        _tag(case, 'decimal_rejected')
        return None         # Decimal counts are refused outright; whatever is ever returned instead must equal the model
    if case['op'] == 'stv_trace':
        d = _cmp_alloc(iobs['init'], mobs.get('init'), 'init')
        if d:
            return d
        if isinstance(iobs['init'], dict):
            return None
        mres = mobs.get('result')
        unmodelled = isinstance(mres, dict) and str(mres.get('err', '')).startswith('unmodelled')
        ic, mc = iobs['counts'], mobs.get('counts', [])
        if unmodelled:
            _tag(case, 'unmodelled_state')
            ic = ic[:len(mc)]
        if len(ic) != len(mc):
            return f'{len(ic)} counts in impl, {len(mc)} in model (impl result {iobs["result"]}, model {mres})'
        for i, (x, y) in enumerate(zip(ic, mc)):
            if x['final'] != y['final'] or x['seats'] != y['seats'] or x['by_quota'] != y['by_quota']:
                return f'count {i+1}: impl={ {k: x[k] for k in ("final", "seats", "by_quota")} } model={ {k: y[k] for k in ("final", "seats", "by_quota")} }'
            d = _cmp_alloc(x['alloc'], y['alloc'], f'count {i+1}')
            if d:
                return d
        if unmodelled:
            return None
        if (isinstance(case.get('step', -1), int) and case.get('step', -1) >= 0 and iobs['result'] == {'err': 'IndexError'}
                and mres == {'err': 'VotingSystemError'}):
            _tag(case, 'positive_step_nobody_left')
            return None
        if canon(iobs['result']) != canon(mres):
            return f'result impl={iobs["result"]} model={mres}'
        if iobs['quota'] is not None and mobs.get('quota') is not None and Fraction(iobs['quota']) != Fraction(mobs['quota']):
            return f'quota impl={iobs["quota"]} model={mobs["quota"]}'
        return None
    if case['op'] == 'stv_next':
        if 'err' in iobs or 'err' in mobs:
            if str(mobs.get('err', '')).startswith('unmodelled'):
                _tag(case, 'unmodelled_state')
                return None
            return None if iobs.get('err') == mobs.get('err') else f'impl={iobs.get("err", "ok")} model={mobs.get("err", "ok")}'
        for k in ('elected', 'shortcut'):
            if iobs[k] != mobs[k]:
                return f'{k}: impl={iobs[k]} model={mobs[k]}'
        if sorted(iobs['eliminated']) != sorted(mobs['eliminated']):
            return f'eliminated: impl={iobs["eliminated"]} model={mobs["eliminated"]}'
        if (iobs['quota'] is None) != (mobs['quota'] is None) or (iobs['quota'] is not None and Fraction(iobs['quota']) != Fraction(mobs['quota'])):
            return f'quota: impl={iobs["quota"]} model={mobs["quota"]}'
        return _cmp_alloc(iobs['alloc'], mobs['alloc'], 'new allocation')
    if case['op'] == 'stv_nth':
        if 'err' in iobs or 'err' in mobs:
            if str(mobs.get('err', '')).startswith('unmodelled') or _positive_step_equiv(case, iobs.get('err'), mobs.get('err')):
                return None
            return None if iobs.get('err') == mobs.get('err') else f'impl={iobs.get("err", "ok")} model={mobs.get("err", "ok")}'
        ti = [[h, str(Fraction(t))] for h, t in iobs['totals']]
        tm = [[h, str(Fraction(t))] for h, t in mobs['totals']]
        if ti != tm or iobs['seats'] != mobs['seats']:
            return f'impl={ti},{iobs["seats"]} model={tm},{mobs["seats"]}'
        return None
    return 'unknown op'


# ------------------------------------------------------------------------------------------------
# generator

def _cfg(rng, method=None, **kw):
    method = method or ('gregory' if rng.random() < 0.7 else 'hare')
    c = {'method': method, 'seed': rng.randint(0, 5), 'quota': rng.choice(['droop', 'droop', 'hare', 'hagenbach_bischoff', None]),
         'accept_equal': rng.random() < 0.75, 'mandatory': rng.random() < 0.12, 'step': rng.choice([-1, -1, -1, -2])}
    c.update(kw)
    return c


def _hare_fix(case):
    """Hare transfer needs integer weights and an integer quota (quantifier of C04 / TypeError otherwise)"""
    if case['method'] != 'hare':
        return case
    V = sum(Fraction(w) for _, w in case['votes'])
    if V.denominator != 1:
        case['votes'] = [[b, num_str(int(Fraction(w)))] for b, w in case['votes']]
        V = sum(Fraction(w) for _, w in case['votes'])
    if case['quota'] in ('hare', 'hagenbach_bischoff'):
        # these return a Fraction object even when the value is integral; Hare._subtract then fails in random.sample
        case['quota'] = 'droop'
    return case


def _trace_case(rng, tags=(), **kw):
    m = kw.pop('m', None) or rng.choice([2, 3, 3, 4, 4, 5, 6])
    shared_p = kw.pop('shared_p', rng.choice([0, 0, 0, 0.25]))
    cfg = _cfg(rng, **{k: kw.pop(k) for k in list(kw) if k in ('method', 'quota', 'accept_equal', 'mandatory', 'step', 'seed')})
    fractions = cfg['method'] == 'gregory' and rng.random() < 0.25
    weights = kw.pop('weights', rng.choice(['small', 'small', 'mid', 'big'] if cfg['method'] == 'gregory' else ['small', 'small', 'mid']))
    first_from = kw.pop('first_from', None)
    votes = kw.pop('votes', None) or rand_profile(rng, m, rng.randint(1, 10), shared_p, weights, fractions, first_from=first_from)
    cands = profile_cands(votes)
    n = kw.pop('n') if kw.get('n') is not None else (kw.pop('n', None) or rng.randint(1, max(1, len(cands))))
    case = {'op': 'stv_trace', 'votes': votes, 'n': n, 'form': kw.pop('form', 'selector'), '_tags': list(tags)}
    case.update(cfg)
    if case['form'] == 'distributor':
        case['max'] = kw.pop('max', None) or [[c, rng.randint(1, 3)] for c in cands if rng.random() < 0.85]
        case['prev'] = kw.pop('prev', None) or []
        if not case['prev'] and rng.random() < 0.2 and cands:
            c = rng.choice(cands)
            mx = dict(case['max']).get(c, 2)
            if mx >= 1 and n >= 1:
                case['prev'] = [[c, 1]]
    case.update(kw)
    x = rng.random()
    if 'warmup' not in case and x < 0.08:
        kind, w = warmup_variants(rng, case['votes'], case['n'])
        if case['method'] == 'hare':
            w = {'votes': [[b, num_str(int(Fraction(v)))] for b, v in w['votes']], 'n': w['n']}
        if kind != 'big' or case['method'] != 'hare':
            case['warmup'] = w
            case['_warm_kind'] = kind
    elif x < 0.12 and case.get('quota') and not quota_is_const(case['quota']):
        case['quota_form'] = 'callable'
    elif x < 0.16:
        case['transferer_form'] = 'name'
    elif x < 0.20:
        case['retainer'] = 'plurality'
    elif x < 0.23 and case['method'] == 'gregory':
        case['quota'] = 'const:' + num_str(Fraction(rng.randint(2, 9), rng.choice([1, 1, 2])))
    elif x < 0.25:
        case['step'] = rng.choice([1, 2, 3])
    return _hare_fix(case)


def _state_case(rng, tags=(), big_exhausted=False, **kw):
    """a single count from a synthetic state in which every ballot rests with its top continuing candidate"""
    m = rng.randint(3, 6)
    k = rng.randint(2, m)
    allc = list(range(m))
    rng.shuffle(allc)
    cont = allc[:k]
    gone = allc[k:]
    piles = {c: {} for c in cont}
    exhausted = {}
    cfg = _cfg(rng, **kw)
    fractions = cfg['method'] == 'gregory' and rng.random() < 0.3
    for _ in range(rng.randint(2, 9)):
        b = rand_ballot(rng, m, 0.1 if rng.random() < 0.3 else 0.0, empty_p=0)
        top = None
        for it in b:
            members = [c for c in (it if isinstance(it, list) else [it]) if c in cont]
            if members:
                top = rng.choice(members)
                break
        w = rand_weight(rng, rng.choice(['small', 'mid']), fractions)
        (piles[top] if top is not None else exhausted)[json.dumps(b)] = (b, w)
    if big_exhausted:
        b = [gone[0]] if gone else [m]
        big = max([sum(Fraction(w) for _, w in p.values()) for p in piles.values()] + [1])
        low = min([sum(Fraction(w) for _, w in p.values()) for p in piles.values()] + [0])
        exhausted[json.dumps(b)] = (b, int(low) + 1 + rng.randint(0, int(big - low) + 1))
    alloc = [[c, [[b, num_str(w)] for b, w in piles[c].values()]] for c in cont]
    if exhausted or rng.random() < 0.3:
        alloc.insert(rng.choice([len(alloc)] * 3 + [0, 1]), [None, [[b, num_str(w)] for b, w in exhausted.values()]])
    held = sum(Fraction(w) for _, pile in alloc for _, w in pile)
    selector = rng.random() < 0.7
    elected_before = [c for c in gone if rng.random() < 0.5]
    if selector:
        maxs = [[c, 1] for c in range(m)]
        prev = [[c, 1] for c in elected_before]
    else:
        maxs = [[c, rng.randint(1, 3)] for c in range(m) if rng.random() < 0.85]
        prev = [[c, 1] for c in elected_before if dict(maxs).get(c, 9) >= 1]
    n = len(prev) + rng.randint(1, max(1, k))
    total = held + rng.choice([0, 0, 1, 5]) * (1 + len(prev))
    if cfg['method'] == 'hare':
        total = Fraction(int(total) + (1 if Fraction(total).denominator != 1 else 0))
    case = {'op': 'stv_next', 'alloc': alloc, 'n': n, 'total': num_str(total), 'prev': prev, 'max': maxs,
            'form': 'distributor', '_tags': list(tags)}
    case.update(cfg)
    if cfg['method'] == 'hare':
        case['alloc'] = [[h, [[b, num_str(int(Fraction(w)))] for b, w in pile]] for h, pile in alloc]
        if case['quota'] in ('hare', 'hagenbach_bischoff'):
            case['quota'] = 'droop'
    return case


def _directed(rng):
    r = lambda a, b: rng.randint(a, b)      # noqa
    # surplus transfer (Gregory, droop, 2 seats)
    yield _trace_case(rng, ['directed'], votes=[[[0, 1], num_str(10 + r(0, 4))], [[1], '3'], [[2], '4'], [[2, 1], '1']], n=2,
                      method='gregory', quota='droop', mandatory=False, step=-1, accept_equal=True)
    # exhausted pile above a continuing candidate at an elimination: the defect repaired by b992cbb
    x = r(0, 3)
    yield {'op': 'stv_next', 'alloc': [[0, [[[0], num_str(10 + x)]]], [1, [[[1, 0], '7']]], [2, [[[2], '9']]], [None, [[[3], num_str(11 + x)]]]],
           'n': 2, 'total': num_str(50 + 2 * x), 'prev': [], 'max': [[0, 1], [1, 1], [2, 1], [3, 1]], 'form': 'distributor',
           'method': 'gregory', 'seed': 0, 'quota': 'droop', 'accept_equal': True, 'mandatory': False, 'step': -1, '_tags': ['directed']}
    yield _state_case(rng, ['directed'], big_exhausted=True, method='gregory', quota='droop', mandatory=False, step=-1)
    yield _state_case(rng, ['directed'], big_exhausted=True, method='gregory', quota=None, mandatory=False, step=-2)
    # truncated ballots of an elected candidate exhaust, then an elimination follows
    yield _trace_case(rng, ['directed'], votes=[[[0], num_str(12 + r(0, 3))], [[1, 2], '5'], [[2], '4'], [[3, 1], '3'], [[3], '2']], n=2,
                      method='gregory', quota='droop', mandatory=False, step=-1, accept_equal=True)
    # shared first rank, Gregory (fractions) and Hare (draw)
    yield _trace_case(rng, ['directed'], votes=[[[[0, 1], 2], num_str(2 * r(1, 4) + 1)], [[2, 0], '3'], [[1], '2'], [[0], '1']], n=r(1, 2),
                      method='gregory', quota='droop', mandatory=False, step=-1)
    yield _trace_case(rng, ['directed'], votes=[[[[0, 1, 2], 3], num_str(3 * r(1, 3) + r(1, 2))], [[3, 0], '3'], [[1], '2']], n=2,
                      method='hare', seed=r(0, 5), quota='droop', mandatory=False, step=-1)
    # zero-first-preference candidate
    yield _trace_case(rng, ['directed'], votes=[[[0, 3], num_str(4 + r(0, 2))], [[1, 3, 0], '3'], [[2, 3], '2'], [[1], '1']], n=r(1, 3),
                      method='gregory', step=-1)
    # eliminate_step -2, mandatory quota
    yield _trace_case(rng, ['directed'], m=5, step=-2, mandatory=False, weights='mid', shared_p=0)
    yield _trace_case(rng, ['directed'], m=4, mandatory=True, step=-1, weights='mid', shared_p=0)
    # multi-seat candidate in the distributor form
    yield _trace_case(rng, ['directed'], votes=[[[0, 1], num_str(20 + r(0, 3))], [[1], '3'], [[2, 1], '2']], n=3, form='distributor',
                      max=[[0, 3], [1, 3], [2, 3]], prev=[], method='gregory', quota='droop', mandatory=False, step=-1, accept_equal=True)
    yield _trace_case(rng, ['directed'], votes=[[[0, 1], num_str(20 + r(0, 3))], [[1], '3'], [[2, 1], '2']], n=3, form='distributor',
                      max=[[0, 2], [1, 3], [2, 3]], prev=[], method='gregory', quota='hare', mandatory=False, step=-1, accept_equal=True)
    # Hare draw on a surplus
    yield _trace_case(rng, ['directed'], votes=[[[0, 1], '9'], [[0, 2], num_str(4 + r(0, 2))], [[1], '3'], [[2], '3']], n=2,
                      method='hare', seed=r(0, 9), quota='droop', mandatory=False, step=-1, accept_equal=True)
    # refusal: tie for elimination
    t = r(1, 3)
    yield _trace_case(rng, ['directed'], votes=[[[0], num_str(t)], [[1], num_str(t)], [[2], num_str(2 * t)]], n=1,
                      method='gregory', quota='droop', mandatory=False, step=-1, accept_equal=True)
    # shortcut at once
    yield _trace_case(rng, ['directed'], votes=[[[0, 1], '3'], [[1], '2']], n=2, method='gregory', mandatory=False)
    # fraction weights
    yield _trace_case(rng, ['directed'], votes=[[[0, 1], '7/2'], [[1, 2], '5/3'], [[2], '9/4'], [[1], '1/2']], n=r(1, 2), method='gregory',
                      quota=rng.choice(['droop', 'hare', 'hagenbach_bischoff']), mandatory=False)
    # nth_count
    c = _trace_case(rng, ['directed'], m=4, method='gregory', mandatory=False, step=-1, shared_p=0)
    for k in range(1, 5):
        d = {kk: vv for kk, vv in c.items()}
        d.update({'op': 'stv_nth', 'k': k, '_tags': ['directed']})
        yield d
    yield _trace_case(rng, ['directed'], m=4, form='distributor', method='gregory', mandatory=False, step=-1)


def _audit_directed(rng):
    """shapes of harness/GENERATOR_CHECKLIST.md, constructed on purpose so that every counter is hit on every seed"""
    r = rng.randint
    base = dict(method='gregory', quota='droop', mandatory=False, step=-1, accept_equal=True)
    # 2. magnitude: a pile exactly on / one vote below / one above the integer Droop quota at 10^15 .. 10^30
    for delta, tag in ((0, 'big_on_quota'), (-1, 'big_below_quota'), (1, 'big_above_quota')):
        votes, q, V = big_boundary_profile(rng, 2, delta)
        yield _trace_case(rng, ['directed', tag], votes=votes, n=2, **base)
    votes, q, V = big_boundary_profile(rng, 2, 0)
    yield _trace_case(rng, ['directed', 'big_on_quota', 'sens_accept_equal'], votes=votes, n=2, **dict(base, accept_equal=False))
    votes, q, V = big_boundary_profile(rng, 3, rng.choice([0, -1]), k=2)
    yield _trace_case(rng, ['directed', 'big_two_quotas'], votes=votes, n=3, form='distributor',
                      max=[[c, 3] for c in profile_cands(votes)], prev=[], **base)
    yield _trace_case(rng, ['directed', 'big_near_tie'], votes=near_tie_big_profile(rng), n=1, **base)
    # 1. numeric types: Decimal (short and 7+ decimals), all-zero counts, exact small quota hit
    yield _trace_case(rng, ['directed'], votes=decimal_profile(rng), n=1, wtype='decimal', **dict(base, quota=None))
    yield _trace_case(rng, ['directed'], votes=decimal_profile(rng, long=True), n=2, wtype='decimal', **base)
    yield _trace_case(rng, ['directed'], votes=[[[0, 1], '0'], [[1], '0'], [[2, 0], '0']], n=r(1, 2), **base)
    for eq in (True, False):       # a holds exactly the quota 4 of 11 votes: elected at once iff accept_quota_equal
        yield _trace_case(rng, ['directed', 'sens_accept_equal'], votes=[[[0, 1], '4'], [[1], '3'], [[2], '3'], [[3, 2], '1']], n=2,
                          **dict(base, accept_equal=eq))
    # 5. structure: candidate only inside shared ranks with 4+ seats, shared ranks of 3 and 4+, exhausted pile of several quotas
    sv = shared_only_profile(rng)
    yield _trace_case(rng, ['directed'], votes=sv, n=4, **base)
    yield _trace_case(rng, ['directed'], votes=sv, n=4, form='distributor', max=[[c, 2] for c in profile_cands(sv)], prev=[], **base)
    yield _trace_case(rng, ['directed'], votes=[[[[0, 1, 2, 3], 4], num_str(8 + r(0, 3))], [[[1, 2, 4]], '5'], [[4, [0, 3]], '3'], [[2], '2']],
                      n=r(2, 4), **base)
    yield _trace_case(rng, ['directed'], votes=exhausted_quota_profile(rng), n=4, **base)
    yield _trace_case(rng, ['directed'], votes=exhausted_quota_profile(rng), n=4, **dict(base, accept_equal=False))
    # more candidates over the quota than seats (constant quota): the over-award correction keeps the best overcounts
    yield _trace_case(rng, ['directed'], votes=[[[0], num_str(5 + r(0, 1))], [[1], '4'], [[2, 0], '3']], n=2, **dict(base, quota='const:3'))
    # previous gains of a party absent from the votes; a cap of 2 reached over two counts (quota, then last standing)
    yield _trace_case(rng, ['directed'], votes=[[[0, 1], '10'], [[1], '6'], [[2, 0], '3']], n=4, form='distributor',
                      max=[[0, 2], [1, 1], [2, 1], [9, 2]], prev=[[9, 1]], **base)
    yield _trace_case(rng, ['directed'], votes=[[[0], '10'], [[1], '6'], [[2, 0], '3']], n=3, form='distributor',
                      max=[[0, 2], [1, 1], [2, 1]], prev=[], **base)
    # 7. every constructor option in a non-default form
    yield _trace_case(rng, ['directed'], m=4, shared_p=0, quota_form='callable', **base)
    yield _trace_case(rng, ['directed'], m=4, shared_p=0, **dict(base, quota=None))
    yield _trace_case(rng, ['directed'], m=4, shared_p=0.2, transferer_form='name', **base)
    yield _trace_case(rng, ['directed'], votes=[[[0, 1], '9'], [[0, 2], '5'], [[1], '3'], [[2], '3']], n=2, transferer_form='name',
                      **dict(base, method='hare'))
    yield _trace_case(rng, ['directed'], m=5, shared_p=0, retainer='plurality', weights='mid', **base)
    yield _trace_case(rng, ['directed'], votes=[[[0, 1], '7'], [[1], '5'], [[2, 1], '4'], [[3], '2'], [[4, 3], '1']], n=1,
                      **dict(base, step=2, quota=None))
    yield _trace_case(rng, ['directed'], votes=[[[0, 1], '7'], [[1], '5'], [[2, 1], '4'], [[3], '2']], n=1, **dict(base, step=None, quota=None))
    # eliminate_step matters: -2 removes the two lowest at once; mandatory_quota matters: no election of the last standing
    for st in (-1, -2):
        yield _trace_case(rng, ['directed', 'sens_eliminate_step'], votes=[[[0], '9'], [[1, 2], '4'], [[2, 1], '3'], [[3, 2], '5']], n=1,
                          **dict(base, step=st))
    for mq in (False, True):
        yield _trace_case(rng, ['directed', 'sens_mandatory_quota'], votes=[[[0], '5'], [[1], '2'], [[2], '1']], n=2, **dict(base, mandatory=mq))
    # 6. no returned state may be changed by a later call: ballots exhaust while an exhausted pile exists from an earlier count;
    #    the run, every nth_count snapshot of it, and a count taken twice from a state with an exhausted pile
    for method, seed in (('gregory', 0), ('hare', 5)):
        rv = reexhaust_profile(rng)
        yield _trace_case(rng, ['directed'], votes=rv, n=2, **dict(base, method=method, seed=seed))
        for k in range(1, 6):
            c = _trace_case(rng, ['directed'], votes=rv, n=2, **dict(base, method=method, seed=seed))
            c.update({'op': 'stv_nth', 'k': k})
            yield c
    yield _state_case(rng, ['directed'], big_exhausted=True, method='gregory', quota='droop', mandatory=False, step=-1)
    # a candidate named only at ranks deeper than the ballot listed last reaches (all_rankings must scan every rank)
    for method, seed in (('gregory', 0), ('hare', 1), ('hare', rng.randint(2, 9))):
        yield _trace_case(rng, ['directed'], votes=deep_only_profile(rng), n=3, **dict(base, method=method, seed=seed))
    dv = deep_only_profile(rng)
    yield _trace_case(rng, ['directed'], votes=dv, n=2, form='distributor', max=[[c, 2] for c in profile_cands(dv)], prev=[], **base)
    # 10. multiplicity of the rare events; 11. every argument crossed with every option
    for votes, n, opts, tags in multiplicity_cases(rng):
        kw = dict(base)
        kw.update(opts)
        keep = [t for t in tags if t in ('two_on_quota_exactly_not_accepted', 'step2_tie_at_boundary')]
        yield _trace_case(rng, ['directed'] + keep, votes=votes, n=n, **kw)
    # 6. state between calls: the same object counts another election first
    for kind in ('refusal', 'larger', 'other_n', 'big'):
        c = _trace_case(rng, ['directed'], m=4, shared_p=0.15, **base)
        k2, w = None, None
        rr = random_like(rng)
        while k2 != kind:
            k2, w = warmup_variants(rr, c['votes'], c['n'])
        c['warmup'] = w
        c['_warm_kind'] = kind
        yield c


def random_like(rng):
    import random as _random
    return _random.Random(rng.randint(0, 2 ** 30))


def generate(rng, tier):
    for c in _directed(rng):
        yield c
    for _ in range(12 if tier == 'quick' else 60):      # each directed shape at least a dozen times per run (checklist item 9)
        yield from _audit_directed(rng)
    for _ in range(2 if tier == 'quick' else 10):
        for votes, n, opts in cross_option_cases(rng):
            form = opts.pop('form')
            extra = {k: opts.pop(k) for k in ('max', 'prev') if k in opts}
            yield _trace_case(rng, ['directed', 'cross_' + form + '_options'], votes=votes, n=n, form=form, step=-1, **opts, **extra)
    N = 2500 if tier == "quick" else 40000
    for _ in range(N):
        r = rng.random()
        if r < 0.62:
            yield _trace_case(rng)
        elif r < 0.72:
            yield _trace_case(rng, form='distributor')
        elif r < 0.76:
            yield _trace_case(rng, first_from=[0, 1], m=rng.randint(3, 5), shared_p=0)
        elif r < 0.92:
            yield _state_case(rng, big_exhausted=rng.random() < 0.5)
        else:
            c = _trace_case(rng, form=rng.choice(['selector', 'selector', 'distributor']))
            c['op'] = 'stv_nth'
            c['k'] = rng.randint(1, 6)
            yield c
    if tier == 'thorough':
        # small scope, exhaustive: 3 candidates, every set of 3 ballot types out of the 15 strict (truncated) rankings,
        # weights 1..3 (reduced by symmetry of the weight vector order), 1 or 2 seats, Gregory/droop
        rankings = [list(p[:k]) for p in itertools.permutations(range(3)) for k in (1, 2, 3)]
        uniq = []
        for b in rankings:
            if b not in uniq:
                uniq.append(b)
        for combo in itertools.combinations(uniq, 3):
            for ws in itertools.product([1, 2, 3], repeat=3):
                for n in (1, 2):
                    yield {'op': 'stv_trace', 'votes': [[b, str(w)] for b, w in zip(combo, ws)], 'n': n, 'form': 'selector',
                           'method': 'gregory', 'seed': 0, 'quota': 'droop', 'accept_equal': True, 'mandatory': False, 'step': -1,
                           '_tags': ['exhaustive']}


def shrink_candidates(case):
    if 'votes' in case:
        vs = case['votes']
        for i in range(len(vs)):
            if len(vs) > 1:
                c = dict(case)
                c['votes'] = vs[:i] + vs[i + 1:]
                yield c
        for i, (b, w) in enumerate(vs):
            if len(b) > 1:
                c = dict(case)
                c['votes'] = vs[:i] + [[b[:-1], w]] + vs[i + 1:]
                if len({json.dumps(x[0]) for x in c['votes']}) == len(c['votes']):
                    yield c
            f = Fraction(w)
            if f.denominator == 1 and f > 1:
                c = dict(case)
                c['votes'] = vs[:i] + [[b, num_str(int(f) // 2)]] + vs[i + 1:]
                yield c
        if case['n'] > 1:
            c = dict(case)
            c['n'] = case['n'] - 1
            yield c
    elif 'alloc' in case:
        al = case['alloc']
        for i, (h, pile) in enumerate(al):
            for j in range(len(pile)):
                c = dict(case)
                c['alloc'] = al[:i] + [[h, pile[:j] + pile[j + 1:]]] + al[i + 1:]
                yield c
    for k, v in (('mandatory', False), ('accept_equal', True), ('step', -1), ('quota', 'droop'), ('method', 'gregory')):
        if case.get(k) != v:
            c = dict(case)
            c[k] = v
            yield c


def describe(case):
    d = describe_case(case)
    if case.get('op') == 'stv_nth':
        d = d.replace('.evaluate(', '.nth_count(', 1)
        d = d[:-1] + f", count_number={case['k']})" if case.get('form', 'selector') == 'selector' else d + f"  [nth_count, count_number={case['k']}]"
    return d


TECHNIQUE = ('Lean 4 proof of the per-count invariants of the STV count (unbounded number of candidates, ballots and counts) + '
             'count-by-count differential correspondence of the model with votelib')
LEVEL_TEXT = ('initial_allocation, next_count (quota election with over-award correction, subtraction, retain-the-best elimination, '
              'transfer with ranked_next and equal-rank splitting, elect-all-remaining shortcut), nth_count and both transferers are '
              'modelled line for line in Lean. Proved for all profiles, seat numbers, configurations, previous gains / maximum seats and '
              'any number of counts (induction over counts): exact conservation (held + empty ballots + quota x seats filled by quota = '
              'votes cast) for Gregory and for Hare under the draw contract, no negative weight, every paper without shared ranks rests '
              'with its highest-ranked continuing candidate or is exhausted only if none remains, a shared first rank is divided into exactly '
              'equal parts among its candidates under Gregory, election only by k>=1 quotas or by the '
              'last-standing shortcut, elimination of exactly #continuing - max(#continuing+step,1) strictly lowest continuing candidates '
              'independent of the exhausted pile. The model is tied to /repo by a count-by-count differential correspondence (every '
              'intermediate allocation, elected and eliminated sets) plus a direct oracle of the five invariants on every count of the '
              'implementation.')
LEVEL_NOTE = ('Trusted: Lean kernel + propext/Classical.choice/Quot.sound; translate.py for the quota functions; the correspondence '
              'harness (bounded by its generator: <= 6 candidates, <= 10 ballot types); the random module (Hare draws are recorded and '
              'replayed, the DrawOK contract is checked on both sides); frozenset iteration order and the order of papers in a pile. '
              'The "top continuing" clause is proved for ballots without shared ranks as the property states it, and in the general form '
              '(a continuing member of the highest rank that has one) for ballots with shared ranks.')
