"""C19, op stv_sys: ARBITRARY evaluator trees handed to votelib.io.stv.dumps — chains of VotingSystem / FixedSeatCount /
TieBreaking wrappers (any order and number) around a transferable-vote evaluator or around anything else.

tree := {'k': 'voting', 'name': str | None, 'e': tree} | {'k': 'fixed', 'n': int, 'e': tree}
      | {'k': 'tie', 'tb': tb, 'subsetter': bool (default one?), 'e': tree}
      | {'k': 'tv', 'quota': 'droop' | 'hare' | 'imperiali' | 'const' | 'nameless' | None, 'mandatory': bool, 'accept_equal': bool,
         'selector': bool, 'retainer': bool, 'elim': int, 'transferer': 'Gregory' | 'Hare'}
      | {'k': 'other', 'cls': 'Plurality' | ...}
tb   := {'k': 'number'} | {'k': 'input'} | {'k': 'sortitor', 'seed': int | None} | {'k': 'pre', 'conv': name, 'e': tb}
      | {'k': 'unsupported'}
"""
import functools
import warnings

VOTES = {('a', 'b'): 2, ('b',): 1}
CANDS = ['a', 'b']


def _nameless_quota(n_votes, n_seats):
    return n_votes // (n_seats + 1) + 1


def build_tb(t):
    import votelib.convert
    import votelib.evaluate
    import votelib.evaluate.auxiliary as aux
    k = t['k']
    if k == 'number':
        return aux.CandidateNumberRanker()
    if k == 'input':
        return aux.InputOrderSelector()
    if k == 'sortitor':
        return aux.Sortitor(seed=t.get('seed'))
    if k == 'pre':
        conv = {'presence': votelib.convert.RankedToPresenceCounts, 'first': votelib.convert.RankedToFirstPreference,
                'condorcet': votelib.convert.RankedToCondorcetVotes}[t['conv']]()
        return votelib.evaluate.PreConverted(conv, build_tb(t['e']))
    return votelib.evaluate.Plurality()


def build(t):
    import votelib
    import votelib.evaluate
    import votelib.evaluate.condorcet
    import votelib.vote
    import votelib.component.quota as vq
    from votelib.evaluate.sequential import TransferableVoteSelector, TransferableVoteDistributor
    k = t['k']
    if k == 'voting':
        return votelib.VotingSystem(t.get('name'), build(t['e']))
    if k == 'fixed':
        return votelib.evaluate.FixedSeatCount(build(t['e']), t['n'])
    if k == 'tie':
        kw = {} if t.get('subsetter', True) else {'subsetter': votelib.vote.RankedSubsetter()}
        return votelib.evaluate.TieBreaking(build(t['e']), build_tb(t['tb']), **kw)
    if k == 'tv':
        q = t.get('quota', 'droop')
        qf = {'const': vq.constant(5), 'nameless': functools.partial(_nameless_quota), None: None}.get(q, q)
        cls = TransferableVoteSelector if t.get('selector', True) else TransferableVoteDistributor
        kw = {}
        if t.get('retainer'):
            kw['retainer'] = votelib.evaluate.Plurality()
        if t.get('elim', -1) != -1:
            kw['eliminate_step'] = t['elim']
        return cls(transferer=t.get('transferer', 'Gregory'), quota_function=qf, accept_quota_equal=t.get('accept_equal', True),
                   mandatory_quota=bool(t.get('mandatory')), **kw)
    return {'Plurality': votelib.evaluate.Plurality, 'Copeland': votelib.evaluate.condorcet.Copeland}[t.get('cls', 'Plurality')]()


# ------------------------------------------------------------------------------------------------ what a system amounts to
def _tb_print(tb):
    import votelib.evaluate
    import votelib.evaluate.auxiliary as aux
    while isinstance(tb, votelib.evaluate.PreConverted):
        tb = tb.evaluator
    if isinstance(tb, (aux.CandidateNumberRanker, aux.InputOrderSelector)):
        return ['order']                     # the format has one word for both ('random=non')
    if isinstance(tb, aux.Sortitor):
        return ['sortitor', tb.seed]
    return ['other', type(tb).__name__]


def fingerprint(system):
    """the settings of a system, wrapper order aside: titles, seat counts, tie-breakers (+ own subsetter?), the evaluator at the
    bottom.  The class Selector / Distributor is left out: the writer declares that change with a warning."""
    import votelib
    import votelib.evaluate
    import votelib.vote
    from votelib.evaluate.sequential import TransferableVoteSelector, TransferableVoteDistributor
    out = {'titles': [], 'seats': [], 'ties': [], 'leaf': None}
    ev = system
    for _ in range(12):
        if isinstance(ev, votelib.VotingSystem):
            if ev.name is not None:
                out['titles'].append(ev.name)
            ev = ev.evaluator
        elif isinstance(ev, votelib.evaluate.FixedSeatCount):
            out['seats'].append(ev.n_seats)
            ev = ev.evaluator
        elif isinstance(ev, votelib.evaluate.TieBreaking):
            out['ties'].append(_tb_print(ev.tiebreaker) + [type(ev.subsetter).__name__])
            ev = ev.main
        else:
            break
    if isinstance(ev, TransferableVoteSelector):
        ev = ev._inner
    if isinstance(ev, TransferableVoteDistributor):
        qf = ev.quota_function
        out['leaf'] = ['tv', getattr(qf, '__name__', None) if qf is not None else None,
                       str(getattr(qf, 'quota', '')) if getattr(qf, '__name__', None) not in ('droop', 'hare') else '',
                       bool(ev.mandatory_quota), bool(ev.accept_quota_equal),
                       ev.retainer is None, ev.eliminate_step, type(ev.transferer).__name__]
    else:
        out['leaf'] = ['other', type(ev).__name__]
    return out


# ------------------------------------------------------------------------------------------------ independent reading of the format
PRIORITY = ['unknown_evaluator', 'nameless_quota', 'duplicate_setting', 'unseeded_sortitor', 'accept_quota_equal', 'tie_subsetter']


def walk(t):
    while True:
        yield t
        if 'e' not in t or t['k'] == 'tv':
            return
        t = t['e']


def tb_walk(tb):
    while True:
        yield tb
        if tb['k'] != 'pre':
            return
        tb = tb['e']


def reasons(tree, seats_arg):
    """why an STV file cannot stand for the system (the writer must refuse, NotSupportedInSTV, or write a file that reloads to the
    same settings — which it cannot for these): what the key=value header has no line for, or only one line for"""
    r = []
    nodes = list(walk(tree))
    leaf = nodes[-1]
    if leaf['k'] == 'other':
        r.append('unknown_evaluator')
    elif leaf.get('quota', 'droop') in ('nameless', 'const', None):      # quota.constant(n) objects have no __name__ either
        r.append('nameless_quota')
    n_titles = sum(1 for n in nodes if n['k'] == 'voting' and n.get('name') is not None)
    n_seats = sum(1 for n in nodes if n['k'] == 'fixed') + (seats_arg is not None)
    ties = [n for n in nodes if n['k'] == 'tie']
    if n_titles > 1 or n_seats > 1 or len(ties) > 1:
        r.append('duplicate_setting')
    for n in ties:
        last = list(tb_walk(n['tb']))[-1]
        if last['k'] == 'sortitor' and last.get('seed') is None:
            r.append('unseeded_sortitor')
        if not n.get('subsetter', True):
            r.append('tie_subsetter')
    if leaf['k'] == 'tv' and not leaf.get('accept_equal', True):
        r.append('accept_quota_equal')
    return [x for x in PRIORITY if x in r]


def refusable(tree):
    """what the writer documents as unsupported (it may refuse; it does): other transfer methods, retainers, elimination steps,
    quotas other than droop / hare, tie-breakers and converters it does not know, a title the header form cannot carry"""
    import props.c19_io as IO
    for n in walk(tree):
        if n['k'] == 'voting' and n.get('name') is not None and not IO.stv_carriable(n['name']):
            return True
        if n['k'] == 'tie':
            for tb in tb_walk(n['tb']):
                if tb['k'] == 'unsupported' or (tb['k'] == 'pre' and tb['conv'] not in ('presence', 'first')):
                    return True
        if n['k'] == 'tv':
            if n.get('retainer') or n.get('elim', -1) != -1 or n.get('transferer', 'Gregory') != 'Gregory':
                return True
            if n.get('quota', 'droop') == 'imperiali':
                return True
    return False


# ------------------------------------------------------------------------------------------------ the model's view
def model_tb(tb):
    k = tb['k']
    if k in ('number', 'input'):
        return 'order'
    if k == 'sortitor':
        return {'sortitor': tb.get('seed')}
    if k == 'pre':
        return {'pre': tb['conv'] in ('presence', 'first'), 'inner': model_tb(tb['e'])}
    return 'unsupported'


def model_tree(t):
    import props.c19_io as IO
    k = t['k']
    if k == 'voting':
        nm = t.get('name')
        return {'voting': None if nm is None else IO.stv_sval(nm), 'e': model_tree(t['e']), 'title_ok': nm is None or IO.stv_carriable(nm)}
    if k == 'fixed':
        return {'fixed': t['n'], 'e': model_tree(t['e'])}
    if k == 'tie':
        return {'tie': model_tree(t['e']), 'tb': model_tb(t['tb']), 'default_subsetter': bool(t.get('subsetter', True))}
    if k == 'tv':
        q = t.get('quota', 'droop')
        out = {'tv': [not t.get('retainer'), t.get('elim', -1) == -1, t.get('transferer', 'Gregory') == 'Gregory'],
               'mandatory': bool(t.get('mandatory')), 'accept_equal': bool(t.get('accept_equal', True)), 'selector': bool(t.get('selector', True))}
        if q not in ('nameless', 'const', None):
            out['quota'] = q                                             # quota_function.__name__
        return out
    return 'other'


# ------------------------------------------------------------------------------------------------ generator
def gen_tb(rng, depth=0):
    x = rng.random()
    if x < 0.25 and depth < 2:
        return {'k': 'pre', 'conv': rng.choice(['presence', 'presence', 'first', 'condorcet']), 'e': gen_tb(rng, depth + 1)}
    if x < 0.5:
        return {'k': rng.choice(['number', 'input'])}
    if x < 0.9:
        return {'k': 'sortitor', 'seed': rng.choice([0, 7, 123, None])}
    return {'k': 'unsupported'}


def gen_leaf(rng):
    if rng.random() < 0.12:
        return {'k': 'other', 'cls': rng.choice(['Plurality', 'Copeland'])}
    t = {'k': 'tv', 'quota': rng.choice(['droop', 'droop', 'hare', 'hare', 'imperiali', 'const', 'nameless', None]),
         'mandatory': rng.random() < 0.3, 'accept_equal': rng.random() < 0.85, 'selector': rng.random() < 0.85}
    if rng.random() < 0.08:
        t['retainer'] = True
    if rng.random() < 0.08:
        t['elim'] = rng.choice([1, -2])
    if rng.random() < 0.08:
        t['transferer'] = 'Hare'
    return t


def gen_tree(rng):
    """wrappers in any order; FixedSeatCount only where votelib lets one construct it (around something that takes a seat count,
    hence at most once per chain)"""
    t = gen_leaf(rng)
    fixed_done = False
    for _ in range(rng.choice([0, 1, 1, 2, 2, 3, 4])):
        k = rng.choice(['voting', 'fixed', 'tie', 'tie'])
        if k == 'fixed':
            if fixed_done or t['k'] == 'voting':
                continue
            fixed_done = True
            t = {'k': 'fixed', 'n': rng.choice([0, 1, 2, 3]), 'e': t}
        elif k == 'tie':
            t = {'k': 'tie', 'tb': gen_tb(rng), 'subsetter': rng.random() < 0.85, 'e': t}
        else:
            t = {'k': 'voting', 'name': rng.choice([None, 'T', 'Council 2020', 'Ward #3', ' padded', 'A\t\tB', '']), 'e': t}
    return t


def directed():
    tv = {'k': 'tv', 'quota': 'droop'}
    T = lambda tb, e=tv, **kw: dict({'k': 'tie', 'tb': tb, 'e': e}, **kw)                        # noqa: E731
    yield {'k': 'voting', 'name': 'T', 'e': {'k': 'other', 'cls': 'Plurality'}}, None
    yield {'k': 'other', 'cls': 'Copeland'}, None
    yield {'k': 'tv', 'quota': None}, None
    yield {'k': 'tv', 'quota': 'nameless', 'mandatory': True}, None
    yield {'k': 'fixed', 'n': 2, 'e': tv}, 3
    yield {'k': 'fixed', 'n': 2, 'e': tv}, None
    yield tv, 3
    yield T({'k': 'sortitor', 'seed': None}), None
    yield T({'k': 'pre', 'conv': 'presence', 'e': {'k': 'sortitor', 'seed': None}}), None
    yield T({'k': 'sortitor', 'seed': 5}, T({'k': 'sortitor', 'seed': None})), None
    yield T({'k': 'sortitor', 'seed': 5}, T({'k': 'number'})), None
    yield {'k': 'tv', 'quota': 'droop', 'accept_equal': False}, None
    yield {'k': 'tv', 'quota': 'hare', 'selector': False, 'mandatory': True}, None
    yield T({'k': 'number'}, subsetter=False), None
    yield T({'k': 'input'}), None
    yield T({'k': 'pre', 'conv': 'first', 'e': {'k': 'sortitor', 'seed': 9}}), None
    yield T({'k': 'pre', 'conv': 'condorcet', 'e': {'k': 'sortitor', 'seed': 9}}), None
    yield {'k': 'voting', 'name': 'A', 'e': {'k': 'voting', 'name': 'B', 'e': tv}}, None
    yield {'k': 'voting', 'name': None, 'e': {'k': 'voting', 'name': 'B', 'e': tv}}, None
    yield T({'k': 'number'}, {'k': 'fixed', 'n': 2, 'e': tv}), None                      # wrappers in the other order
    yield {'k': 'fixed', 'n': 1, 'e': T({'k': 'sortitor', 'seed': 3})}, None
    yield {'k': 'voting', 'name': 'T', 'e': {'k': 'fixed', 'n': 1, 'e': T({'k': 'sortitor', 'seed': 3}, {'k': 'tv', 'quota': 'hare', 'mandatory': True})}}, None
    for q in ('imperiali', 'const'):
        yield {'k': 'tv', 'quota': q}, None
    yield {'k': 'tv', 'quota': 'droop', 'transferer': 'Hare'}, None
    yield {'k': 'tv', 'quota': 'droop', 'retainer': True}, None
    yield {'k': 'tv', 'quota': 'droop', 'elim': 1}, None
    yield {'k': 'voting', 'name': 'Ward #3', 'e': tv}, None


def gen(rng, n):
    for tree, arg in directed():
        yield {'op': 'stv_sys', 'tree': tree, 'seats_arg': arg, '_tags': ['stv_sys', 'stv_sys_directed'] + tags(tree, arg)}
    for _ in range(n):
        tree = gen_tree(rng)
        arg = rng.choice([None, None, None, 1, 2])
        yield {'op': 'stv_sys', 'tree': tree, 'seats_arg': arg, '_tags': ['stv_sys'] + tags(tree, arg)}


def tags(tree, arg):
    r = reasons(tree, arg)
    t = ['stv_sys_' + x for x in r]
    if refusable(tree):
        t.append('stv_sys_refusable')
    if not r and not refusable(tree):
        t.append('stv_sys_supported')
    t.append('stv_sys_depth_%d' % min(len(list(walk(tree))), 4))
    return t


# ------------------------------------------------------------------------------------------------ impl / oracle
def impl(case, guard):
    import votelib.io.stv as stv

    def dump():
        with warnings.catch_warnings():
            warnings.simplefilter('ignore')
            return stv.dumps(VOTES, build(case['tree']), CANDS, case.get('seats_arg'))
    text = guard(dump)
    if isinstance(text, dict):
        return {'dump': text}
    out = {'dump': 'ok', 'text': text, 'orig': fingerprint(build(case['tree']))}

    def load():
        votes, system, cands = stv.loads(text)
        return system
    system = guard(load)
    if isinstance(system, dict):
        out['loaded'] = system
    else:
        out['loaded'] = {'print': fingerprint(system), 'summary': summary(system)}
    return out


def summary(system):
    """what the model's Summary holds of a loaded system"""
    import votelib.evaluate.auxiliary as aux
    fp = fingerprint(system)
    tie = fp['ties'][0] if fp['ties'] else None
    leaf = fp['leaf']
    return {'title': fp['titles'][0] if fp['titles'] else None, 'seats': str(fp['seats'][0]) if fp['seats'] else None,
            'quota': {'name': leaf[1]} if leaf[0] == 'tv' and leaf[1] else ({'const': leaf[2]} if leaf[0] == 'tv' else 'unknown'),
            'mandatory': bool(leaf[3]) if leaf[0] == 'tv' else False,
            'random': None if tie is None else ('non' if tie[0] == 'order' else str(tie[1]))}


def expected_print(orig, seats_arg):
    """the settings a faithful reload has: those of the original, plus the n_seats argument as a seat count"""
    exp = {k: list(v) if isinstance(v, list) else v for k, v in orig.items()}
    if seats_arg is not None:
        exp['seats'] = exp['seats'] + [seats_arg]
    return exp


def oracle(case, obs):
    rs = reasons(case['tree'], case.get('seats_arg'))
    if obs['dump'] != 'ok':
        if obs['dump']['err'] == 'NotSupportedInFormat':
            if rs or refusable(case['tree']):
                return []
            return [('dump_raises', f"{obs['dump']['exc']}: a system the format can carry is refused")]
        return [('dump_raises_' + obs['dump']['exc'], 'the writer may only refuse with NotSupportedInSTV')]
    if 'err' in obs['loaded']:
        return [('load_raises', f"the writer wrote {obs['text'][:80]!r}, its reader raises {obs['loaded']['exc']}")]
    exp, got = expected_print(obs['orig'], case.get('seats_arg')), obs['loaded']['print']
    if exp != got:
        return [('system_differs', f'{exp} -> {got}')]
    return []
