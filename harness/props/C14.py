"""C14 — composition wrappers equal the explicit composition of their parts.

A case is a wrapper TREE (JSON, one node kind per wrapper / leaf class) plus one call
(votes, n_seats?, prev_gains?, max_seats?, party_lists?).  For every case

  impl    builds the real votelib objects, calls `root.evaluate(...)`, and reports votelib's
          accepts_seats / accepts_prev_gains of every node (pre-order);
  oracle  evaluates the HAND COMPOSITION of the same tree with the same leaf objects (`hand`, written from
          the property statement: no inspect, no dispatch flags; a part is given the arguments it takes)
          and demands wrapper == hand; on a difference the deepest wrapper call that differs from its
          hand composition is blamed and classified (clause code);
  model   the Lean interpreter `VL.C14.eval` on the same tree (result + its hard-coded dispatch flags).
"""
import copy
import itertools
from fractions import Fraction
from common import *   # noqa

ID = 'C14'
NAMESPACE = 'VL.C14'
LEAN_MODULES = ['VotelibProofs.Props.C14', 'VotelibProofs.Props.C14OpenList']
GEN_MODULES = ['Divisor', 'Quota']

REQUIRED = [
    # dispatch flags: after e582ee8 the truth for every tree (structural induction, arbitrary leaves)
    'acceptsSeats_faithful', 'acceptsPrevGains_faithful', 'acceptsMaxSeats_faithful', 'dispatchFaithful_all',
    # one law per wrapper (arbitrary sub-trees, node-local typing hypotheses only)
    'fixedSeatCount_law', 'conditioned_law', 'preConverted_law', 'postConverted_law', 'votingSystem_law',
    'byConstituency_law', 'preApportioned_law', 'removedApportionment_law', 'byParty_law', 'multistage_law',
    'unusedVotes_law', 'tieBreaking_law', 'partyList_law',
    # the same for abstract parts (closure of the strict/by-hand agreement under every wrapper)
    'agree_leaf', 'agree_fixed', 'agree_conditioned', 'agree_preConverted', 'agree_postConverted',
    'agree_byConstituency', 'agree_preApportioned', 'agree_removedApportionment', 'agree_byParty',
    'agree_multistage', 'agree_unusedVotes', 'agree_tieBreaking', 'agree_partyList', 'agree_tree', 'agree_stages',
    # arbitrary nesting
    'laws_compose', 'laws_compose_restrict', 'denote_tolerant',
    # ideal readings; before/after witnesses of the repaired defects; witnesses of the two open ones
    'seatsOptional_faithful', 'seatsForm_given', 'seatsForm_none_optional', 'seatsForm_none_required',
    'conditioned_omitted_stays_omitted', 'conditioned_required_gets_none', 'conditioned_given_seats',
    'fix_904ccca_now', 'fix_904ccca_before_witness',
    'fix_e582ee8_partyList_now', 'fix_e582ee8_partyList_before_witness',
    'fix_e582ee8_generic_now', 'fix_e582ee8_generic_before_witness',
    'fix_9f4a9df_all_zero_now', 'fix_9f4a9df_all_zero_before_witness',
    'fix_9f4a9df_missing_district_now', 'fix_9f4a9df_missing_district_before_witness',
    'fix_e582ee8_max_seats_now', 'fix_e582ee8_max_seats_before_witness',
    'fix_e582ee8_byParty_seatless_now', 'fix_e582ee8_byParty_seatless_before_witness',
    'fix_5bf2df2_byParty_max_seats_now', 'fix_5bf2df2_byParty_max_seats_before_witness',
    'byParty_law_columns', 'byParty_eq_of_columns', 'partyColumn_ok_of_nested',
    'fix_cond_none_seats_now', 'fix_cond_none_seats_before_witness',
    'fix_cond_none_seats_byParty_now', 'fix_cond_none_seats_byParty_before_witness',
    'fix_cond_none_seats_preselector_now', 'fix_cond_none_seats_preselector_before_witness',
    # what the laws say
    'multistage_chain', 'multistage_nil', 'unused_chain', 'unused_chain_last', 'tieBreaking_noTie_sel', 'tieBreaking_noTie_dist', 'tieChoice_among',
    'tieBreaking_ideal', 'replaceSel_eq_fill', 'fillTie_other_places', 'fillTie_length', 'collectSel_count', 'collectSel_keys', 'mem_distinctTies', 'distinctTies_nodup', 'collectSel_order',
    'replaceSel_eq_fill_tiesLast', 'fillTie_append', 'fillTie_some', 'tiePlaces_fillTie', 'tieLoop_eq_fill',
    'tieBreaking_ideal_tiesLast', 'tieBreaking_tie_first_witness',
    'byConstituency_total', 'byConstituency_pointwise', 'district_evaluated', 'district_without_seats',
    'partyList_seats_exactly', 'closedList_ok', 'partyList_open_seats_exactly', 'openList_ok',
    'listEvalExact_takeFromTop', 'listEvalExactOn_of_exact', 'openList_ok_on', 'thresholdOpenList_exactOn', 'thresholdOpenList_exactOn_any',
    'partyList_open_seats_exactly_on', 'toCandList_eq',
    'D.get?_set', 'setNested_look', 'enterAllocation_look', 'look_fillEmpty', 'has_fillEmpty', 'byParty_fold_look',
    'byParty_pointwise',
    'chain_cons', 'chain_nil',
]

WRAPPERS = ['fixed', 'tb', 'cond', 'pre', 'post', 'bycon', 'preapp', 'remapp', 'byparty', 'multi', 'unused',
            'plist', 'vs']
LEAVES = ['plurality', 'input_order', 'ha', 'qd', 'lr', 'abs_thr', 'rel_thr', 'prev_gain_thr']
REQUIRED_COUNTERS = (['w:' + w for w in WRAPPERS] + ['leaf:' + l for l in LEAVES]
                     + ['depth:1', 'depth:2', 'depth:3', 'depth:4',
                        'seatspec:int', 'seatspec:dict', 'seatspec:none', 'seatspec:app_int', 'seatspec:app_dict',
                        'seatspec:app_dist', 'seatspec:app_dist_seatless',
                        'prev_given', 'max_given', 'cond_depth2', 'multi_depth2', 'tb_nested', 'tie_selection',
                        'tie_distribution', 'zero_seat_district', 'votes_per_stage', 'preselector',
                        'elim_prev_gains', 'fix_904ccca_shape', 'seatspec:omitted', 'generic_over_seatless',
                        'unused_votes_2_rounds', 'unused_votes_3plus_rounds', 'unused_votes_prev_gains',
                        'unused_votes_depth2', 'unused_votes_in_multistage', 'unused_votes_in_preapportioned',
                        'unused_votes_later_stage_awards', 'unused_votes_3plus_later_stage_awards',
                        'unused_votes_prev_gains_later_stage_awards', 'unused_votes_depth2_later_stage_awards',
                        # generator audit (GENERATOR_CHECKLIST.md): candidate objects, clashes, numbers, seat values
                        'names:int0', 'names:empty0', 'names:person', 'name_clash', 'exact_arithmetic_in_wrapper',
                        # results nested by two / three constituency levels (depth 3 / 4)
                        'deep:levels2', 'deep:levels3', 'deep:bycon', 'deep:multi', 'deep:unused', 'deep:cond',
                        'deep:preapp', 'deep:fixed', 'deep:prev_gains', 'multi_depth3', 'multi_depth4',
                        'unused_depth3', 'cond_depth3', 'sem:bycon:over_bycon_value',
                        'sem:multi:depth3_2plus_stages_award', 'sem:multi:depth3_prev_gains_value',
                        'sem:multi:depth4_value', 'sem:unused:depth3_value', 'sem:unused:depth3_later_stage_awards',
                        'sem:cond:eliminates_some_depth3',
                        'seat_table_order_differs_from_votes', 'sem:post:merged_selections', 'key_order_checked',
                        'seat_table_shared:repeated_call', 'seat_table_shared:later_stage',
                        'seat_table_shared:repeated_call_and_later_stage',
                        'num:fraction_votes', 'num:fraction_votes_big_denominator', 'num:votes_1e18_or_more',
                        'num:near_tie_at_magnitude', 'num:zero_vote_parties_2plus',
                        'prev_gains_for_party_absent_from_votes',
                        'seats:int_zero', 'seats:int_exceeds_candidates', 'seats:dict_zero', 'seats:dict_exceeds_candidates',
                        'seats:app_int_zero', 'seats:app_int_exceeds_candidates', 'seats:app_dict_zero',
                        'seats:app_dict_exceeds_candidates', 'seats:fixed_exceeds_candidates',
                        'fixed_as_apportioner', 'fixed_as_preselector', 'fixed_as_district_evaluator',
                        # the same wrapper object evaluated twice
                        'state:same_object_twice', 'state:second_call_after_other_votes',
                        'state:second_call_after_more_seats', 'state:second_call_after_failing_call',
                        # per wrapper: cases on which the wrapper's own logic matters (tags from the hand composition)
                        'sem:fixed:value',
                        'sem:tb:tie_in_selection', 'sem:tb:tie_in_distribution', 'sem:tb:tie_2plus_seats',
                        'sem:tb:tie_3plus_members', 'sem:tb:tie_resolved', 'sem:tb:tiebreaker_ties_again',
                        'sem:tb:outer_resolves_what_inner_left',
                        'sem:cond:eliminates_some_depth1', 'sem:cond:eliminates_some_depth2', 'sem:cond:eliminates_all',
                        'sem:cond:eliminator_uses_prev_gains', 'sem:cond:no_seat_count_value',
                        'sem:pre:vote_totals', 'sem:pre:inverted_simple', 'sem:pre:by_constituency', 'sem:pre:chain',
                        'sem:post:sel_to_dist', 'sem:post:merged_distributions', 'sem:post:constituency_totals',
                        'sem:post:party_totals', 'sem:post:by_constituency', 'sem:post:chain',
                        'sem:bycon:2plus_evaluated', 'sem:bycon:zero_seat_next_to_evaluated', 'sem:bycon:none_evaluated',
                        'sem:bycon:district_missing_from_apportionment', 'sem:bycon:preselector_eliminates',
                        'sem:bycon:selector_inside', 'sem:bycon:apportioned_by_evaluator',
                        'sem:bycon:prev_gains_per_district', 'sem:bycon:more_seats_than_candidates',
                        'sem:preapp:value', 'sem:remapp:value', 'sem:remapp:2plus_constituencies',
                        'sem:byparty:value', 'sem:byparty:2plus_parties_2plus_constituencies',
                        'sem:byparty:overall_reused_as_allocator', 'sem:byparty:gains_columns',
                        # seat caps and previous gains of the SAME constituency and party, the cap binding (seeded C14o)
                        'byparty_caps:direct', 'byparty_caps:later_stage', 'byparty_caps:later_stage_remapp',
                        'sem:byparty:cap_and_prev_gains_same_cell', 'sem:byparty:cap_binds_on_cell_with_prev_gains',
                        'sem:byparty:cap_total_vs_remaining_differs',
                        'sem:byparty:later_stage_cap_total_vs_remaining_differs',
                        'sem:multi:2plus_stages_award', 'sem:multi:3plus_stages', 'sem:multi:a_stage_awards_nothing',
                        'sem:multi:depth2_value', 'sem:multi:prev_gains_value', 'sem:multi:max_seats_value',
                        'sem:multi:votes_per_stage', 'sem:unused:default_quota_functions',
                        'sem:plist:closed_value', 'sem:plist:open_value', 'sem:plist:open_differs_from_closed',
                        'sem:plist:more_seats_than_list_members', 'sem:plist:empty_list_of_a_seated_party',
                        'sem:plist:2plus_parties']
                     + ['value:' + w for w in WRAPPERS])

NOT_VERIFIED = [
    'inspect.signature itself: the model hard-codes accepts_seats / accepts_prev_gains per class; the hard-coded '
    'flags are compared with votelib.evaluate.core.accepts_seats / accepts_prev_gains on the live objects of every case',
    'positional versus keyword passing of n_seats (collapsed into one optional argument; equivalent for every class modelled)',
    'hash-order walk of set(elected)|set(stage_res) in MultistageDistributor._add_stage_results (only the insertion order '
    'of the result depends on it; results are compared as maps)',
    'leaf evaluators other than Plurality, InputOrderSelector, HighestAverages, QuotaDistributor, LargestRemainder, '
    'Absolute/RelativeThreshold, PreviousGainThreshold (the theorems hold for arbitrary leaves; the correspondence instantiates these)',
    'open-list evaluation inside PartyListEvaluator (modelled with an abstract list evaluator, exercised with closed lists)',
    'Python aliasing: MultistageDistributor hands the SAME accumulating dict to every stage (pure stages assumed; C18)',
    'insertion order of a HighestAverages result (order of first award): ByParty walks the parties in that order, so which '
    'of several failing parties raises first is not modelled (any two exceptions are taken to agree in trees with ByParty)',
    'negative seat counts (an unused-votes stage that over-awards): the quota leaves reproduce the usual outcome (non-positive '
    'quota refused); the rest answers ModelUnsupported and is not compared (about 1 case in 10^5)',
]
EXHAUSTIVE = {'thorough': False}

CANDS = 8           # party / candidate ids 0..7
CON0 = 100          # constituency ids 100..
PERS0 = 200         # list persons 200 + 10*party + position


# candidate objects: per case one of common's naming modes (strings, ints incl. 0, '' for candidate 0,
# votelib.candidate.Person objects compared by identity); field `_names`, assigned by common._assign_names
NAME_MODES = ['str', 'int0', 'empty0', 'person']
NAMES = Names(prefix='c')


def nm(i):
    return NAMES.n(i)


def idx(name):
    return NAMES.i(name)


def clone(x):
    """copy of the containers, the candidate objects themselves are shared (a Person is its identity)"""
    if isinstance(x, _Empty):
        return x
    if isinstance(x, dict):
        return {k: clone(v) for k, v in x.items()}
    if isinstance(x, list):
        return [clone(v) for v in x]
    return x


# ------------------------------------------------------------------------------------------------
# protocol values

def enc(x, atom='num'):
    """Python value -> protocol.  With int candidates the type does not tell a candidate from a number, the
    POSITION does: dict keys and list members are candidates (or Ties), dict values and bare atoms are numbers."""
    import votelib.evaluate.core as vcore
    if x is None:
        return None
    if isinstance(x, vcore.Tie):
        return {'tie': sorted(idx(c) for c in x)}
    if isinstance(x, bool):
        raise TypeError('bool in result')
    if isinstance(x, (list, tuple)):
        return [enc(v, 'cand') for v in x]
    if isinstance(x, dict):
        return {'dict': [[enc(k, 'cand'), enc(v, 'num')] for k, v in x.items()]}
    if isinstance(x, float):
        return 'float:' + repr(x)
    if atom == 'cand':
        import common as _c
        if isinstance(x, (int, Fraction)) and _c.NAME_MODE != 'int0':
            return num_str(x)
        return idx(x)
    if isinstance(x, (int, Fraction)):
        return num_str(x)
    return idx(x)          # a candidate object where a number is expected: let the comparison show it


def dec(j):
    import votelib.evaluate.core as vcore
    if j is None:
        return None
    if isinstance(j, str):
        f = Fraction(j)
        return int(f) if f.denominator == 1 else f
    if isinstance(j, int):
        return nm(j)
    if isinstance(j, list):
        return [dec(v) for v in j]
    if isinstance(j, dict):
        if 'tie' in j:
            return vcore.Tie(nm(c) for c in j['tie'])
        return {dec(k): dec(v) for k, v in j['dict']}
    raise TypeError(j)


def canon_v(j):
    """canonical form of a protocol value: dict entries sorted by key, ties sorted, numbers reduced"""
    if isinstance(j, dict):
        if 'tie' in j:
            return {'tie': sorted(j['tie'])}
        if 'dict' in j:
            ents = [[canon_v(k), canon_v(v)] for k, v in j['dict']]
            ents.sort(key=lambda p: json.dumps(p[0], sort_keys=True))
            return {'dict': ents}
        return j
    if isinstance(j, list):
        return [canon_v(v) for v in j]
    if isinstance(j, str) and not j.startswith('float:'):
        return num_str(Fraction(j))
    return j


KW = {'n': 'n_seats', 'prev': 'prev_gains', 'max': 'max_seats', 'pl': 'party_lists', 'lv': 'list_votes'}


# ------------------------------------------------------------------------------------------------
# building the real objects

class B:
    """a built node: JSON node, live votelib object, built children"""
    def __init__(self, node, obj, kids):
        self.node, self.obj, self.kids = node, obj, kids
        self.kind = node['k']

    def preorder(self):
        yield self
        for k in self.kid_list():
            yield from k.preorder()

    def kid_list(self):
        out = []
        for key in ('elim', 'main', 'e', 'tb', 'overall', 'party', 'app', 'pre', 'alloc'):
            # constructor order per kind is fixed below
            pass
        order = {'fixed': ['e'], 'tb': ['main', 'tb'], 'cond': ['elim', 'e'], 'pre': ['e'], 'post': ['e'],
                 'bycon': ['e', 'app', 'pre'], 'preapp': ['e', 'app'], 'remapp': ['e'],
                 'byparty': ['overall', 'alloc'], 'plist': ['party'], 'vs': ['e']}
        if self.kind in ('multi', 'unused'):
            return list(self.kids['rounds'])
        for key in order.get(self.kind, []):
            k = self.kids.get(key)
            if isinstance(k, B):
                out.append(k)
        return out


def build_conv(c):
    import votelib.convert as vconv
    k = c['c']
    if k == 'vote_totals':
        return vconv.VoteTotals()
    if k == 'constituency_totals':
        return vconv.ConstituencyTotals()
    if k == 'party_totals':
        return vconv.PartyTotals()
    if k == 'merged_distributions':
        return vconv.MergedDistributions()
    if k == 'merged_selections':
        return vconv.MergedSelections()
    if k == 'inverted_simple':
        return vconv.InvertedSimpleVotes()
    if k == 'sel_to_dist':
        return vconv.SelectionToDistribution(dec(c['amount']))
    if k == 'by_constituency':
        return vconv.ByConstituency(build_conv(c['inner']))
    if k == 'chain':
        return vconv.Chain([build_conv(x) for x in c['cs']])
    raise ValueError(k)


def build(node):
    import votelib
    import votelib.evaluate.core as vcore
    import votelib.evaluate.proportional as vprop
    import votelib.evaluate.threshold as vthr
    import votelib.evaluate.auxiliary as vaux
    k = node['k']
    kids = {}

    def sub(name):
        if node.get(name) is None:
            return None
        kids[name] = build(node[name])
        return kids[name].obj

    def app():
        a = node.get('app')
        if a is None:
            return None
        if 'int' in a:
            return dec(a['int'])
        if 'dict' in a:
            return dec(a)
        kids['app'] = build(a['ev'])
        return kids['app'].obj

    if k == 'plurality':
        obj = vcore.Plurality()
    elif k == 'input_order':
        obj = vaux.InputOrderSelector()
    elif k == 'ha':
        obj = vprop.HighestAverages(node['divisor'])
    elif k == 'qd':
        obj = vprop.QuotaDistributor(node['quota'], accept_equal=node['accept_equal'], on_overaward=node['on_overaward'])
    elif k == 'lr':
        obj = vprop.LargestRemainder(node['quota'], accept_equal=node['accept_equal'], on_overaward=node['on_overaward'])
    elif k == 'abs_thr':
        obj = vthr.AbsoluteThreshold(dec(node['t']), node['eq'])
    elif k == 'rel_thr':
        obj = vthr.RelativeThreshold(Fraction(node['t']), node['eq'])
    elif k == 'prev_gain_thr':
        obj = vthr.PreviousGainThreshold(vthr.AbsoluteThreshold(dec(node['t']), node['eq']))
    elif k == 'fixed':
        obj = vcore.FixedSeatCount(sub('e'), dec(node['n']))
    elif k == 'tb':
        obj = vcore.TieBreaking(sub('main'), sub('tb'))
    elif k == 'cond':
        obj = vcore.Conditioned(sub('elim'), sub('e'), depth=node['depth'])
    elif k == 'pre':
        obj = vcore.PreConverted(build_conv(node['c']), sub('e'))
    elif k == 'post':
        obj = vcore.PostConverted(sub('e'), build_conv(node['c']))
    elif k == 'bycon':
        e = sub('e')
        a = app()
        obj = vcore.ByConstituency(e, a, sub('pre'))
    elif k == 'preapp':
        e = sub('e')
        obj = vcore.PreApportioned(e, app())
    elif k == 'remapp':
        obj = vcore.RemovedApportionment(sub('e'))
    elif k == 'byparty':
        obj = vcore.ByParty(sub('overall'), sub('alloc'))
    elif k in ('multi', 'unused'):
        kids['rounds'] = [build(r) for r in node['rounds']]
        objs = [b.obj for b in kids['rounds']]
        if k == 'multi':
            obj = vcore.MultistageDistributor(objs, depth=node['depth'])
        else:
            obj = vcore.UnusedVotesDistributor(objs, None if node['quotas'] is None else list(node['quotas']),
                                               depth=node['depth'])
    elif k == 'plist':
        o = node.get('open')
        if o is None:
            le = None
        elif o['k'] == 'list_order':
            import votelib.evaluate.openlist as vopen
            le = vopen.ListOrderTieBreaker(vcore.Plurality())
        else:
            import votelib.evaluate.openlist as vopen
            le = vopen.ThresholdOpenList(
                jump_fraction=None if o.get('jump_fraction') is None else Fraction(o['jump_fraction']),
                quota_function=o.get('quota'), quota_fraction=Fraction(o['quota_fraction']),
                take_higher=o['take_higher'], accept_equal=o['accept_equal'], list_precedence=o['list_precedence'])
        obj = vcore.PartyListEvaluator(sub('party'), le)
    elif k == 'vs':
        obj = votelib.VotingSystem('system', sub('e'))
    else:
        raise ValueError(k)
    return B(node, obj, kids)


def call_obj(obj, votes, kw, watch=None):
    """the wrapper call as a user writes it: votes and n_seats positionally, the rest by keyword"""
    votes = clone(votes)
    kw = clone(kw)
    before = (clone(votes), clone(kw))
    kw2 = dict(kw)
    pos = [kw2.pop('n')] if 'n' in kw2 else []
    try:
        return obj.evaluate(votes, *pos, **{KW[k]: v for k, v in kw2.items()})
    finally:
        if watch is not None and (votes, kw) != before:
            watch.append('arguments_mutated')


# ------------------------------------------------------------------------------------------------
# the hand composition (the oracle): written from the property statement

LEAF_TAKES = {'plurality': ('n',), 'input_order': ('n',), 'ha': ('n', 'prev', 'max'), 'qd': ('n', 'prev', 'max'),
              'lr': ('n', 'prev', 'max'), 'abs_thr': (), 'rel_thr': (),
              'prev_gain_thr': ('prev',)}


class Hand:
    def __init__(self, probe=False):
        self.trace = []      # (B, votes, kw, ('ok', result) | ('err', name)) in completion order
        self.notes = set()   # what the wrappers' own logic had to do on this input (generator statistics)
        self.probe = probe   # generator statistics only: re-run a part on perturbed arguments (never in the oracle)
        self.later = False   # inside a later stage of a multi-stage distributor after an earlier stage awarded seats

    def note(self, tag):
        self.notes.add(tag)

    def run(self, b, votes, kw):
        votes0, kw0 = clone(votes), clone(kw)
        try:
            r = self._run(b, votes, kw)
        except Exception as e:      # noqa
            self.trace.append((b, votes0, kw0, ('err', err_name(e))))
            raise
        self.trace.append((b, votes0, kw0, ('ok', clone(r))))
        return r

    def _run(self, b, votes, kw):
        import votelib.evaluate.core as vcore
        k = b.kind
        K = b.kids
        if k in LEAF_TAKES:
            # a part is given what it takes
            return call_obj(b.obj, votes, {a: v for a, v in kw.items() if a in LEAF_TAKES[k]})
        if k == 'fixed':
            # a fixed seat count equals passing that count
            kw2 = dict(kw)
            kw2['n'] = dec(b.node['n'])
            r = self.run(K['e'], votes, kw2)
            self.note('sem:fixed:value')
            return r
        if k == 'vs':
            return self.run(K['e'], votes, kw)
        if k == 'pre':
            # converting, then evaluating
            r = self.run(K['e'], b.obj.converter.convert(clone(votes)), kw)
            self.note('sem:pre:' + b.node['c']['c'])
            return r
        if k == 'post':
            r = b.obj.converter.convert(self.run(K['e'], votes, kw))
            self.note('sem:post:' + b.node['c']['c'])
            if b.node['c']['c'] == 'by_constituency':
                self.note('sem:post:by_constituency:' + b.node['c']['inner']['c'])
            return r
        if k == 'tb':
            return self._tie_breaking(b, votes, kw)
        if k == 'cond':
            return self._conditioned(b, votes, kw)
        if k == 'bycon':
            return self._by_constituency(b, votes, kw)
        if k == 'preapp':
            self._no_lists(kw)
            seats = self._apportion(b, votes, kw.get('n'))
            r = self.run(K['e'], votes, {'n': seats, 'prev': kw.get('prev', {}), 'max': kw.get('max', {})})
            self.note('sem:preapp:value')
            return r
        if k == 'remapp':
            self._no_lists(kw)
            r = self.run(K['e'], votes, {'n': sum(kw['n'].values()) if isinstance(kw.get('n'), dict) else _bad_seats(),
                                         'prev': kw.get('prev', {}), 'max': kw.get('max', {})})
            self.note('sem:remapp:value')
            if len(kw['n']) >= 2:
                self.note('sem:remapp:2plus_constituencies')
            return r
        if k == 'byparty':
            return self._by_party(b, votes, kw)
        if k == 'multi':
            return self._multistage(b, votes, kw)
        if k == 'unused':
            return self._unused(b, votes, kw)
        if k == 'plist':
            return self._party_list(b, votes, kw)
        raise ValueError(k)

    @staticmethod
    def _no_lists(kw):
        pass

    # tie-breaking replaces each tie by the tiebreaker's choice among exactly the tied candidates
    # and changes nothing else
    def _tie_breaking(self, b, votes, kw):
        import votelib.evaluate.core as vcore
        main = self.run(b.kids['main'], votes, kw)
        if isinstance(main, dict):
            out = dict(main)
            for key, seats in main.items():
                if isinstance(key, vcore.Tie):
                    del out[key]
                    among = {c: v for c, v in votes.items() if c in key}
                    chosen = list(self.run(b.kids['tb'], among, {'n': seats}))
                    self.note('sem:tb:tie_in_distribution')
                    if seats >= 2:
                        self.note('sem:tb:tie_2plus_seats')
                    if any(isinstance(c, vcore.Tie) for c in chosen):
                        self.note('sem:tb:tiebreaker_ties_again')
                    else:
                        self.note('sem:tb:tie_resolved')
                    for c in chosen:
                        out[c] = out.get(c, 0) + 1
            return out
        if isinstance(main, list):
            out = list(main)
            distinct = []
            for x in main:
                if isinstance(x, vcore.Tie) and x not in distinct:
                    distinct.append(x)
            for tie in distinct:
                places = [i for i, x in enumerate(out) if isinstance(x, vcore.Tie) and x == tie]
                among = {c: v for c, v in votes.items() if c in tie}
                chosen = list(self.run(b.kids['tb'], among, {'n': len(places)}))
                self.note('sem:tb:tie_in_selection')
                if len(places) >= 2:
                    self.note('sem:tb:tie_2plus_seats')
                if len(tie) >= 3:
                    self.note('sem:tb:tie_3plus_members')
                if any(isinstance(c, vcore.Tie) for c in chosen):
                    self.note('sem:tb:tiebreaker_ties_again')
                else:
                    self.note('sem:tb:tie_resolved')
                    if b.kids['main'].kind == 'tb':
                        self.note('sem:tb:outer_resolves_what_inner_left')
                if len(chosen) > len(places):
                    raise ValueError('tiebreaker chose more candidates than tied places')
                for i, c in zip(places, chosen):
                    out[i] = c
            return out
        if isinstance(main, vcore.Tie):
            return main
        raise TypeError('neither selection nor distribution')

    # conditioning equals evaluating on the votes restricted to the candidates the eliminator passed
    def _conditioned(self, b, votes, kw):
        depth = b.node['depth']
        prev = kw.get('prev', {})
        passed = self.run(b.kids['elim'], _totals(votes, depth), {'prev': _totals(prev, depth)})
        kw2 = _no_seats_form(b.kids['e'], dict(kw))
        kw2['prev'] = prev
        tot = _totals(votes, depth)
        kept = [c for c in tot if c in passed]
        if 0 < len(kept) < len(tot):
            self.note('sem:cond:eliminates_some_depth%d' % min(depth, 3))
        elif not kept:
            self.note('sem:cond:eliminates_all')
        if _flat_total(prev, depth) and b.kids['elim'].kind == 'prev_gain_thr':
            self.note('sem:cond:eliminator_uses_prev_gains')
        r = self.run(b.kids['e'], _restrict(votes, passed, depth), kw2)
        if 'n' not in kw2:
            self.note('sem:cond:no_seat_count_value')
        return r

    def _apportion(self, b, votes, n):
        a = b.node.get('app')
        if a is not None and 'int' in a:
            return {c: dec(a['int']) for c in votes}
        if a is not None and 'dict' in a:
            return dec(a)
        if isinstance(n, dict):
            return n
        if a is not None:
            totals = {c: sum(cv.values()) for c, cv in votes.items()}
            if isinstance(n, int):
                return self.run(b.kids['app'], totals, {'n': n})
            if n is None:
                return self.run(b.kids['app'], totals, {})
            raise ValueError('unknown apportionment scheme')
        if isinstance(n, int):
            return {c: n for c in votes}
        raise ValueError('invalid apportionment setup')

    # per-constituency evaluation equals evaluating each constituency separately with its apportioned seats
    def _by_constituency(self, b, votes, kw):
        self._no_lists(kw)
        n = kw.get('n')
        prev, mx = kw.get('prev', {}), kw.get('max', {})
        seats = self._apportion(b, votes, n)
        if 'n' not in takes(b.kids['e']):
            # each constituency is evaluated WITH ITS SEATS: a part that takes no seat count cannot be composed
            raise TypeError('the constituency evaluator takes no seat count')
        allowed = None
        if 'pre' in b.kids:
            allowed = self.run(b.kids['pre'], _totals(votes, 2), _no_seats_form(b.kids['pre'], {'n': n}))
        out, empty = {}, []
        for con, cvotes in votes.items():
            if seats.get(con, 0) == 0:      # a constituency the apportionment does not mention has no seats
                empty.append(con)
                continue
            if allowed is not None:
                cvotes = {c: v for c, v in cvotes.items() if c in allowed}
            r = self.run(b.kids['e'], cvotes, {'n': seats.get(con), 'prev': prev.get(con, {}), 'max': mx.get(con, {})})
            if r is None:
                empty.append(con)
            else:
                out[con] = r
        kinds = [type(r) for r in out.values()]
        if len(kinds) >= 2:
            self.note('sem:bycon:2plus_evaluated')
        if kinds and _stage_leaf_kind(b.kids['e']) == 'bycon':
            self.note('sem:bycon:over_bycon_value')
        if empty and kinds:
            self.note('sem:bycon:zero_seat_next_to_evaluated')
        if not kinds:
            self.note('sem:bycon:none_evaluated')
        if any(con not in seats for con in votes):
            self.note('sem:bycon:district_missing_from_apportionment')
        if allowed is not None and any(c not in allowed for cv in votes.values() for c in cv) and kinds:
            self.note('sem:bycon:preselector_eliminates')
        if b.kids['e'].kind in ('plurality', 'input_order') or (kinds and kinds[0] is list):
            self.note('sem:bycon:selector_inside')
        if 'app' in b.kids and kinds:
            self.note('sem:bycon:apportioned_by_evaluator')
        if any(_flat_total(prev.get(con, {}), 1) for con in out) and kinds:
            self.note('sem:bycon:prev_gains_per_district')
        if any(isinstance(seats.get(con), int) and seats.get(con) > len(votes[con]) for con in votes) and kinds:
            self.note('sem:bycon:more_seats_than_candidates')
        for con in empty:
            out[con] = kinds[0]() if kinds else EMPTY
        return out

    def _by_party(self, b, votes, kw):
        self._no_lists(kw)
        prev, mx = kw.get('prev', {}), kw.get('max', {})
        overall = self.run(b.kids['overall'], _totals(votes, 2), _no_seats_form(b.kids['overall'], {'n': kw.get('n')}))
        alloc = b.kids.get('alloc') or b.kids['overall']
        out = {con: {} for con in votes}
        for party, seats in overall.items():
            pvotes = {con: cv.get(party, 0) for con, cv in votes.items()}
            pprev = {con: g[party] for con, g in prev.items() if party in g}
            pmax = {con: g[party] for con, g in mx.items() if party in g}
            allocated = self.run(alloc, pvotes, {'n': seats, 'prev': pprev, 'max': pmax})
            if self.probe:
                self._probe_caps(alloc, pvotes, seats, pprev, pmax, allocated)
            for con, s in allocated.items():
                out.setdefault(con, {})[party] = s
        self.note('sem:byparty:value')
        if len(overall) >= 2 and len(votes) >= 2:
            self.note('sem:byparty:2plus_parties_2plus_constituencies')
        if 'alloc' not in b.kids:
            self.note('sem:byparty:overall_reused_as_allocator')
        if _flat_total(prev, 2) or _flat_total(mx, 2):
            self.note('sem:byparty:gains_columns')
        return out

    def _probe_caps(self, alloc, pvotes, seats, pprev, pmax, allocated):
        """generator statistics: does this allocation depend on the party's seat caps being TOTALS that include its
        previous gains (seeded change C14o handed on caps reduced by the previous gains)?  The allocator (a part) is
        run again by hand with the caps of the cells that also hold previous gains (a) removed, (b) reduced by
        those gains."""
        try:
            cells = [con for con in pmax if con in pvotes and pprev.get(con, 0) > 0]
        except TypeError:
            return
        if not cells:
            return
        self.note('sem:byparty:cap_and_prev_gains_same_cell')

        def alt(mx):
            try:
                return 'ok', Hand().run(alloc, clone(pvotes), {'n': seats, 'prev': clone(pprev), 'max': mx})
            except Exception as e:      # noqa
                return 'err', err_name(e)
        try:
            free = alt({c: v for c, v in pmax.items() if c not in cells})
            rel = alt({c: v - pprev[c] if c in cells else v for c, v in pmax.items()})
        except TypeError:
            return
        if free != ('ok', allocated):
            self.note('sem:byparty:cap_binds_on_cell_with_prev_gains')
        if rel != ('ok', allocated):
            self.note('sem:byparty:cap_total_vs_remaining_differs')
            if self.later:
                self.note('sem:byparty:later_stage_cap_total_vs_remaining_differs')

    # multi-stage distribution equals chaining the stages with accumulated previous gains
    def _multistage(self, b, votes, kw):
        depth = b.node['depth']
        acc = clone(kw.get('prev', {}))
        rounds = b.kids['rounds']
        per_stage = [votes] * len(rounds) if isinstance(votes, dict) else list(votes)
        awarded = []
        for st, sv in zip(rounds, per_stage):
            was = self.later
            self.later = was or any(x > 0 for x in awarded)
            try:
                r = self.run(st, sv, {'n': kw.get('n'), 'prev': clone(acc), 'max': kw.get('max', {})})
            finally:
                self.later = was
            awarded.append(_flat_total(r, depth))
            acc = _nested_add(acc, r, depth)
        if len(rounds) >= 2 and sum(1 for x in awarded if x > 0) >= 2:
            self.note('sem:multi:2plus_stages_award')
        if len(rounds) >= 3:
            self.note('sem:multi:3plus_stages')
        if len(rounds) >= 2 and any(x == 0 for x in awarded) and any(x > 0 for x in awarded):
            self.note('sem:multi:a_stage_awards_nothing')
        if depth >= 2 and any(x > 0 for x in awarded):
            self.note('sem:multi:depth2_value')
        if depth >= 3 and sum(1 for x in awarded if x > 0) >= 2:
            self.note('sem:multi:depth3_2plus_stages_award')
        if depth >= 4 and any(x > 0 for x in awarded):
            self.note('sem:multi:depth4_value')
        if depth >= 3 and _flat_total(kw.get('prev', {}), depth) and any(x > 0 for x in awarded):
            self.note('sem:multi:depth3_prev_gains_value')
        if _flat_total(kw.get('prev', {}), depth) and any(x > 0 for x in awarded):
            self.note('sem:multi:prev_gains_value')
        if _flat_total(kw.get('max', {}), depth) and any(x > 0 for x in awarded):
            self.note('sem:multi:max_seats_value')
        if not isinstance(votes, dict):
            self.note('sem:multi:votes_per_stage')
        return acc

    def _unused(self, b, votes, kw):
        import votelib.component.quota as vquota
        import votelib.evaluate.core as vcore
        if kw.get('max'):
            raise NotImplementedError('max_seats not supported')
        depth = b.node['depth']
        acc = clone(kw.get('prev', {}))
        n = kw.get('n')
        rounds = b.kids['rounds']
        quotas = [vquota.construct(q) for q in resolve_quotas(b.node)] + [None]
        if b.node['quotas'] is None and len(rounds) >= 2:
            self.note('sem:unused:default_quota_functions')
        for st, q in zip(rounds, quotas):
            r = self.run(st, votes, {'n': n})
            acc = _nested_add(acc, r, depth)
            if q is not None:
                votes, n = _use_nested(votes, r, n, q, depth), _seats_left(n, r, depth)
            if depth >= 3 and _flat_total(r, depth) > 0:
                self.note('sem:unused:depth3_value')
                if st is not rounds[0]:
                    self.note('sem:unused:depth3_later_stage_awards')
        return acc

    # party-list evaluation seats exactly as many list candidates as the party won
    def _party_list(self, b, votes, kw):
        if 'pl' not in kw:
            raise TypeError('party_lists missing')
        won = self.run(b.kids['party'], votes, {a: v for a, v in kw.items() if a in ('n', 'prev', 'max')})
        if b.node.get('open') is None:
            if kw.get('lv'):
                raise ValueError('list votes given but no list evaluator')
            out = {party: list(kw['pl'][party][:seats]) for party, seats in won.items()}
            self.note('sem:plist:closed_value')
        else:
            if not kw.get('lv'):
                raise ValueError('no list votes for open list evaluation')
            # the list evaluator is a part: the same object, given the party's list votes, seats and list
            out = {party: b.obj.list_eval.evaluate(clone(kw['lv'][party]), seats, list(kw['pl'][party]))
                   for party, seats in won.items()}
            self.note('sem:plist:open_value')
            if any(list(out[p]) != list(kw['pl'][p][:won[p]]) for p in won):
                self.note('sem:plist:open_differs_from_closed')
        if any(seats > len(kw['pl'][party]) for party, seats in won.items()):
            self.note('sem:plist:more_seats_than_list_members')
        if any(len(kw['pl'][party]) == 0 for party in won):
            self.note('sem:plist:empty_list_of_a_seated_party')
        if len(won) >= 2:
            self.note('sem:plist:2plus_parties')
        return out


def _stage_leaf_kind(b):
    """the kind of the first node below pass-through wrappers"""
    while b.kind in ('vs', 'pre', 'post'):
        b = b.kids['e']
    return b.kind


def _stage_leaf(node):
    while node['k'] in ('bycon', 'vs', 'pre', 'post'):
        node = node['e']
    return node


def resolve_quotas(node):
    """`quota_functions=None`: the constructor takes the quota function of every round but the last"""
    if node.get('quotas') is not None:
        return list(node['quotas'])
    return [r['quota'] for r in node['rounds'][:-1]]     # the attribute `quota_function` of the round itself


class Unspecified(Exception):
    """the property statement does not determine the hand composition"""


class _Empty(dict):
    """empty result of unknown kind (no district was evaluated); behaves as an empty dict when it flows on"""
    def __repr__(self):
        return 'EMPTY'

    def __deepcopy__(self, memo):
        return self


EMPTY = _Empty()


def _bad_seats():
    raise AttributeError('seat total of something that is not a per-constituency dict')


def _use(votes, won, n, q):
    import votelib.evaluate.core as vcore
    quota = q(sum(votes.values()), n)
    out = {}
    for c, v in votes.items():
        used = quota * won.get(c, 0)
        if v < used:
            raise vcore.VotingSystemError('more votes used than cast')
        out[c] = v - used
    return out


def _use_nested(votes, won, n, q, depth):
    """the votes left after the quota of this round's seats, constituency by constituency"""
    if depth <= 1:
        return _use(votes, won, n, q)
    if not isinstance(n, dict):
        raise Unspecified('unused votes by constituency with a single seat number')
    return {con: _use_nested(cv, won.get(con, {}), n.get(con, 0 if depth == 2 else {}), q, depth - 1)
            for con, cv in votes.items()}


def _seats_left(n, won, depth):
    """the seats left after this round's seats, constituency by constituency"""
    if depth <= 1:
        return n - sum(won.values())
    return {con: _seats_left(s, won.get(con, {}), depth - 1) for con, s in n.items()}


def _totals(values, depth):
    if depth <= 1:
        return values
    tot = {}
    for inner in values.values():
        for c, v in _totals(inner, depth - 1).items():
            tot[c] = tot.get(c, 0) + v
    return tot


def _restrict(votes, passed, depth):
    if depth <= 1:
        return {c: v for c, v in votes.items() if c in passed}
    return {k: _restrict(v, passed, depth - 1) for k, v in votes.items()}


def _nested_add(acc, r, depth):
    if depth <= 1:
        out = dict(acc)
        for c, s in r.items():
            out[c] = out.get(c, 0) + s
        return out
    out = {}
    for k in list(acc) + [k for k in r if k not in acc]:
        out[k] = _nested_add(acc.get(k, {}), r.get(k, {}), depth - 1)
    return out


def enc_hand(x):
    """like enc, EMPTY matches both [] and {}"""
    if isinstance(x, _Empty):
        return 'EMPTY'
    if isinstance(x, dict):
        return {'dict': [[enc(k, 'cand'), enc_hand(v)] for k, v in x.items()]}
    return enc(x)


def same(w, h):
    """canonical wrapper observable == canonical hand observable"""
    if h == 'EMPTY':
        return w in ([], {'dict': []})
    if isinstance(h, dict) and 'dict' in h and isinstance(w, dict) and 'dict' in w:
        if len(h['dict']) != len(w['dict']):
            return False
        return all(hk == wk and same(wv, hv) for (hk, hv), (wk, wv) in zip(h['dict'], w['dict']))
    return w == h


# ------------------------------------------------------------------------------------------------
# impl / oracle / compare

def _args(case):
    a = case['args']
    votes = dec(a['votes'])
    kw = {k: dec(a[k]) for k in ('n', 'prev', 'max', 'pl', 'lv') if k in a}
    return votes, kw


def impl(case):
    import votelib.evaluate.core as vcore
    try:
        root = build(case['tree'])
    except Exception as e:      # noqa
        return {'res': {'err': 'build:' + err_name(e)}, 'flags': []}
    votes, kw = _args(case)
    watch = []
    if case.get('warm') is not None:
        # the same wrapper OBJECT is evaluated on another input first; wrappers keep no state
        wv, wkw = _args({'args': case['warm']})
        guarded(lambda: call_obj(root.obj, wv, wkw))
    res = guarded(lambda: enc(call_obj(root.obj, votes, kw, watch)))
    ams = getattr(vcore, 'accepts_max_seats', None)
    sopt = getattr(vcore, 'seats_optional', None)
    flags = [[bool(vcore.accepts_seats(b.obj)), bool(vcore.accepts_prev_gains(b.obj)),
              bool(ams(b.obj)) if ams else None, bool(sopt(b.obj)) if sopt else None] for b in root.preorder()]
    return {'res': res, 'flags': flags, 'mutated': bool(watch)}


def _is_err(x):
    return isinstance(x, dict) and 'err' in x


def hand_eval(case):
    """(observable of the hand composition, Hand with its trace, built tree)"""
    root = build(case['tree'])
    votes, kw = _args(case)
    h = Hand()

    def go():
        return enc_hand(h.run(root, votes, kw))
    try:
        obs = call_with_timeout(go, 5)
    except Unspecified:
        obs = {'unspecified': True}
    except Exception as e:      # noqa
        obs = {'err': err_name(e)}
    return obs, h, root


def _eq_obs(w, h):
    if _is_err(w) or _is_err(h):
        return _is_err(w) and _is_err(h) and w['err'] == h['err']
    return same(canon_v(w), canon_v(h) if h != 'EMPTY' else h)


def _canon_hand(h):
    if h == 'EMPTY' or _is_err(h):
        return h
    if isinstance(h, dict) and 'dict' in h:
        ents = [[canon_v(k), _canon_hand(v)] for k, v in h['dict']]
        ents.sort(key=lambda p: json.dumps(p[0], sort_keys=True))
        return {'dict': ents}
    return canon_v(h)


def _agree(w, h):
    if _is_err(w) or _is_err(h):
        if not (_is_err(w) and _is_err(h)):
            return False
        # both fail: the same exception, or two crashes that are not declared outcomes of the library (an
        # ill-typed call such as no seat count for a distributor fails by hand and in the wrapper, possibly at
        # different statements)
        return w['err'] == h['err'] or (w['err'] not in DECLARED and h['err'] not in DECLARED)
    return same(canon_v(w), _canon_hand(h))


LEAF_NEEDS_SEATS = {'ha', 'qd', 'lr'}        # n_seats is a required argument of the leaf


def needs_seats(b):
    """the part cannot be called without a seat count argument: "no seat count" is written None for it"""
    k = b.kind
    if k in LEAF_TAKES:
        return k in LEAF_NEEDS_SEATS
    if k == 'tb':
        return needs_seats(b.kids['main'])
    if k in ('pre', 'post', 'vs'):
        return needs_seats(b.kids['e'])
    return k in ('multi', 'unused', 'plist')


def _no_seats_form(b, kw):
    """no seat count (omitted or None) stays no seat count, written as the part takes it"""
    if kw.get('n') is None:
        kw.pop('n', None)
        if needs_seats(b):
            kw['n'] = None
    return kw


def takes(b):
    """the arguments a part can be given when it is called by hand (from the composition, not from inspect)"""
    k = b.kind
    if k in LEAF_TAKES:
        return set(LEAF_TAKES[k])
    if k == 'fixed':
        return takes(b.kids['e']) - {'n'}
    if k == 'tb':
        return takes(b.kids['main'])
    if k in ('pre', 'post', 'vs'):
        return takes(b.kids['e'])
    if k == 'cond':
        return {'n', 'prev'} | (takes(b.kids['e']) & {'max', 'pl', 'lv'})
    if k == 'plist':
        return {'n', 'pl', 'lv'} | (takes(b.kids['party']) & {'prev', 'max'})
    return {'n', 'prev', 'max'}


def _takes_seats(b):
    return 'n' in takes(b)


def _takes_prev(b):
    return 'prev' in takes(b)


def diagnose(b, votes, kw, w, h):
    """clause code for: wrapper node `b` called with (votes, kw) gives `w`, its hand composition `h`"""
    k = b.kind
    sym = ('raises:' + w['err']) if _is_err(w) else ('hand_raises:' + h['err'] if _is_err(h) else 'differs')
    if k == 'bycon' and sym == 'raises:StopIteration':
        return 'bycon:no_district_evaluated:raises:StopIteration'
    generic = ('tb', 'pre', 'post', 'vs')
    if k == 'cond':
        inner = b.kids['e']
        if 'n' not in kw and _takes_seats(inner) and _is_err(w):
            return 'cond:n_seats_omitted_forwarded_as_None:' + sym
        if inner.kind in generic and not _takes_seats(inner) and _is_err(w):
            return 'cond:accepts_seats_generic_over_seatless:' + sym
        if not vflag_prev(inner) and _takes_prev(inner) and kw.get('prev'):
            return 'cond:prev_gains_dropped_for_' + inner.kind + ':' + sym
    if k == 'bycon':
        inner = b.kids['e']
        pre = b.kids.get('pre')
        try:
            seats = Hand()._apportion(b, clone(votes), kw.get('n'))
        except Exception:       # noqa
            seats = None
        if isinstance(seats, dict) and any(con not in seats for con in votes) and _is_err(w):
            return 'bycon:district_missing_from_apportionment:' + sym
        if vflag_prev(inner) and 'max' not in takes(inner) and _is_err(w):
            return 'bycon:max_seats_forced_on_inner_without_it:' + sym
        if pre is not None and _takes_seats(pre) and kw.get('n') is None and _is_err(w):
            return 'bycon:preselector_n_seats_omitted_forwarded_as_None:' + sym
        if pre is not None and pre.kind in generic and not _takes_seats(pre) and _is_err(w):
            return 'bycon:preselector_accepts_seats_generic_over_seatless:' + sym
        if not vflag_prev(inner) and _takes_prev(inner) and (kw.get('prev') or kw.get('max')):
            return 'bycon:prev_gains_dropped_for_' + inner.kind + ':' + sym
    if k == 'byparty':
        if 'n' not in kw and _is_err(w):
            return 'byparty:n_seats_omitted_forwarded_as_None:' + sym
        alloc = b.kids.get('alloc') or b.kids['overall']
        if vflag_prev(alloc) and 'max' not in takes(alloc) and _is_err(w):
            return 'byparty:max_seats_forced_on_inner_without_it:' + sym
        if not vflag_prev(alloc) and _takes_prev(alloc) and (kw.get('prev') or kw.get('max')):
            return 'byparty:prev_gains_dropped_for_' + alloc.kind + ':' + sym
    if k == 'unused' and b.node['depth'] > 1 and not isinstance(kw.get('n'), dict):
        return 'unused:depth2_single_seat_number:' + sym
    return f'{k}:{sym}'


def vflag_prev(b):
    import votelib.evaluate.core as vcore
    return bool(vcore.accepts_prev_gains(b.obj))


def _bycon_rooted(node):
    """the top-level keys of the result are the constituencies of a ByConstituency (its own result order is part of the
    observable: evaluated constituencies in the order of the votes, then the ones without a value)"""
    k = node['k']
    if k == 'bycon':
        return True
    if k in ('vs', 'fixed', 'cond', 'preapp'):
        return _bycon_rooted(node['e'])
    return False


def _key_order(x):
    return [json.dumps(canon_v(k), sort_keys=True) for k, _ in x['dict']] if isinstance(x, dict) and 'dict' in x else None


def oracle(case, obs):
    out = _oracle(case, obs)
    if not out and _bycon_rooted(case['tree']) and not _is_err(obs['res']):
        h, _hd, _root = hand_eval(case)
        if _key_order(obs['res']) is not None and _key_order(h) is not None and _key_order(obs['res']) != _key_order(h):
            out = [('bycon:key_order_differs', f'constituencies in the order {_key_order(obs["res"])}, by hand (order of '
                                               f'the votes, then the ones without a value) {_key_order(h)}')]
    return out


def _oracle(case, obs):
    out = []
    w = obs['res']
    if _is_err(w) and str(w['err']).startswith('build:'):
        return [('build_failed', w['err'])]
    if obs.get('mutated'):
        out.append((case['tree']['k'] + ':arguments_mutated', 'the call changed the votes / prev_gains / max_seats it was given'))
    h, hd, root = hand_eval(case)
    if isinstance(h, dict) and h.get('unspecified'):
        return out
    if _agree(w, h):
        return out
    # blame the deepest wrapper call that differs from its hand composition
    for b, votes, kw, outcome in hd.trace:
        if b.kind in LEAF_TAKES:
            continue
        hh = enc_hand(outcome[1]) if outcome[0] == 'ok' else {'err': outcome[1]}
        kw = {a: v for a, v in kw.items() if a in takes(b)}
        ww = guarded(lambda: enc(call_obj(b.obj, votes, kw)))
        if not _agree(ww, hh):
            code = diagnose(b, votes, kw, ww, hh)
            return out + [(code, f'{describe_node(b.node)} with {describe_kw(kw)}: wrapper {json.dumps(canon_v(ww))} '
                           f'hand composition {json.dumps(_canon_hand(hh))}')]
    return out + [(f'{root.kind}:differs_untraced', f'wrapper {json.dumps(w)} hand {json.dumps(h)}')]


def compare(case, iobs, mobs):
    if not isinstance(mobs, dict) or 'res' not in mobs:
        return f'model answer {json.dumps(mobs)[:200]}'
    w, m = iobs['res'], mobs['res']
    if _is_err(w) and str(w['err']).startswith('build:'):
        return None
    msgs = []
    if _is_err(m) and m['err'] == 'ModelUnsupported':
        # the flat leaf models say themselves that they do not cover this input (a negative seat count left by an
        # over-awarding stage together with a positive quota; Tie objects as vote keys): nothing to compare
        return None
    if _is_err(w) or _is_err(m):
        same_class = _is_err(w) and _is_err(m) and w['err'] == m['err']
        # ByParty walks the parties in the insertion order of the overall result; the shared HighestAverages
        # model does not fix that order (results are compared as maps), so when several parties fail for
        # different reasons WHICH exception surfaces first is not modelled: any two errors agree there
        kinds = set(tree_kinds(case['tree']))
        order_free = _is_err(w) and _is_err(m) and 'byparty' in kinds
        # an unused-votes stage that over-awards leaves a negative seat count to the next stage; no leaf model
        # covers that, only "both crash with an undeclared exception" is compared there
        if (_is_err(w) and _is_err(m) and 'unused' in kinds
                and w['err'] not in DECLARED and m['err'] not in DECLARED):
            order_free = True
        if not (same_class or order_free):
            msgs.append(f'impl={json.dumps(w)[:300]} model={json.dumps(m)[:300]}')
    elif canon_v(w) != canon_v(m):
        msgs.append(f'impl={json.dumps(canon_v(w))[:300]} model={json.dumps(canon_v(m))[:300]}')
    elif _bycon_rooted(case['tree']) and _key_order(w) != _key_order(m):
        msgs.append(f'key order impl={_key_order(w)} model={_key_order(m)}')
    if iobs['flags'] != mobs.get('flags'):
        msgs.append(f'dispatch flags impl={iobs["flags"]} model={mobs.get("flags")}')
    return '; '.join(msgs) or None


def nontrivial(case, obs):
    return not _is_err(obs['res']) and tree_depth(case['tree']) >= 1


NAMED_CLASSES = ('no_district_evaluated', 'district_missing_from_apportionment', 'max_seats_forced_on_inner_without_it',
                 'preselector_accepts_seats_generic_over_seatless', 'n_seats_omitted_forwarded_as_None',
                 'preselector_n_seats_omitted_forwarded_as_None',
                 'accepts_seats_generic_over_seatless', 'arguments_mutated', 'depth2_single_seat_number')


def signature(case, clause):
    """known findings are matched by (wrapper kind, input class); the symptom (which exception) is not part of it"""
    parts = clause.split(':')
    if len(parts) >= 2 and (parts[1] in NAMED_CLASSES or parts[1].startswith('prev_gains_dropped_for_')):
        return f'eval_tree:{parts[0]}:{parts[1]}'
    return f'eval_tree:{clause}'


def _resolved(node):
    if isinstance(node, dict):
        out = {k: _resolved(v) for k, v in node.items()}
        if node.get('k') == 'unused' and node.get('quotas') is None:
            out['quotas'] = resolve_quotas(node)
        return out
    if isinstance(node, list):
        return [_resolved(v) for v in node]
    return node


def model_line(case):
    c = strip_case(case)
    c['tree'] = _resolved(c['tree'])       # the interpreter is given the quota functions the constructor picks
    c.pop('warm', None)                    # the interpreter has no state: only the call itself
    return c


# ------------------------------------------------------------------------------------------------
# describing cases

def kids_of(node):
    k = node['k']
    out = []
    for key in ('elim', 'main', 'e', 'tb', 'overall', 'alloc', 'party', 'pre'):
        if isinstance(node.get(key), dict) and 'k' in node[key]:
            out.append(node[key])
    a = node.get('app')
    if isinstance(a, dict) and 'ev' in a:
        out.append(a['ev'])
    out += node.get('rounds', [])
    return out


def tree_depth(node):
    """number of wrapper levels"""
    ks = kids_of(node)
    if node['k'] in LEAF_TAKES:
        return 0
    return 1 + max([tree_depth(k) for k in ks] or [0])


def tree_kinds(node):
    yield node['k']
    for k in kids_of(node):
        yield from tree_kinds(k)


def describe_conv(c):
    k = c['c']
    names = {'vote_totals': 'VoteTotals()', 'constituency_totals': 'ConstituencyTotals()', 'party_totals': 'PartyTotals()',
             'merged_distributions': 'MergedDistributions()', 'merged_selections': 'MergedSelections()', 'inverted_simple': 'InvertedSimpleVotes()'}
    if k in names:
        return names[k]
    if k == 'sel_to_dist':
        return f'SelectionToDistribution({c["amount"]})'
    if k == 'by_constituency':
        return f'convert.ByConstituency({describe_conv(c["inner"])})'
    return 'Chain([' + ', '.join(describe_conv(x) for x in c['cs']) + '])'


def describe_node(n):
    k = n['k']
    d = describe_node
    if k == 'plurality':
        return 'Plurality()'
    if k == 'input_order':
        return 'InputOrderSelector()'
    if k == 'ha':
        return f'HighestAverages({n["divisor"]!r})'
    if k in ('qd', 'lr'):
        cls = 'QuotaDistributor' if k == 'qd' else 'LargestRemainder'
        return f'{cls}({n["quota"]!r}, accept_equal={n["accept_equal"]}, on_overaward={n["on_overaward"]!r})'
    if k == 'abs_thr':
        return f'AbsoluteThreshold({n["t"]}, {n["eq"]})'
    if k == 'rel_thr':
        return f'RelativeThreshold(Fraction({n["t"]!r}), {n["eq"]})'
    if k == 'prev_gain_thr':
        return f'PreviousGainThreshold(AbsoluteThreshold({n["t"]}, {n["eq"]}))'
    if k == 'fixed':
        return f'FixedSeatCount({d(n["e"])}, {n["n"]})'
    if k == 'tb':
        return f'TieBreaking({d(n["main"])}, {d(n["tb"])})'
    if k == 'cond':
        return f'Conditioned({d(n["elim"])}, {d(n["e"])}, depth={n["depth"]})'
    if k == 'pre':
        return f'PreConverted({describe_conv(n["c"])}, {d(n["e"])})'
    if k == 'post':
        return f'PostConverted({d(n["e"])}, {describe_conv(n["c"])})'
    app = n.get('app')
    sa = 'None' if app is None else (str(app['int']) if 'int' in app else (repr(dec(app)) if 'dict' in app else d(app['ev'])))
    if k == 'bycon':
        return f'ByConstituency({d(n["e"])}, {sa}' + (f', preselector={d(n["pre"])}' if n.get('pre') else '') + ')'
    if k == 'preapp':
        return f'PreApportioned({d(n["e"])}, {sa})'
    if k == 'remapp':
        return f'RemovedApportionment({d(n["e"])})'
    if k == 'byparty':
        return f'ByParty({d(n["overall"])}' + (f', {d(n["alloc"])}' if n.get('alloc') else '') + ')'
    if k == 'multi':
        return 'MultistageDistributor([' + ', '.join(d(r) for r in n['rounds']) + f'], depth={n["depth"]})'
    if k == 'unused':
        return 'UnusedVotesDistributor([' + ', '.join(d(r) for r in n['rounds']) + f'], {n["quotas"]}, depth={n["depth"]})'
    if k == 'plist':
        o = n.get('open')
        le = ('' if o is None else ', ListOrderTieBreaker(Plurality())' if o['k'] == 'list_order' else
              ', ThresholdOpenList(' + ', '.join(f'{a}={o[a]!r}' for a in ('jump_fraction', 'quota', 'quota_fraction',
                                                                          'take_higher', 'accept_equal', 'list_precedence')) + ')')
        return f'PartyListEvaluator({d(n["party"])}{le})'
    if k == 'vs':
        return f'VotingSystem("system", {d(n["e"])})'
    return k


def describe_kw(kw):
    return ', '.join(f'{KW[k]}={v!r}' for k, v in kw.items()) or 'no further arguments'


def describe(case):
    votes, kw = _args(case)
    return f'{describe_node(case["tree"])}.evaluate({votes!r}, {describe_kw(kw)})'


# ------------------------------------------------------------------------------------------------
# generator: typed wrapper trees
#
#   S1   selector on simple votes, takes n_seats                       -> list
#   D1   distributor on simple votes, takes n_seats (gains: also prev_gains / max_seats)   -> dict
#   EL   seatless selector on simple votes (eliminator)                -> list
#   D2   on votes nested by constituency, takes n_seats (int / dict / None), prev, max      -> dict of results
#   F2   on nested votes, flat distribution result

DIVS = ['d_hondt', 'sainte_lague', 'imperiali', 'danish', 'macau']


def leaf(k, **kw):
    n = {'k': k}
    n.update(kw)
    return n


def g_thr(rng, kind=None):
    kind = kind or rng.choice(['abs_thr', 'abs_thr', 'rel_thr'])
    if kind == 'rel_thr':
        return leaf('rel_thr', t=rng.choice(['0', '1/20', '1/10', '1/5', '1/4', '1/3']), eq=rng.random() < 0.6)
    return leaf(kind, t=str(rng.choice([0, 1, 2, 3, 4, 6])), eq=rng.random() < 0.6)


def g_el(rng, d, allow_prev=True):
    r = rng.random()
    if d > 0 and r < 0.15:
        return {'k': 'fixed', 'e': g_s1(rng, d - 1), 'n': str(rng.randint(1, 3))}
    if d > 0 and r < 0.22:
        return {'k': 'vs', 'e': g_el(rng, d - 1, allow_prev)}
    if allow_prev and r < 0.4:
        return g_thr(rng, 'prev_gain_thr')
    return g_thr(rng)


def g_s1(rng, d):
    opts = ['plurality', 'plurality', 'input_order']
    if d > 0:
        opts += ['tb', 'tb', 'cond', 'pre_inv', 'vs']
    k = rng.choice(opts)
    if k in ('plurality', 'input_order'):
        return leaf(k)
    if k == 'tb':
        return {'k': 'tb', 'main': g_s1(rng, d - 1), 'tb': g_s1(rng, min(d - 1, 1))}
    if k == 'cond':
        return {'k': 'cond', 'elim': g_el(rng, d - 1), 'e': g_s1(rng, d - 1), 'depth': 1}
    if k == 'pre_inv':
        return {'k': 'pre', 'c': {'c': 'inverted_simple'}, 'e': g_s1(rng, d - 1)}
    return {'k': 'vs', 'e': g_s1(rng, d - 1)}


def g_d1(rng, d, gains=False):
    """gains=True: the evaluator must take prev_gains and max_seats (a stage of a multi-stage distributor)"""
    opts = ['ha', 'ha', 'ha', 'qd', 'lr']
    if d > 0:
        opts += ['tb', 'cond', 'multi', 'vs', 'pre_chain']
        if not gains:
            opts += ['post_s2d', 'unused']
    k = rng.choice(opts)
    if k == 'ha':
        return leaf('ha', divisor=rng.choice(DIVS))
    if k in ('qd', 'lr'):
        return g_quota_leaf(rng, k)
    if k == 'tb':
        return {'k': 'tb', 'main': g_d1(rng, d - 1, gains), 'tb': g_s1(rng, min(d - 1, 1))}
    if k == 'cond':
        return {'k': 'cond', 'elim': g_el(rng, d - 1), 'e': g_d1(rng, d - 1, gains), 'depth': 1}
    if k == 'multi':
        return {'k': 'multi', 'rounds': [g_d1(rng, d - 1, True) for _ in range(rng.randint(1, 3))], 'depth': 1}
    if k == 'vs':
        return {'k': 'vs', 'e': g_d1(rng, d - 1, gains)}
    if k == 'pre_chain':
        return {'k': 'pre', 'c': {'c': 'chain', 'cs': [{'c': 'inverted_simple'}, {'c': 'inverted_simple'}][:rng.choice([0, 2])]},
                'e': g_d1(rng, d - 1, gains)}
    if k == 'post_s2d':
        return {'k': 'post', 'e': g_s1(rng, d - 1), 'c': {'c': 'sel_to_dist', 'amount': str(rng.choice([1, 1, 2]))}}
    rounds = [_amount_one(g_d1(rng, d - 1, False)) for _ in range(rng.randint(1, 3))]
    return {'k': 'unused', 'rounds': rounds, 'quotas': [rng.choice(['droop', 'hagenbach_bischoff', 'imperiali', 'hare'])
                                                        for _ in rounds[:-1]], 'depth': 1}


def g_quota_leaf(rng, k=None, partial=False):
    """QuotaDistributor (awards whole quotas only, so it leaves seats to later stages) / LargestRemainder"""
    k = k or rng.choice(['qd', 'qd', 'lr'])
    quota = rng.choice(['droop', 'hare', 'hagenbach_bischoff']) if partial or rng.random() < 0.8 else 'imperiali'
    return leaf(k, quota=quota, accept_equal=rng.random() < 0.7,
                on_overaward=rng.choice(['error', 'error', 'subtract', 'ignore']))


def g_unused(rng, n_rounds, depth):
    """an unused-votes distributor whose earlier rounds award whole quotas only, so that later rounds get seats"""
    def stage(last):
        r = rng.random()
        if last:
            st = leaf('ha', divisor=rng.choice(DIVS)) if r < 0.5 else g_quota_leaf(rng, 'lr' if r < 0.8 else 'qd', True)
        else:
            st = g_quota_leaf(rng, 'qd', True) if r < 0.85 else leaf('ha', divisor=rng.choice(DIVS))
        if rng.random() < 0.12:
            st = {'k': 'vs', 'e': st}
        return {'k': 'bycon', 'e': st, 'app': None} if depth == 2 else st
    rounds = [stage(i == n_rounds - 1) for i in range(n_rounds)]
    quotas = []
    for st in rounds[:-1]:
        inner = st
        while inner['k'] in ('bycon', 'vs'):
            inner = inner['e']
        # as the constructor does by default: the quota of the stage itself; sometimes another one
        quotas.append(inner['quota'] if inner['k'] in ('qd', 'lr') and rng.random() < 0.7
                      else rng.choice(['droop', 'hagenbach_bischoff', 'hare']))
    if all(st['k'] in ('qd', 'lr') for st in rounds[:-1]) and rng.random() < 0.5:
        quotas = None       # the constructor's default: the quota functions of the rounds themselves
    return {'k': 'unused', 'rounds': rounds, 'quotas': quotas, 'depth': depth}


def g_big_votes(rng, parties):
    return {'dict': [[p, str(rng.choice([rng.randint(300, 5000), rng.randint(50, 900), 100 * rng.randint(1, 40)]))]
                     for p in parties]}


def gen_unused(rng):
    """UnusedVotesDistributor with 2-4 rounds, with / without prev_gains, depth 1 / 2, as root and nested in
    MultistageDistributor / PreApportioned"""
    parties = rng.sample(range(CANDS), rng.randint(3, 6))
    n_rounds = rng.choice([2, 3, 3, 4])
    shape = rng.choice(['root1', 'root1', 'root2', 'multi1', 'multi2', 'preapp'])
    tags = ['unused_votes_2_rounds' if n_rounds == 2 else 'unused_votes_3plus_rounds']
    if shape in ('root1', 'multi1'):
        votes = g_big_votes(rng, parties)
        n = rng.randint(4, 14)
        args = {'votes': votes, 'n': str(n)}
        tree = g_unused(rng, n_rounds, 1)
        if shape == 'multi1':
            first = rng.choice([g_quota_leaf(rng, 'qd', True), leaf('ha', divisor=rng.choice(DIVS))])
            tree = {'k': 'multi', 'rounds': [first, tree] if rng.random() < 0.8 else [tree, first], 'depth': 1}
            n = rng.randint(6, 16)
            args['n'] = str(n)
            tags.append('unused_votes_in_multistage')
        if rng.random() < 0.5:
            args['prev'] = g_gains(rng, parties, max(2, n // 3), 0.6)
        tags.append('seatspec:int')
    else:
        cons = [CON0 + i for i in range(rng.randint(1, 3))]
        votes = {'dict': [[c, g_big_votes(rng, [p for p in parties if rng.random() < 0.9] or parties[:2])] for c in cons]}
        args = {'votes': votes}
        tree = g_unused(rng, n_rounds, 2)
        table = {'dict': [[c, str(rng.randint(3, 9))] for c in cons]}
        tags.append('unused_votes_depth2')
        if shape == 'preapp':
            tree = {'k': 'preapp', 'e': tree, 'app': rng.choice([table, {'int': str(rng.randint(3, 8))}])}
            tags += ['unused_votes_in_preapportioned', 'seatspec:app_dict' if 'dict' in tree['app'] else 'seatspec:app_int',
                     'seatspec:none']
        else:
            args['n'] = table
            tags.append('seatspec:dict')
            if shape == 'multi2':
                first = {'k': 'bycon', 'e': g_quota_leaf(rng, 'qd', True), 'app': None}
                tree = {'k': 'multi', 'rounds': [first, tree], 'depth': 2}
                tags.append('unused_votes_in_multistage')
        if rng.random() < 0.5:
            args['prev'] = {'dict': [[c, g_gains(rng, parties, 2, 0.6)] for c in cons if rng.random() < 0.8]}
    case = mk_case(tree, args, tags)
    return _tag_unused(case)


def _tag_unused(case):
    """after-the-fact tags: previous gains really reach the distributor, later rounds really award seats
    (computed with the hand composition on the leaf objects, which no wrapper code takes part in)"""
    try:
        root = build(case['tree'])
        votes, kw = _args(case)
        h = Hand()
        call_with_timeout(lambda: h.run(root, votes, kw), 5)
    except Exception:       # noqa
        return case
    tags = set(case['_tags'])
    for b, _votes, kw, outcome in h.trace:
        if b.kind != 'unused' or outcome[0] != 'ok':
            continue
        depth = b.node['depth']
        prev = bool(_flat_total(kw.get('prev') or {}, depth))
        if prev:
            tags.add('unused_votes_prev_gains')
        stage_calls = [(bb, oo) for bb, _v, _k, oo in h.trace if any(bb is r for r in b.kids['rounds'])]
        later = [oo for bb, oo in stage_calls if bb is not b.kids['rounds'][0]
                 and oo[0] == 'ok' and _flat_total(oo[1], depth) > 0]
        first_ok = [oo for bb, oo in stage_calls if bb is b.kids['rounds'][0]
                    and oo[0] == 'ok' and _flat_total(oo[1], depth) > 0]
        if later and first_ok:
            tags.add('unused_votes_later_stage_awards')
            if len(b.kids['rounds']) >= 3:
                tags.add('unused_votes_3plus_later_stage_awards')
            if prev:
                tags.add('unused_votes_prev_gains_later_stage_awards')
            if depth == 2:
                tags.add('unused_votes_depth2_later_stage_awards')
    case['_tags'] = sorted(tags)
    return case


def _flat_total(d, depth):
    if not isinstance(d, dict):
        return 0
    if depth <= 1:
        return sum(v for v in d.values() if isinstance(v, (int, Fraction)))
    return sum(_flat_total(v, depth - 1) for v in d.values())


def _amount_one(node):
    """inside an unused-votes distributor a stage must not award more seats than it is given (the seat count
    of the next stage would go negative, which no leaf model covers)"""
    if isinstance(node, dict):
        if node.get('c') == 'sel_to_dist':
            return dict(node, amount='1')
        return {k: _amount_one(v) for k, v in node.items()}
    if isinstance(node, list):
        return [_amount_one(v) for v in node]
    return node


def g_app(rng, d, cons, kind):
    if kind == 'app_int':
        return {'int': str(rng.choice([0, 0, 9, 9, 12, 1, 2]) if rng.random() < 0.3 else rng.randint(1, 4))}
    if kind == 'app_dict':
        ents = [[c, str(rng.choice([0, 1, 1, 2, 3, 4, 9]))] for c in cons]
        if rng.random() < 0.5:
            rng.shuffle(ents)       # the table lists the constituencies in another order than the votes
        return {'dict': ents}
    if kind == 'app_dist':
        return {'ev': g_d1(rng, max(d, 0)) if rng.random() < 0.5 else leaf('ha', divisor=rng.choice(DIVS))}
    if kind == 'app_dist_seatless':
        return {'ev': {'k': 'fixed', 'e': leaf('ha', divisor=rng.choice(DIVS)),
                       'n': str(rng.randint(2 * len(cons), 3 * len(cons) + 2))}}
    return None


SEATSPECS = ['int', 'dict', 'app_int', 'app_dict', 'app_dist', 'app_dist_seatless']


def g_d2(rng, d, cons, spec, gains=False):
    """evaluator on nested votes; `spec` says where the per-constituency seats come from"""
    opts = ['bycon', 'bycon']
    if d > 1:
        opts += ['cond2', 'multi2', 'vs', 'preapp']
        if spec in ('int',):
            opts += ['byparty']
    k = rng.choice(opts) if d > 0 else 'bycon'
    app_kind = spec if spec.startswith('app') else None
    if k == 'bycon':
        inner = g_d1(rng, d - 1, gains and rng.random() < 0.8) if rng.random() < 0.75 else g_s1(rng, d - 1)
        n = {'k': 'bycon', 'e': inner, 'app': g_app(rng, d - 2, cons, app_kind)}
        if rng.random() < 0.3:
            r = rng.random()
            n['pre'] = (g_thr(rng) if r < 0.6 or d < 2 else
                        {'k': 'fixed', 'e': g_s1(rng, 0), 'n': str(rng.randint(1, 3))} if r < 0.8 or spec == 'dict' else
                        g_s1(rng, 0))      # a preselector that takes the seat count (top n nationally)
        return n
    if k == 'preapp':
        return {'k': 'preapp', 'e': g_d2(rng, d - 1, cons, 'dict', gains), 'app': g_app(rng, d - 2, cons, app_kind or 'app_int')}
    if k == 'cond2':
        if rng.random() < 0.25:
            return {'k': 'pre', 'c': {'c': 'by_constituency', 'inner': {'c': 'chain', 'cs': [{'c': 'inverted_simple'}, {'c': 'inverted_simple'}]}},
                    'e': g_d2(rng, d - 1, cons, spec, gains)}
        return {'k': 'cond', 'elim': g_el(rng, 0), 'e': g_d2(rng, d - 1, cons, spec, gains), 'depth': 2}
    if k == 'multi2':
        return {'k': 'multi', 'rounds': [g_d2(rng, d - 1, cons, spec, True) for _ in range(rng.randint(1, 2))], 'depth': 2}
    if k == 'byparty':
        overall = g_d1(rng, d - 1, False)
        if rng.random() < 0.25:
            # an overall evaluator with a default seat count
            overall = {'k': 'post', 'e': g_s1(rng, 0), 'c': {'c': 'sel_to_dist', 'amount': '1'}}
        return {'k': 'byparty', 'overall': overall, 'alloc': g_d1(rng, d - 1, rng.random() < 0.7) if rng.random() < 0.6 else None}
    return {'k': 'vs', 'e': g_d2(rng, d - 1, cons, spec, gains)}


def g_f2(rng, d, cons, spec):
    """nested votes -> flat distribution"""
    k = rng.choice(['post_merge', 'post_merge', 'pre_totals', 'post_totals', 'post_totals', 'post_totals', 'post_bc',
                    'post_bc_chain', 'remapp', 'remapp'])
    if rng.random() < 0.25:
        # an ORDER-SENSITIVE consumer of the per-constituency results: equally ranked candidates of different
        # constituencies come out in the order of the constituencies
        app_kind = spec if spec.startswith('app') else None
        inner = {'k': 'bycon', 'e': rng.choice([leaf('plurality'), leaf('input_order'), g_s1(rng, max(d - 2, 0))]),
                 'app': g_app(rng, d - 2, cons, app_kind)}
        return {'k': 'post', 'e': inner, 'c': {'c': 'merged_selections'}}, spec
    if k in ('post_bc', 'post_bc_chain') and d > 1:
        # selections per constituency -> distributions per constituency (-> one distribution): the converter
        # changes the kind of value / the key level
        s2d = {'c': 'by_constituency', 'inner': {'c': 'sel_to_dist', 'amount': str(rng.choice([1, 1, 2]))}}
        conv = s2d if k == 'post_bc' else {'c': 'chain', 'cs': [s2d, {'c': 'merged_distributions'}]}
        app_kind = spec if spec.startswith('app') else None
        inner = {'k': 'bycon', 'e': g_s1(rng, max(d - 2, 0)), 'app': g_app(rng, d - 2, cons, app_kind)}
        return {'k': 'post', 'e': inner, 'c': conv}, spec
    if k == 'remapp' and d > 1:
        # PreApportioned hands a table of seats on, RemovedApportionment sums it up again for a national evaluator
        kind = rng.choice(['app_int', 'app_dict', 'app_dist'])
        nat = {'k': 'pre', 'c': {'c': 'vote_totals'}, 'e': g_d1(rng, max(d - 3, 0), True)}
        return {'k': 'preapp', 'e': {'k': 'remapp', 'e': nat}, 'app': g_app(rng, 0, cons, kind)}, kind
    if k == 'post_merge' and d > 1:
        return {'k': 'post', 'e': g_d2(rng, d - 1, cons, spec), 'c': {'c': 'merged_distributions'}}, spec
    if k == 'post_totals' and d > 1:
        return {'k': 'post', 'e': g_d2(rng, d - 1, cons, spec), 'c': {'c': rng.choice(['constituency_totals', 'party_totals'])}}, spec
    return {'k': 'pre', 'c': {'c': 'vote_totals'}, 'e': g_d1(rng, d - 1)}, 'int'


VALS = [0, 1, 1, 2, 2, 3, 3, 4, 6, 6, 12]


def g_simple_votes(rng, parties=None, frac=False):
    parties = parties or rng.sample(range(CANDS), rng.randint(2, 5))
    scale = rng.choice([1, 1, 1, 5, 100, 10 ** 9, 2 ** 53, 10 ** 18, 10 ** 30])
    vals = [rng.choice(VALS) * scale for _ in parties]
    if scale > 100 and rng.random() < 0.6:
        # near ties and exact ties at that magnitude
        vals = [v + rng.choice([0, 0, 1, -1]) if v else v for v in vals]
    if frac and rng.random() < 0.5:
        vals = [Fraction(v, rng.choice([1, 2, 3, 7, 10 ** 6 + 3])) for v in vals]
    if sum(vals) == 0:
        vals[0] = 1
    return {'dict': [[p, num_str(v)] for p, v in zip(parties, vals)]}


def g_nested_votes(rng, cons, parties):
    out = []
    for c in cons:
        ps = [p for p in parties if rng.random() < 0.85] or parties[:1]
        rng.shuffle(ps)
        out.append([c, g_simple_votes(rng, ps, frac=rng.random() < 0.1)])
    return {'dict': out}


def g_gains(rng, parties, n, p_each=0.5):
    ent = []
    budget = n
    for p in dict.fromkeys(parties):
        if rng.random() < p_each and budget > 0:
            s = rng.randint(0, min(2, budget))
            budget -= s
            ent.append([p, str(s)])
    return {'dict': ent}


def g_caps(rng, parties, n):
    return {'dict': [[p, str(rng.randint(0, max(1, n)))] for p in dict.fromkeys(parties) if rng.random() < 0.5]}


def parties_of(votes_json):
    return [p for p, _ in votes_json['dict']]


def takes_gains_json(node):
    """can prev_gains / max_seats be given to this tree without an (intended) TypeError"""
    k = node['k']
    if k in LEAF_TAKES:
        return 'prev' in LEAF_TAKES[k] and 'max' in LEAF_TAKES[k]
    if k in ('tb',):
        return takes_gains_json(node['main'])
    if k in ('pre', 'post', 'vs', 'fixed'):
        return takes_gains_json(node['e'])
    if k == 'cond':
        return takes_gains_json(node['e'])
    if k == 'plist':
        return takes_gains_json(node['party'])
    return True


def needs_n(node):
    """is n_seats a required parameter of the call that reaches this tree's first non-pass-through node"""
    k = node['k']
    if k in ('vs', 'pre', 'post'):
        return needs_n(node['e'])
    if k == 'tb':
        return needs_n(node['main'])
    return k in ('multi', 'unused', 'plist')


def root_kind(node):
    k = node['k']
    if k in ('vs', 'pre', 'post'):
        return root_kind(node['e'])
    if k == 'tb':
        return root_kind(node['main'])
    return k


def mk_case(tree, args, tags):
    tags = list(tags)
    for k in set(tree_kinds(tree)):
        tags.append(('leaf:' if k in LEAF_TAKES else 'w:') + k)
    tags.append(f'depth:{min(tree_depth(tree), 4)}')
    if args.get('prev', {}).get('dict') if isinstance(args.get('prev'), dict) else False:
        tags.append('prev_given')
    if args.get('max', {}).get('dict') if isinstance(args.get('max'), dict) else False:
        tags.append('max_given')
    for n in _nodes(tree):
        if n['k'] == 'cond' and n['depth'] == 2:
            tags.append('cond_depth2')
        if n['k'] == 'multi' and n['depth'] == 2:
            tags.append('multi_depth2')
        if n['k'] in ('multi', 'unused', 'cond') and n['depth'] >= 3:
            tags.append('%s_depth%d' % (n['k'], min(n['depth'], 4)))
        if n['k'] == 'tb' and n['main']['k'] == 'tb':
            tags.append('tb_nested')
        if n['k'] == 'bycon' and n.get('pre'):
            tags.append('preselector')
        if n['k'] == 'cond' and n['elim']['k'] == 'prev_gain_thr':
            tags.append('elim_prev_gains')
        if n['k'] in ('cond', 'bycon') and n['e']['k'] in ('tb', 'pre', 'post', 'fixed', 'vs') and takes_gains_json(n['e']):
            tags.append('fix_904ccca_shape')
        if n['k'] == 'bycon':
            if n['e']['k'] == 'fixed':
                tags.append('fixed_as_district_evaluator')
            if isinstance(n.get('app'), dict) and 'ev' in n['app'] and n['app']['ev']['k'] == 'fixed':
                tags.append('fixed_as_apportioner')
            if isinstance(n.get('pre'), dict) and n['pre']['k'] == 'fixed':
                tags.append('fixed_as_preselector')
            a = n.get('app')
            if isinstance(a, dict) and 'int' in a:
                tags.append('seats:app_int_zero' if Fraction(a['int']) == 0 else
                            'seats:app_int_exceeds_candidates' if Fraction(a['int']) >= 9 else 'seats:app_int_usual')
            if isinstance(a, dict) and 'dict' in a:
                vals = list(_vote_numbers(a))
                if 0 in vals:
                    tags.append('seats:app_dict_zero')
                if any(v >= 9 for v in vals):
                    tags.append('seats:app_dict_exceeds_candidates')
        if n['k'] == 'fixed' and Fraction(n['n']) >= 9:
            tags.append('seats:fixed_exceeds_candidates')
    nn = args.get('n')
    if isinstance(nn, str):
        tags.append('seats:int_zero' if Fraction(nn) == 0 else
                    'seats:int_exceeds_candidates' if Fraction(nn) >= 9 else 'seats:int_usual')
    if isinstance(nn, dict):
        vals = list(_vote_numbers(nn))
        if 0 in vals:
            tags.append('seats:dict_zero')
        if any(v >= 9 for v in vals):
            tags.append('seats:dict_exceeds_candidates')
    nums = list(_vote_numbers(args.get('votes')))
    if any(v.denominator != 1 for v in nums):
        tags.append('num:fraction_votes')
    if any(v.denominator > 10 ** 6 for v in nums):
        tags.append('num:fraction_votes_big_denominator')
    if any(abs(v) >= 10 ** 18 for v in nums):
        tags.append('num:votes_1e18_or_more')
    if any(abs(v) >= 10 ** 18 for v in nums) and any(0 < abs(a - b) <= 1 for a in nums for b in nums):
        tags.append('num:near_tie_at_magnitude')
    if sum(1 for v in nums if v == 0) >= 2:
        tags.append('num:zero_vote_parties_2plus')
    vv = args.get('votes')
    if isinstance(vv, dict):
        vorder = [k for k, _ in vv['dict']]
        tables = [nn] if isinstance(nn, dict) else []
        tables += [n2['app'] for n2 in _nodes(tree) if n2['k'] in ('bycon', 'preapp') and isinstance(n2.get('app'), dict)
                   and 'dict' in n2['app']]
        for tb in tables:
            torder = [k for k, _ in tb['dict'] if k in vorder]
            if torder != [k for k in vorder if k in torder]:
                tags.append('seat_table_order_differs_from_votes')
    pv = args.get('prev')
    if isinstance(pv, dict) and isinstance(args.get('votes'), dict):
        vk = {k for k, _ in args['votes']['dict']}
        if any(not isinstance(v, dict) and k not in vk for k, v in pv['dict']):
            tags.append('prev_gains_for_party_absent_from_votes')
    return {'op': 'eval_tree', 'tree': tree, 'args': args, '_tags': sorted(set(tags))}


def _vote_numbers(v):
    if isinstance(v, str):
        yield Fraction(v)
    elif isinstance(v, list):
        for x in v:
            yield from _vote_numbers(x)
    elif isinstance(v, dict) and 'dict' in v:
        for _, x in v['dict']:
            yield from _vote_numbers(x)


def _nodes(node):
    yield node
    for k in kids_of(node):
        yield from _nodes(k)


def gen_flat(rng, d, kind):
    """root on simple votes: S1 / D1 / EL-free"""
    frac = rng.random() < 0.15
    votes = g_simple_votes(rng, frac=frac)
    ps = parties_of(votes)
    n = rng.choice([0, 9, 12]) if rng.random() < 0.08 else rng.randint(1, 6)
    tags = ['seatspec:int']
    args = {'votes': votes, 'n': str(n)}
    if kind == 'S1':
        tree = g_s1(rng, d)
    else:
        gains = rng.random() < 0.6
        tree = g_d1(rng, d, gains)
        if takes_gains_json(tree):
            if rng.random() < 0.6:
                args['prev'] = g_gains(rng, ps + [rng.randrange(CANDS)], n)
            if rng.random() < 0.4 and 'unused' not in set(tree_kinds(tree)):
                args['max'] = g_caps(rng, ps, n)
    r = rng.random()
    if r < 0.12:
        tree = {'k': 'fixed', 'e': tree, 'n': args.pop('n')}
        tags = ['seatspec:fixed']
    elif r < 0.16 and not needs_n(tree):
        del args['n']               # no seat count at all: leaves with a default, wrappers with n_seats=None
        tags = ['seatspec:omitted']
    elif r < 0.2 and d > 1:
        # a seatless evaluator behind a pass-through wrapper, under a dispatcher
        inner = {'k': rng.choice(['vs', 'pre']), 'e': {'k': 'fixed', 'e': tree, 'n': args.pop('n')}}
        if inner['k'] == 'pre':
            inner['c'] = {'c': 'chain', 'cs': []}
        tree = {'k': 'cond', 'elim': g_thr(rng), 'e': inner, 'depth': 1}
        tags = ['seatspec:fixed', 'generic_over_seatless']
    return mk_case(tree, args, tags)


def gen_nested(rng, d):
    cons = [CON0 + i for i in range(rng.randint(1, 4))]
    parties = rng.sample(range(CANDS), rng.randint(2, 5))
    clash = rng.random() < 0.12
    if clash:
        # constituencies NAMED LIKE parties (the same objects serve as keys on both levels)
        cons = (parties + [p for p in range(CANDS) if p not in parties])[:len(cons)]
    votes = g_nested_votes(rng, cons, parties)
    spec = rng.choice(SEATSPECS)
    flat = rng.random() < 0.35 and d > 1
    if flat:
        tree, spec = g_f2(rng, d, cons, spec)
    else:
        tree = g_d2(rng, d, cons, spec, gains=rng.random() < 0.5)
    args = {'votes': votes}
    n = None
    if spec == 'int':
        n = rng.choice([0, 9, 12]) if rng.random() < 0.08 else rng.randint(1, 6)
        args['n'] = str(n)
    elif spec == 'app_dist':
        n = rng.randint(2 * len(cons), 3 * len(cons) + 2)     # mostly every constituency gets a seat
        args['n'] = str(n)
    elif spec == 'dict':
        ents = [[c, str(rng.choice([0, 1, 1, 2, 3, 9]))] for c in cons]
        if rng.random() < 0.5:
            rng.shuffle(ents)
        args['n'] = {'dict': ents}
    elif spec in ('app_int', 'app_dict'):
        if rng.random() < 0.3:
            args['n'] = str(rng.randint(1, 5))     # ignored: the fixed apportioner wins
    tags = ['seatspec:' + spec] + (['name_clash'] if clash else [])
    if 'n' not in args:
        tags.append('seatspec:none')
        if needs_n(tree):
            args['n'] = None        # n_seats is a required parameter there: "no seat count" is written None
            if root_kind(tree) == 'unused':     # its quota arithmetic needs numbers
                args['n'] = {'dict': [[c, str(rng.choice([1, 2, 3]))] for c in cons]}
    if 'remapp' in set(tree_kinds(tree)) and tree['k'] == 'preapp':
        pass        # the national evaluator behind RemovedApportionment takes flat gains; none are given
    elif takes_gains_json(tree) and not (tree['k'] == 'pre' and tree['c']['c'] == 'vote_totals'):
        if rng.random() < 0.5:
            args['prev'] = {'dict': [[c, g_gains(rng, parties, 2)] for c in cons if rng.random() < 0.7]}
        if rng.random() < 0.35:
            args['max'] = {'dict': [[c, g_caps(rng, parties, 3)] for c in cons if rng.random() < 0.7]}
    elif tree['k'] == 'pre' and takes_gains_json(tree) and rng.random() < 0.5:
        args['prev'] = g_gains(rng, parties, n or 2)
    return mk_case(tree, args, tags)


def gen_party_list(rng, d):
    votes = g_simple_votes(rng)
    ps = parties_of(votes)
    n = rng.randint(1, 9)
    party = g_d1(rng, d - 1, rng.random() < 0.5)
    tree = {'k': 'plist', 'party': party}
    lists = {p: [PERS0 + 10 * p + i for i in range(rng.randint(0, 7))] for p in ps}
    for p in ps:
        rng.shuffle(lists[p])
    args = {'votes': votes, 'n': str(n), 'pl': {'dict': [[p, lists[p]] for p in ps]}}
    if rng.random() < 0.45:
        # open lists: preferential votes for the persons of every list
        if rng.random() < 0.3:
            tree['open'] = {'k': 'list_order'}
        else:
            tree['open'] = {'k': 'threshold',
                            'jump_fraction': rng.choice([None, '1/20', '1/10', '1/4']),
                            'quota': rng.choice([None, 'hare', 'droop', 'hagenbach_bischoff']),
                            'quota_fraction': rng.choice(['1', '1/2', '1/4']),
                            'take_higher': rng.random() < 0.5, 'accept_equal': rng.random() < 0.6,
                            'list_precedence': rng.random() < 0.5}
        args['lv'] = {'dict': [[p, {'dict': [[q, str(rng.choice([0, 1, 2, 5, 5, 10, 40, 100]))] for q in lists[p]]}]
                               for p in ps]}
    if rng.random() < 0.3 and d > 1:
        tree = {'k': rng.choice(['vs', 'pre', 'cond']), 'e': tree}
        if tree['k'] == 'pre':
            tree['c'] = {'c': 'chain', 'cs': []}
        if tree['k'] == 'cond':
            tree.update(elim=g_thr(rng), depth=1)
    if takes_gains_json(party) and rng.random() < 0.5:
        args['prev'] = g_gains(rng, ps, n)
    return mk_case(tree, args, ['seatspec:int'])


def gen_by_party(rng):
    """ByParty directly: overall result on the totals, each party's seats allocated over the constituencies"""
    parties = rng.sample(range(CANDS), rng.randint(2, 5))
    cons = [CON0 + i for i in range(rng.randint(1, 4))]
    tags = ['seatspec:int']
    if rng.random() < 0.15:
        cons = (parties + [p for p in range(CANDS) if p not in parties])[:len(cons)]
        tags.append('name_clash')
    votes = g_nested_votes(rng, cons, parties)
    overall = rng.choice([leaf('ha', divisor=rng.choice(DIVS)), g_quota_leaf(rng, 'lr', True),
                          {'k': 'tb', 'main': leaf('ha', divisor='d_hondt'), 'tb': leaf('input_order')}])
    alloc = None if rng.random() < 0.4 else rng.choice([leaf('ha', divisor=rng.choice(DIVS)), g_quota_leaf(rng, 'lr', True)])
    tree = {'k': 'byparty', 'overall': overall, 'alloc': alloc}
    args = {'votes': votes, 'n': str(rng.randint(2, 9))}
    if rng.random() < 0.5:
        args['prev'] = {'dict': [[c, g_gains(rng, parties, 2)] for c in cons if rng.random() < 0.7]}
    if rng.random() < 0.3:
        args['max'] = {'dict': [[c, g_caps(rng, parties, 3)] for c in cons if rng.random() < 0.7]}
    if rng.random() < 0.3:
        tree = {'k': 'multi', 'rounds': [{'k': 'bycon', 'e': leaf('ha', divisor='d_hondt'), 'app': None},
                                         {'k': 'remapp', 'e': tree}], 'depth': 2}
        args['n'] = {'dict': [[c, str(rng.randint(1, 4))] for c in cons]}
        tags = [t for t in tags if t != 'seatspec:int'] + ['seatspec:dict']
    return mk_case(tree, args, tags)


BYPARTY_CAP_SHAPES = ['direct', 'later_stage', 'direct', 'later_stage', 'later_stage_remapp']


def gen_by_party_caps(rng, shape):
    """ByParty whose allocator takes max_seats, given BOTH previous gains and seat caps for the same constituency and
    party, the caps tight enough to bind: directly (prev_gains an argument), and as a later stage of a
    MultistageDistributor(depth=2) where the previous gains are what the constituency stage awarded (seeded change
    C14o: caps handed on reduced by the previous gains).  Drawn again until the hand composition says that the
    allocation depends on the caps being totals (`sem:byparty:cap_total_vs_remaining_differs`)."""
    case = None
    for _ in range(40):
        parties = rng.sample(range(CANDS), rng.randint(2, 4))
        cons = [CON0 + i for i in range(rng.randint(2, 3))]
        votes = {'dict': [[c, g_big_votes(rng, parties)] for c in cons]}
        overall = rng.choice([leaf('ha', divisor=rng.choice(DIVS)), g_quota_leaf(rng, 'lr', True),
                              {'k': 'tb', 'main': leaf('ha', divisor='d_hondt'), 'tb': leaf('input_order')}])
        alloc = None if rng.random() < 0.3 else rng.choice([
            leaf('ha', divisor=rng.choice(DIVS)), g_quota_leaf(rng, 'lr', True),
            {'k': 'vs', 'e': leaf('ha', divisor=rng.choice(DIVS))},
            {'k': 'tb', 'main': leaf('ha', divisor=rng.choice(DIVS)), 'tb': leaf('input_order')}])
        tree = {'k': 'byparty', 'overall': overall, 'alloc': alloc}
        tags = ['byparty_caps:' + shape]
        if shape == 'direct':
            n = rng.randint(4, 12)
            prev = {c: {p: rng.randint(1, 2) for p in parties if rng.random() < 0.6} for c in cons}
            caps = {c: {p: prev[c][p] + rng.randint(0, 1) if p in prev[c] and rng.random() < 0.75 else rng.randint(0, 3)
                        for p in parties if p in prev[c] or rng.random() < 0.3} for c in cons}
            args = {'votes': votes, 'n': str(n),
                    'prev': {'dict': [[c, {'dict': [[p, str(g)] for p, g in prev[c].items()]}] for c in cons if prev[c]]},
                    'max': {'dict': [[c, {'dict': [[p, str(g)] for p, g in caps[c].items()]}] for c in cons if caps[c]]}}
            tags.append('seatspec:int')
            if rng.random() < 0.25:
                tree = {'k': 'vs', 'e': tree}
        else:
            # the constituency stage awards 1-3 seats per constituency; the caps (totals over both stages) are near them
            table = {'dict': [[c, str(rng.randint(1, 3))] for c in cons]}
            first = {'k': 'bycon', 'e': leaf('ha', divisor=rng.choice(DIVS)), 'app': None}
            caps = {c: {p: rng.randint(1, 3) for p in parties if rng.random() < 0.6} for c in cons}
            args = {'votes': votes,
                    'max': {'dict': [[c, {'dict': [[p, str(g)] for p, g in caps[c].items()]}] for c in cons if caps[c]]}}
            if shape == 'later_stage':
                # every stage gets the total; the constituency stage has its own table of seats
                tree = {'k': 'multi', 'rounds': [{'k': 'preapp', 'e': first, 'app': table}, tree], 'depth': 2}
                args['n'] = str(rng.randint(5, 12))
                tags.append('seatspec:int')
                if rng.random() < 0.3:
                    args['prev'] = {'dict': [[c, g_gains(rng, parties, 2)] for c in cons if rng.random() < 0.5]}
            else:
                # every stage gets the table; the party stage sums it up again
                tree = {'k': 'multi', 'rounds': [first, {'k': 'remapp', 'e': tree}], 'depth': 2}
                args['n'] = {'dict': [[c, str(rng.randint(2, 5))] for c in cons]}
                tags.append('seatspec:dict')
            if rng.random() < 0.25:
                tree = {'k': 'vs', 'e': tree}
        case = _tag_semantics(mk_case(tree, args, tags))
        want = ('sem:byparty:cap_total_vs_remaining_differs' if shape == 'direct'
                else 'sem:byparty:later_stage_cap_total_vs_remaining_differs')
        if want in case['_tags']:
            break
    return case


def g_votes_levels(rng, levels, parties, prefix=CON0):
    """votes nested by `levels` constituency levels (region -> district -> ... -> party)"""
    if levels == 0:
        return g_big_votes(rng, [p for p in parties if rng.random() < 0.9] or parties[:2])
    keys = [prefix + i for i in range(rng.randint(1, 3 if levels == 1 else 2))]
    return {'dict': [[k, g_votes_levels(rng, levels - 1, parties, prefix=(k - CON0 + 1) * 10 + CON0 + 100)] for k in keys]}


def _like(v, levels, f):
    """a value of the same constituency shape: f() at the party level"""
    if levels == 0:
        return f(v)
    return {'dict': [[k, _like(x, levels - 1, f)] for k, x in v['dict']]}


def gen_deep(rng):
    """results nested by TWO (depth 3) or THREE (depth 4) constituency levels: ByConstituency over ByConstituency,
    MultistageDistributor / UnusedVotesDistributor / Conditioned with depth >= 3, PreApportioned and FixedSeatCount
    over those, previous gains nested to the same depth"""
    parties = rng.sample(range(CANDS), rng.randint(2, 4))
    levels = 3 if rng.random() < 0.2 else 2          # constituency levels; depth = levels + 1
    depth = levels + 1
    votes = g_votes_levels(rng, levels, parties)
    ha = lambda: leaf('ha', divisor=rng.choice(DIVS))     # noqa

    def over(inner, lv, first_app=None):
        for i in range(lv):
            inner = {'k': 'bycon', 'e': inner, 'app': first_app if i == 0 else None}
        return inner
    kind = rng.choice(['bycon', 'multi', 'multi', 'multi', 'unused', 'unused', 'cond', 'preapp', 'fixed'])
    tags = ['deep:levels%d' % levels, 'deep:' + kind]
    seat_kind = rng.choice(['int', 'table'])
    table = _like(votes, levels, lambda _v: str(rng.randint(2, 6)))
    if kind == 'unused':
        rounds = [over(g_quota_leaf(rng, 'qd', True), levels) for _ in range(rng.randint(1, 2))] + [over(ha(), levels)]
        tree = {'k': 'unused', 'rounds': rounds, 'depth': depth,
                'quotas': [_stage_leaf(r)['quota'] if rng.random() < 0.7 else 'droop' for r in rounds[:-1]]}
        seat_kind = 'table'          # the quota arithmetic of the rounds needs the seats of every constituency
    else:
        k_st = rng.randint(2, 3)
        first = rng.choice([None, {'int': '1'}])       # stage 1 with its own innermost apportioner, as in MMP systems
        rounds = [over(rng.choice([ha(), g_quota_leaf(rng, 'qd', True), g_quota_leaf(rng, 'lr', True)]), levels,
                       first if i == 0 else None) for i in range(k_st)]
        tree = {'k': 'multi', 'rounds': rounds, 'depth': depth}
        if kind == 'bycon':
            tree = over(ha(), levels)
        elif kind == 'cond':
            tree = {'k': 'cond', 'elim': g_thr(rng, 'rel_thr'), 'e': tree, 'depth': depth}
        elif kind == 'preapp':
            tree = {'k': 'preapp', 'e': tree, 'app': {'dict': table['dict']} if rng.random() < 0.6 else {'int': str(rng.randint(2, 5))}}
            seat_kind = 'app'
        elif kind == 'fixed':
            tree = {'k': 'fixed', 'e': tree, 'n': str(rng.randint(2, 5))}
            seat_kind = 'fixed'
    args = {'votes': votes}
    if seat_kind == 'int':
        args['n'] = str(rng.randint(2, 6))
        tags.append('seatspec:int')
    elif seat_kind == 'table':
        args['n'] = table
        tags.append('seatspec:dict')
    else:
        tags.append('seatspec:none' if seat_kind == 'app' else 'seatspec:fixed')
    if rng.random() < 0.6:
        args['prev'] = _like(votes, levels, lambda v: g_gains(rng, parties, 2, 0.5))
        tags.append('deep:prev_gains')
    return mk_case(tree, args, tags)


def gen_votes_per_stage(rng):
    """MultistageDistributor given a LIST of votes, one per round (also fewer / more votes than rounds)"""
    parties = rng.sample(range(CANDS), rng.randint(2, 5))
    k = rng.randint(2, 4)
    rounds = [rng.choice([leaf('ha', divisor=rng.choice(DIVS)), g_quota_leaf(rng, 'qd', True), g_quota_leaf(rng, 'lr', True)])
              for _ in range(k)]
    n_votes = k if rng.random() < 0.8 else rng.choice([k - 1, k + 1])
    votes = [g_big_votes(rng, [p for p in parties if rng.random() < 0.9] or parties[:1]) for _ in range(n_votes)]
    n = rng.randint(4, 14)
    args = {'votes': votes, 'n': str(n)}
    if rng.random() < 0.5:
        args['prev'] = g_gains(rng, parties, max(2, n // 3), 0.6)
    if rng.random() < 0.3:
        args['max'] = g_caps(rng, parties, n)
    return mk_case({'k': 'multi', 'rounds': rounds, 'depth': 1}, args, ['seatspec:int', 'votes_per_stage'])


def gen_ties(rng):
    """TieBreaking where there IS a tie: 2-3 places, 3+ members, a tiebreaker that ties again, nested breakers,
    quotient ties of a distribution"""
    plur, inp = leaf('plurality'), leaf('input_order')
    cands = rng.sample(range(CANDS), rng.randint(3, 6))
    t = rng.choice([1, 2, 5, 10 ** 18])
    kind = rng.choice(['sel', 'sel', 'sel_nested', 'dist', 'dist'])
    if kind in ('sel', 'sel_nested'):
        k_tied = rng.randint(2, len(cands))
        vals = [t] * k_tied + [t + rng.randint(1, 3) for _ in cands[k_tied:]]
        votes = {'dict': [[c, str(v)] for c, v in zip(cands, vals)]}
        above = len(cands) - k_tied
        n = above + rng.randint(1, max(1, k_tied - 1))
        tb = rng.choice([inp, inp, plur, {'k': 'pre', 'c': {'c': 'inverted_simple'}, 'e': plur}])
        tree = {'k': 'tb', 'main': plur, 'tb': tb}
        if kind == 'sel_nested':
            tree = {'k': 'tb', 'main': {'k': 'tb', 'main': plur, 'tb': plur}, 'tb': inp}
        if rng.random() < 0.3:
            tree = {'k': 'bycon', 'e': tree, 'app': None}
            votes = {'dict': [[CON0, votes], [CON0 + 1, g_simple_votes(rng, cands[:3])]]}
        return mk_case(tree, {'votes': votes, 'n': str(n)}, ['seatspec:int'])
    # quotient ties under D'Hondt: votes t*k give equal quotients
    mult = [rng.choice([1, 2, 3]) for _ in cands]
    votes = {'dict': [[c, str(t * m)] for c, m in zip(cands, mult)]}
    main = rng.choice([leaf('ha', divisor='d_hondt'), leaf('ha', divisor='sainte_lague'), g_quota_leaf(rng, 'lr', True)])
    tree = {'k': 'tb', 'main': main, 'tb': rng.choice([inp, plur])}
    args = {'votes': votes, 'n': str(rng.randint(1, 7))}
    if rng.random() < 0.3:
        args['prev'] = g_gains(rng, cands, 2)
    return mk_case(tree, args, ['seatspec:int'])


def gen_directed(rng):
    """constructions that hit each named mechanism on purpose"""
    ha = leaf('ha', divisor='d_hondt')
    plur = leaf('plurality')
    inp = leaf('input_order')
    a, b, c = rng.sample(range(CANDS), 3)
    # the shape of fix 904ccca: a dispatcher over a generic pass-through wrapper over a distributor, prev_gains given
    inner = rng.choice([{'k': 'tb', 'main': ha, 'tb': plur}, {'k': 'pre', 'c': {'c': 'chain', 'cs': []}, 'e': ha},
                        {'k': 'vs', 'e': ha}, {'k': 'post', 'e': ha, 'c': {'c': 'chain', 'cs': []}}])
    v = rng.randint(7, 12)
    yield mk_case({'k': 'cond', 'elim': leaf('abs_thr', t='0', eq=True), 'e': inner, 'depth': 1},
                  {'votes': {'dict': [[a, str(v)], [b, str(rng.randint(3, 6))]]}, 'n': '4', 'prev': {'dict': [[a, '2']]}},
                  ['directed'])
    yield mk_case({'k': 'bycon', 'e': {'k': 'fixed', 'e': ha, 'n': '3'} if False else inner, 'app': None},
                  {'votes': {'dict': [[CON0, {'dict': [[a, str(v)], [b, '5']]}], [CON0 + 1, {'dict': [[a, '3'], [b, '4']]}]]},
                   'n': '3', 'prev': {'dict': [[CON0, {'dict': [[a, '1']]}]]}, 'max': {'dict': [[CON0 + 1, {'dict': [[b, '1']]}]]}},
                  ['directed'])
    # ties in a selection, broken by input order / nested tie breaking
    t = rng.randint(1, 6)
    votes = {'dict': [[a, str(t + 2)], [b, str(t)], [c, str(t)]]}
    yield mk_case({'k': 'tb', 'main': plur, 'tb': inp}, {'votes': votes, 'n': '2'}, ['directed', 'tie_selection'])
    yield mk_case({'k': 'tb', 'main': {'k': 'tb', 'main': plur, 'tb': plur}, 'tb': inp},
                  {'votes': {'dict': [[a, str(t)], [b, str(t)], [c, str(t)]]}, 'n': str(rng.randint(1, 2))},
                  ['directed', 'tie_selection'])
    # a quotient tie in a distribution: votes 2t and t under D'Hondt tie for the third seat
    yield mk_case({'k': 'tb', 'main': ha, 'tb': rng.choice([plur, inp])},
                  {'votes': {'dict': [[a, str(2 * t)], [b, str(t)]]}, 'n': '2'}, ['directed', 'tie_distribution'])
    yield mk_case({'k': 'tb', 'main': ha, 'tb': inp},
                  {'votes': {'dict': [[a, str(t)], [b, str(t)], [c, str(t)]]}, 'n': str(rng.choice([1, 2, 4, 5]))},
                  ['directed', 'tie_distribution'])
    # zero-seat districts next to evaluated ones
    yield mk_case({'k': 'bycon', 'e': rng.choice([ha, plur]), 'app': {'dict': [[CON0, '0'], [CON0 + 1, '2']]}},
                  {'votes': {'dict': [[CON0, {'dict': [[a, '4'], [b, '1']]}], [CON0 + 1, {'dict': [[a, '3'], [b, '5']]}]]}},
                  ['directed', 'zero_seat_district', 'seatspec:app_dict', 'seatspec:none'])
    # separate votes per stage
    yield mk_case({'k': 'multi', 'rounds': [ha, leaf('ha', divisor='sainte_lague')], 'depth': 1},
                  {'votes': [{'dict': [[a, '9'], [b, '4']]}, {'dict': [[a, '2'], [b, '7'], [c, '3']]}], 'n': '5',
                   'prev': {'dict': [[c, '1']]}},
                  ['directed', 'votes_per_stage', 'seatspec:int'])
    # eliminator that looks at previous gains
    yield mk_case({'k': 'cond', 'elim': leaf('prev_gain_thr', t='1', eq=True), 'e': ha, 'depth': 1},
                  {'votes': {'dict': [[a, '9'], [b, '4'], [c, '5']]}, 'n': '5', 'prev': {'dict': [[a, '1'], [c, '2']]}},
                  ['directed'])
    # apportionment by a distributor, with and without a total
    nested = {'dict': [[CON0, {'dict': [[a, '40'], [b, '10']]}], [CON0 + 1, {'dict': [[a, '13'], [b, '15']]}],
                       [CON0 + 2, {'dict': [[b, '26']]}]]}
    yield mk_case({'k': 'bycon', 'e': ha, 'app': {'ev': leaf('ha', divisor='sainte_lague')}},
                  {'votes': nested, 'n': str(rng.randint(3, 7))}, ['directed', 'seatspec:app_dist'])
    yield mk_case({'k': 'bycon', 'e': ha, 'app': {'ev': {'k': 'fixed', 'e': ha, 'n': str(rng.randint(3, 7))}}},
                  {'votes': nested}, ['directed', 'seatspec:app_dist_seatless', 'seatspec:none'])
    yield mk_case({'k': 'preapp', 'e': {'k': 'remapp', 'e': {'k': 'pre', 'c': {'c': 'vote_totals'}, 'e': ha}}, 'app': {'int': '2'}},
                  {'votes': nested}, ['directed', 'seatspec:app_int', 'seatspec:none'])
    yield mk_case({'k': 'preapp', 'e': {'k': 'multi', 'depth': 2, 'rounds': [
                      {'k': 'bycon', 'e': ha, 'app': None},
                      {'k': 'remapp', 'e': {'k': 'byparty', 'overall': ha, 'alloc': None}}]},
                   'app': {'ev': leaf('ha', divisor='sainte_lague')}},
                  {'votes': nested, 'n': str(rng.randint(4, 9))}, ['directed', 'seatspec:app_dist'])
    # ONE table of seats per constituency shared by several readers (seeded change C14i: the table was updated in
    # place by UnusedVotesDistributor._subtract_gained_seats): a fixed-dict apportioner of a PreApportioned object that
    # is called twice, a later stage of a MultistageDistributor reading the same table, and both at once
    qd_h = leaf('qd', quota='hare', accept_equal=True, on_overaward='error')
    big = {'dict': [[CON0, {'dict': [[a, '4700'], [b, '3400'], [c, '1900']]}],
                    [CON0 + 1, {'dict': [[a, '1200'], [b, '5200'], [c, '2600']]}]]}
    table = {'dict': [[CON0, str(rng.randint(6, 9))], [CON0 + 1, str(rng.randint(5, 8))]]}
    un2 = {'k': 'unused', 'depth': 2, 'quotas': rng.choice([None, ['hare']]),
           'rounds': [{'k': 'bycon', 'e': qd_h, 'app': None} if False else {'k': 'bycon', 'e': qd_h, 'app': None},
                      {'k': 'bycon', 'e': ha, 'app': None}]}
    if un2['quotas'] is None:
        un2['quotas'] = ['hare']       # the rounds are wrapped (ByConstituency): no quota_function attribute to default to
    later = {'k': 'bycon', 'e': leaf('ha', divisor='sainte_lague'), 'app': None}
    case = mk_case({'k': 'preapp', 'e': un2, 'app': table}, {'votes': big},
                   ['directed', 'seat_table_shared:repeated_call', 'seatspec:app_dict', 'seatspec:none'])
    case['warm'] = {'votes': big}
    yield case
    yield mk_case({'k': 'multi', 'depth': 2, 'rounds': [un2, later]}, {'votes': big, 'n': table},
                  ['directed', 'seat_table_shared:later_stage', 'seatspec:dict'])
    case = mk_case({'k': 'preapp', 'e': {'k': 'multi', 'depth': 2, 'rounds': [un2, later]}, 'app': table}, {'votes': big},
                   ['directed', 'seat_table_shared:repeated_call', 'seat_table_shared:later_stage',
                    'seat_table_shared:repeated_call_and_later_stage', 'seatspec:app_dict', 'seatspec:none'])
    case['warm'] = {'votes': _scaled(big, 3)}
    yield case
    # exact arithmetic inside the wrappers: after the Hare quota 10/3 (k times) is taken off A, A and B hold exactly
    # the same votes and tie for the last seat of the next round; any rounding separates them
    kk = rng.choice([1, 3, 10 ** 18 + 7])
    yield mk_case({'k': 'unused', 'rounds': [leaf('qd', quota='hare', accept_equal=True, on_overaward='error'), ha],
                   'quotas': rng.choice([None, ['hare']]), 'depth': 1},
                  {'votes': {'dict': [[a, num_str(Fraction(16, 3) * kk)], [b, num_str(2 * kk)], [c, num_str(Fraction(8, 3) * kk)]]},
                   'n': '3'}, ['directed', 'exact_arithmetic_in_wrapper', 'seatspec:int'])
    # apportionment by a distributor on FRACTIONAL constituency totals: 7/2 against 3 for one seat
    yield mk_case({'k': 'bycon', 'e': ha, 'app': {'ev': leaf('ha', divisor='d_hondt')}},
                  {'votes': {'dict': [[CON0, {'dict': [[a, num_str(Fraction(5, 2) * kk)], [b, num_str(kk)]]}],
                                      [CON0 + 1, {'dict': [[a, num_str(2 * kk)], [b, num_str(kk)]]}]]},
                   'n': '1'}, ['directed', 'exact_arithmetic_in_wrapper', 'seatspec:app_dist'])
    yield mk_case({'k': 'bycon', 'e': {'k': 'fixed', 'e': ha, 'n': '2'}, 'app': None},
                  {'votes': nested, 'n': '3'}, ['directed', 'seatspec:int'])
    yield mk_case({'k': 'unused', 'rounds': [ha, leaf('ha', divisor='sainte_lague')], 'quotas': ['droop'], 'depth': 1},
                  {'votes': {'dict': [[a, '50'], [b, '30'], [c, '21']]}, 'n': str(rng.randint(3, 6))}, ['directed'])
    yield mk_case({'k': 'unused', 'depth': 2, 'quotas': ['hagenbach_bischoff'],
                   'rounds': [{'k': 'bycon', 'e': ha, 'app': None}, {'k': 'bycon', 'e': ha, 'app': None}]},
                  {'votes': nested, 'n': {'dict': [[CON0, '2'], [CON0 + 1, '2'], [CON0 + 2, '1']]}},
                  ['directed', 'seatspec:dict'])


def generate(rng, tier):
    for i, case in enumerate(_generate(rng, tier)):
        if rng.random() < 0.1 and 'warm' not in case:
            _add_warm_call(rng, case)
        yield _tag_semantics(case)


def _add_warm_call(rng, case):
    """the same wrapper OBJECT is first evaluated on another input (different votes, sometimes a call that fails)"""
    a = case['args']
    w = dict(a)
    r = rng.random()
    if r < 0.5:
        w['votes'] = _scaled(a['votes'], rng.choice([3, 7]), reverse=True)
        tag = 'state:second_call_after_other_votes'
    elif r < 0.75 and 'prev' not in a and isinstance(a.get('n'), str):
        w['n'] = str(int(Fraction(a['n'])) + 3)
        tag = 'state:second_call_after_more_seats'
    else:
        w['votes'] = {'dict': []}
        tag = 'state:second_call_after_failing_call'
    case['warm'] = w
    case['_tags'] = sorted(set(case['_tags']) | {tag, 'state:same_object_twice'})


def _scaled(v, k, reverse=False):
    if isinstance(v, str):
        return num_str(Fraction(v) * k)
    if isinstance(v, list):
        return [_scaled(x, k, reverse) for x in v]
    if isinstance(v, dict) and 'dict' in v:
        ents = [[key, _scaled(x, k, reverse)] for key, x in v['dict']]
        return {'dict': ents[::-1] if reverse else ents}
    return v


def _tag_semantics(case):
    """after-the-fact tags `sem:…`: what the wrappers' own logic had to do on this input, taken from the hand
    composition (leaf objects and converters only — no wrapper code takes part)"""
    try:
        root = build(case['tree'])
        votes, kw = _args(case)
        h = Hand(probe=True)
        try:
            call_with_timeout(lambda: h.run(root, votes, kw), 5)
            ok = True
        except Exception:       # noqa
            ok = False
    except Exception:       # noqa
        return case
    tags = set(case['_tags']) | h.notes
    if ok and _bycon_rooted(case['tree']):
        tags.add('key_order_checked')
    if ok:
        tags |= {'value:' + k for k in set(tree_kinds(case['tree'])) if k not in LEAF_TAKES}
    case['_tags'] = sorted(tags)
    return case


def _generate(rng, tier):
    N = 3000 if tier == 'quick' else 120000
    for _ in range(12 if tier == 'quick' else 120):
        yield from gen_directed(rng)
    for _ in range(240 if tier == 'quick' else 6000):
        yield gen_unused(rng)
    for _ in range(120 if tier == 'quick' else 3000):
        yield gen_by_party(rng)
        yield gen_ties(rng)
    for _ in range(50 if tier == 'quick' else 1200):
        yield gen_votes_per_stage(rng)
    for i in range(60 if tier == 'quick' else 1500):
        yield gen_by_party_caps(rng, BYPARTY_CAP_SHAPES[i % len(BYPARTY_CAP_SHAPES)])
    for _ in range(200 if tier == 'quick' else 4000):
        yield gen_deep(rng)
    for i in range(N):
        d = 1 + (i % 4)
        r = rng.random()
        if r < 0.2:
            yield gen_flat(rng, d, 'S1')
        elif r < 0.45:
            yield gen_flat(rng, d, 'D1')
        elif r < 0.9:
            yield gen_nested(rng, d)
        else:
            yield gen_party_list(rng, d)
    if tier == 'thorough':
        yield from exhaustive_small(rng)


def exhaustive_small(rng):
    """every wrapper-over-leaf tree of depth <= 2 from a small alphabet on a fixed family of inputs"""
    ha = leaf('ha', divisor='d_hondt')
    plur = leaf('plurality')
    inp = leaf('input_order')
    thr = leaf('abs_thr', t='2', eq=True)
    d1 = [ha, {'k': 'tb', 'main': ha, 'tb': inp}, {'k': 'cond', 'elim': thr, 'e': ha, 'depth': 1},
          {'k': 'multi', 'rounds': [ha, ha], 'depth': 1}, {'k': 'vs', 'e': ha},
          {'k': 'pre', 'c': {'c': 'chain', 'cs': []}, 'e': ha}, {'k': 'post', 'e': ha, 'c': {'c': 'chain', 'cs': []}}]
    s1 = [plur, inp, {'k': 'tb', 'main': plur, 'tb': inp}, {'k': 'cond', 'elim': thr, 'e': plur, 'depth': 1}]
    vote_sets = [[(0, x), (1, y), (2, z)] for x in (1, 2, 4) for y in (1, 2) for z in (0, 2)]
    for vs in vote_sets:
        votes = {'dict': [[c, str(v)] for c, v in vs]}
        for n in (1, 2, 3):
            for outer in ('cond', 'tb', 'fixed', 'multi', 'vs'):
                for e in d1:
                    if outer == 'cond':
                        t = {'k': 'cond', 'elim': thr, 'e': e, 'depth': 1}
                    elif outer == 'tb':
                        t = {'k': 'tb', 'main': e, 'tb': inp}
                    elif outer == 'fixed':
                        t = {'k': 'fixed', 'e': e, 'n': str(n)}
                    elif outer == 'multi':
                        t = {'k': 'multi', 'rounds': [e, ha], 'depth': 1}
                    else:
                        t = {'k': 'vs', 'e': e}
                    args = {'votes': votes, 'prev': {'dict': [[0, '1']]}}
                    if outer != 'fixed':
                        args['n'] = str(n)
                    yield mk_case(t, args, ['exhaustive', 'seatspec:int'])
            for e in s1:
                yield mk_case({'k': 'tb', 'main': e, 'tb': inp}, {'votes': votes, 'n': str(n)}, ['exhaustive', 'seatspec:int'])
        for app in ({'int': '2'}, {'dict': [[CON0, '1'], [CON0 + 1, '0']]}, None):
            for e in d1 + s1:
                args = {'votes': {'dict': [[CON0, votes], [CON0 + 1, {'dict': [[0, '3'], [1, '3']]}]]}}
                if app is None:
                    args['n'] = '2'
                yield mk_case({'k': 'bycon', 'e': e, 'app': app}, args, ['exhaustive'])


def shrink_candidates(case):
    for c in _shrink_candidates(case):
        for key in ('_names', 'warm'):
            if key in case:
                c[key] = case[key]
        yield c
        if 'warm' in c:
            c2 = dict(c)
            del c2['warm']
            yield c2


def _shrink_candidates(case):
    t = case['tree']
    a = case['args']
    # replace the tree by a child
    for k in kids_of(t):
        yield {'op': 'eval_tree', 'tree': k, 'args': a, '_tags': []}
    # drop optional arguments
    for key in ('max', 'prev', 'pl'):
        if key in a:
            b = dict(a)
            del b[key]
            yield {'op': 'eval_tree', 'tree': t, 'args': b, '_tags': []}
    # drop a votes entry
    v = a['votes']
    if isinstance(v, dict) and 'dict' in v and len(v['dict']) > 1:
        for i in range(len(v['dict'])):
            b = dict(a)
            b['votes'] = {'dict': v['dict'][:i] + v['dict'][i + 1:]}
            yield {'op': 'eval_tree', 'tree': t, 'args': b, '_tags': []}
    # simplify one child in place
    for key in ('e', 'main', 'overall', 'party'):
        if isinstance(t.get(key), dict):
            for kk in kids_of(t[key]):
                t2 = dict(t)
                t2[key] = kk
                yield {'op': 'eval_tree', 'tree': t2, 'args': a, '_tags': []}


UNPROVED = [
    'tieBreaking on a tiebreaker that names the tie it was asked to break BEFORE other candidates: code and fill-in-order '
    'reading differ in the order of the tied places (tieBreaking_tie_first_witness); no selector built on get_n_best answers so',
]
ASSUMPTIONS = [
    'WellFormed t (decidable, static, typing only): a part is given only what its wrapper hands over unconditionally — '
    'FixedSeatCount / tiebreaker / district evaluator / party evaluator / unused-votes stage take a seat count; stages of '
    'a MultistageDistributor, the inner evaluator of PreApportioned / RemovedApportionment and a ByParty allocator take '
    'seats, prev_gains and max_seats; an apportioner given as evaluator takes a seat count.  Since e582ee8 NOTHING about '
    'the dispatch flags is assumed (dispatchFaithful_all).  A ByParty allocator taking only part of (prev_gains, max_seats) '
    'is outside it only because the law computes both columns; such calls are covered per call by byParty_law_columns',
    'a.fits (takes t): the call gives the tree no argument it cannot take',
    'with notes/fix_C14_cond_none_seats.diff no seat count (omitted or the default None of Conditioned / ByParty / '
    'ByConstituency) stays no seat count for a part that can be called without one (conditioned_omitted_stays_omitted); '
    'a part whose n_seats is a REQUIRED parameter (MultistageDistributor, UnusedVotesDistributor, PartyListEvaluator) is '
    'still told None (conditioned_required_gets_none), so that compositions that worked keep working; the laws carry '
    'that one semantic bit of the part (needsSeats), proved equal to the negation of seats_optional wherever consulted',
]
RULE = ('wrapper trees of 0-4 wrapper levels over Plurality / InputOrderSelector / HighestAverages(5 divisors) / QuotaDistributor / LargestRemainder / Absolute-, Relative-, '
        'PreviousGain-threshold; 2-5 parties, 1-4 constituencies, votes from tie-forcing small sets (x1, x5, x100, some Fractions), '
        'seats 1-6 given as int, per-constituency dict, fixed int/dict apportioner, distributor apportioner (with total or seatless), '
        'prev_gains / max_seats of matching nesting; ByParty with previous gains and binding seat caps on the same '
        'constituency and party, directly and as a later stage of a depth-2 MultistageDistributor (drawn until the hand '
        'composition depends on the caps being totals); directed cases for every named mechanism; thorough adds every '
        'wrapper-over-wrapper-over-leaf tree of a small alphabet on a fixed family of inputs.  Non-trivial = at least one '
        'wrapper level and a result that is not an error; distinct by canonical request.')
TECHNIQUE = ('Lean 4 deep embedding of the wrapper algebra (interpreter with signature dispatch vs. dispatch-free laws, equality proved '
             'per wrapper and by structural induction for arbitrary nesting and arbitrary leaves) + differential correspondence '
             'wrapper / hand composition / Lean interpreter on random well-typed trees')
LEVEL_TEXT = ('core.py\'s thirteen wrapper classes are modelled as a deep embedding in Lean (nested Python values, converters, evaluator '
              'trees with ABSTRACT leaves, an interpreter that mirrors each evaluate method including accepts_seats / accepts_prev_gains / '
              'accepts_max_seats as inspect.signature computes them after e582ee8, and Python\'s strict argument binding).  Separately '
              'written laws (no dispatch flags; every part is handed everything and takes what it takes) state the property.  The three '
              'flags are proved to be the truth for EVERY tree; for every wrapper the interpreter equals its law for arbitrary sub-trees '
              'under node-local typing conditions, and by structural induction a well-formed tree of any depth over any leaves evaluates '
              'to the composition of its parts (laws_compose).  The more demanding readings (omitted seat count stays omitted; tie '
              'places filled in order; exactly as many list candidates as seats won; each constituency separately) are proved under '
              'explicit decidable conditions; every repaired defect has a before/after pair of decide-checked witnesses, no finding is open once '
              'notes/fix_C14_cond_none_seats.diff is committed.  The model is tied to /repo by a three-way differential check (wrapper, hand composition with the same '
              'leaf objects, Lean interpreter) on random typed trees, and the hard-coded dispatch flags are compared with votelib\'s on '
              'the live objects of every case.')
LEVEL_NOTE = ('Trusted: Lean kernel + propext/Classical.choice/Quot.sound; the correspondence harness and its generator bounds (depth <= 4, '
              'eight leaf classes, closed lists); inspect.signature itself (flags hard-coded per class, cross-checked on every case); the '
              'shared HighestAverages / get_n_best models as leaves.  No open finding; sixteen fixed entries (904ccca, 3968d16, caf8ac3, 9f4a9df, e582ee8, 5bf2df2 and the pending '
              'n_seats=None repair) are replayed on every run.')
