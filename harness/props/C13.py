"""C13 — vote converters are per-ballot exact and additive.

Protocol (ids, JSON):  candidate = int; frozenset = {"set": [...]}; tuple = [...]; number = "p/q";
rank item = int | {"set": [int]}; score ballot = {"set": [[c, "s"], ...]}; party key = {"party": n} | null | {"cand": c};
a dict = [[key, value], ...] (compared as a map: entries sorted canonically on both sides).

One case = one configured converter applied to the profiles A, B, A+B (dict sum) and to single-ballot
profiles; the model (Lean driver) does the same, the oracle states the property on the implementation's
outputs with an independent reference of the documented per-ballot images.
"""
import json
import itertools
from fractions import Fraction
from decimal import Decimal
from common import *   # noqa

ID = 'C13'
NAMESPACE = 'VL.C13'
LEAN_MODULES = ['VotelibProofs.Props.C13']
GEN_MODULES = ['RankScore']
REQUIRED = [
    'toFun_is_lookup', 'mergeDict_is_sum', 'firstPreference_eq_accum', 'firstPreference_sum',
    'firstPreference_additive', 'firstPreference_additive_merged', 'firstPreference_single',
    'firstPreference_weight_conserved', 'firstPreference_is_dict', 'firstPreference_keys', 'approvalToSimple_sum',
    'approvalToSimple_rejects', 'approvalToSimple_additive', 'approvalToSimple_additive_merged',
    'approvalImage_nodup', 'approvalToSimple_weight_conserved', 'presenceCounts_sum', 'presenceCounts_additive',
    'presenceCounts_additive_merged', 'presence_of_nodup', 'presenceCounts_single', 'presenceCounts_is_dict',
    'presenceCounts_weight', 'rankedToApproval_eq_accum', 'rankedToApproval_sum', 'rankedToApproval_additive',
    'rankedToApproval_additive_merged', 'rankedToApproval_single', 'rankedToApproval_same_key',
    'rankedToApproval_weight_conserved', 'rankedToApproval_is_dict', 'firstN_eq_accum', 'firstN_sum',
    'firstN_additive', 'firstN_additive_merged', 'firstN_flat_image', 'firstN_empty', 'firstN_same_key',
    'pyTake_nonneg', 'firstN_weight_conserved', 'firstN_is_dict', 'firstN_shared_rank_flattened',
    'covers_allRankedCandidates', 'positional_sum', 'positional_additive', 'positional_additive_merged',
    'rankedToPositional_additive', 'rankedToPositional_keys', 'posImage_eq_sum', 'selectPadded_eq',
    'selectPadded_prefix', 'sequence_scores_eq', 'borda_scores_eq', 'borda_score_at', 'borda_rejects',
    'dowdall_score_at', 'geometric_score_at', 'modifiedBorda_score_at', 'fixedTop_score_at', 'sequence_score_at',
    'positional_borda_rejects', 'condorcet_sum', 'condorcet_additive', 'condorcet_additive_merged',
    'rankedToCondorcet_additive_nobottom', 'rankedToCondorcet_additive', 'condorcet_single',
    'above_iff_earlier_place', 'pairwise_le_total', 'pairwise_le_total_merged',
    'rankedToCondorcet_pairwise_le_total', 'condorcet_irreflexive', 'condorcet_is_dict',
    'pairwise_le_total_needs_nodup', 'scoreToRanked_eq_accum', 'scoreToRanked_sum', 'scoreToRanked_additive',
    'scoreToRanked_additive_merged', 'scoreToRanked_additive_none', 'scoreToRanked_image', 'scoreToRanked_augment',
    'scoreToRanked_top_additive', 'mem_allScoredCandidates', 'scoreToRanked_weight_conserved',
    'scoreToRanked_is_dict', 'scoreToApproval_eq_accum', 'scoreToApproval_sum', 'scoreToApproval_additive',
    'scoreToApproval_additive_merged', 'scoreToApproval_image', 'scoreToApproval_weight_conserved',
    'scoreToApproval_is_dict', 'invertedSimple_image', 'invertedSimple_toFun', 'invertedSimple_additive_merged',
    'invertedApproval_sum', 'invertedApproval_image', 'awf_mergeDict', 'invertedApproval_additive_merged',
    'invertedApproval_weight_conserved', 'voteTotals_sum', 'voteTotals_additive', 'voteTotals_additive_merged',
    'voteTotals_weight_conserved', 'voteTotals_is_dict', 'constituencyTotals_sum',
    'constituencyTotals_additive_merged', 'subsetted_eq_accum', 'subsetted_sum', 'subsetted_additive',
    'subsetted_additive_merged', 'subsetted_weight_conserved', 'subsetted_is_dict', 'subsetSimple_image',
    'subsetApproval_image', 'subsetRanked_image', 'subsetScore_image', 'subsetted_weight_conserved_ranked',
    'subsetted_weight_conserved_approval', 'subsetted_weight_conserved_score', 'mapKey_image',
    'individualToParty_sum', 'individualToParty_rejects', 'individualToParty_additive_merged', 'groupByParty_image',
    'groupByParty_additive_disjoint', 'rounded_image', 'rounded_value', 'rounded_with_image', 'rounded_with_value',
    'rounded_with_halfUp', 'rounded_additive_disjoint', 'rounded_not_additive_witness', 'chain_nil', 'chain_cons',
    'chain_append', 'conv_chain', 'approvalUnsplit_sum', 'chain_ranked_approval_simple',
    'chain_ranked_approval_simple_additive', 'chain_two_additive', 'linearD_firstPreference', 'linearD_firstN',
    'linearD_presenceCounts', 'linearD_rankedToApproval', 'linearD_condorcet', 'linearD_scoreToRanked',
    'linearD_scoreToApproval', 'linearD_subsetted', 'linearD_approvalUnsplit', 'linearD_invertedSimple',
    'chain_additive', 'chain_linear', 'chain_score_ranked_approval_simple_additive',
    'chain_score_ranked_condorcet_additive', 'chain_presence_inverted_additive',
    'chain_score_approval_simple_additive', 'subsettedNested_image', 'subsettedNested_additive_merged',
    'subsettedDeep_image', 'subsettedDeep_sum', 'mergeN_is_sum', 'subsettedDeep_additive',
    'subsettedDeep_additive_merged', 'invertedApproval_awf', 'invertedApproval_top_sum',
    'invertedApproval_top_additive',
]
TRUSTED = ['Python set/dict iteration order of converter outputs is not observable: outputs compare as maps, '
           'frozensets as sorted id lists']

CONVERTERS = ['ApprovalToSimpleVotes', 'RankedToFirstPreference', 'RankedToFirstNPreferences',
              'RankedToPresenceCounts', 'RankedToApprovalVotes', 'RankedToPositionalVotes',
              'RankedToCondorcetVotes', 'ScoreToRankedVotes', 'ScoreToApprovalVotesThreshold',
              'InvertedSimpleVotes', 'InvertedApprovalVotes', 'IndividualToPartyVotes', 'GroupVotesByParty',
              'VoteTotals', 'ConstituencyTotals', 'SubsettedVotes', 'RoundedVotes', 'Chain']
SCORERS = ['Borda', 'Dowdall', 'Geometric', 'ModifiedBorda', 'FixedTop', 'SequenceBased']
SUBSETTERS = ['simple', 'approval', 'ranked', 'score']
SUBSET_CONTAINERS = ['list', 'tuple', 'set', 'frozenset', 'dict', 'list_dup']
ROUND_METHODS = ['ROUND_HALF_UP', 'ROUND_HALF_DOWN', 'ROUND_HALF_EVEN', 'ROUND_DOWN', 'ROUND_UP', 'ROUND_CEILING', 'ROUND_FLOOR',
                 'ROUND_05UP']
# converters of the property's quantifier that have no Lean model (the oracle still covers them)
UNMODELLED = []

REQUIRED_COUNTERS = (['conv:' + c for c in CONVERTERS] + ['scorer:' + s for s in SCORERS]
                     + ['subsetter:' + s for s in SUBSETTERS]
                     + ['split', 'unsplit', 'condorcet_bottom', 'condorcet_nobottom', 'unscored_value',
                        'shared_rank', 'truncated', 'empty_ballot', 'overlap_AB', 'shared_image',
                        'fraction_weight', 'same_universe', 'rounded_disjoint', 'rounded_overlap',
                        'borda_too_many_ranks', 'duplicate_candidate', 'util', 'decimal_weight', 'subset_depth:2', 'subset_depth:3']
                     + ['names:' + n for n in ['str', 'int0', 'empty0', 'person']]
                     + ['num:' + n for n in ['auto', 'frac', 'dec', 'dec_all', 'float']]
                     + ['falsy_zero_count', 'decimal7', 'big_weight', 'big_score', 'close_scores', 'zero_weight2',
                        'order:asc', 'order:desc', 'sibling_first', 'district_named_like_candidate', 'error_then_valid',
                        'empty_subset', 'unmapped_candidate', 'affiliation:membership', 'affiliation:candidacy_for',
                        'borda_base_nondefault', 'geometric_base_nondefault', 'geometric_base_10',
                        'sequence_shorter_than_ballot', 'modified_borda_mixed_lengths',
                        'unscored_negative', 'unscored_zero', 'unscored_above_scores',
                        'shared_rank_3plus', 'candidate_only_in_shared_ranks']
                     + ['independents:' + m for m in ['aggregate', 'keep', 'ignore', 'error']]
                     + ['roundm:' + m for m in ROUND_METHODS + ['default']]
                     + ['rounded_num:' + m for m in ['auto', 'frac', 'dec', 'dec_all', 'float']]
                     + ['rounded_num:' + m + '_chain' for m in ['auto', 'frac', 'dec', 'dec_all', 'float']]
                     + ['rounded_half_%s_digit:%s' % (p, m) for p in ('even', 'odd') for m in ('auto', 'frac', 'dec', 'dec_all', 'float')]
                     + ['rounded_decimals:%d' % d for d in (-1, 0, 1, 2, 3)]
                     + ['empty_profile:' + c for c in CONVERTERS]
                     + ['only_empty_ballots:' + c for c in CONVERTERS if c not in ('InvertedSimpleVotes', 'IndividualToPartyVotes',
                                                                                  'GroupVotesByParty')]
                     + ['subset:%s:%s' % (r, k) for r in ('empty', 'full', 'superset', 'partial') for k in SUBSETTERS]
                     + ['subset_deep:' + r for r in ('empty', 'full', 'superset')]
                     + ['subset_container:' + c for c in SUBSET_CONTAINERS]
                     + ['nested_inner:ranked', 'nested_inner:approval', 'shared_image_3plus', 'two_refused_ballots',
                        'args:empty', 'args:only_empty', 'args:normal']
                     + ['round:' + m for m in ROUND_METHODS])
RULE = ('2-5 candidates (5-8 in the `big` share) with multi-character names; ranked ballots with truncation, shared ranks (incl. one-element and empty '
        'sets), repeated candidates and the empty ballot; approval and score ballots incl. empty ones; weights from small integers, '
        'zero, Fractions and (rarely) negatives; each profile of 1-7 (big: 6-15) ballots is split into A and B with ballots that occur in both '
        'halves and distinct ballots that share an image; every converter of the quantifier with every rank scorer / subsetter / mode / rounding method, SubsettedVotes at depth 0-3, '
        'and chains of two or three converters. Candidates as multi-character strings, ints incl. 0, the empty string or Person objects; counts as int / Fraction / Decimal (short and 7 decimals) / dyadic float incl. typed zeros and 2^53, 10^18, 10^30, 10^400; ONE converter object per case called on A, B, A+B and the singles in default / ascending / descending order, optionally after a differently configured sibling object; constituencies optionally named like candidates. Non-trivial = at least two ballots in A+B and a non-error result; distinct by request.')
NOT_VERIFIED = ['set/dict iteration order of outputs (outputs compare as maps; frozensets are canonical sorted id lists)',
                'Decimal division of RoundedVotes for Fractions is taken as exact (denominators in the generator are small); counts are '
                'handed over as int, Fraction, Decimal and dyadic float (all documented as admissible) and kept below 10^20 (quantize has 28 digits)',
                'Person/PoliticalParty objects are modelled by ids; the mapper reads one attribute',
                'universe-dependent converters (positional/Borda, Condorcet with unranked_at_bottom, ScoreToRankedVotes with '
                'unscored_value, InvertedApprovalVotes): additivity is proved over a fixed universe and, for the converter as called, '
                'under the hypothesis that the halves name the same candidates',
                'GroupVotesByParty and RoundedVotes are not additive as functions: proved per-key image and additivity across disjoint keys',
                'Chain: additivity proved for every typed chain whose links are linear on dicts (sum-of-images converters over a fixed '
                'universe, InvertedSimpleVotes) by induction over the chain (chain_additive); chains through an Except-valued link '
                '(positional, split approval, party mapper), InvertedApprovalVotes, VoteTotals or RoundedVotes rest on correspondence + oracle',
                'select_padded is hand-modelled (selectPadded_eq states it as take ++ replicate; the translator does not cover it)'] + \
               ['UNMODELLED: ' + u for u in UNMODELLED]
EXHAUSTIVE = {'thorough': False}     # small-scope enumeration is added in the thorough tier, the random part stays

UNIVERSE_DEPENDENT = ('RankedToPositionalVotes', 'RankedToCondorcetVotes', 'ScoreToRankedVotes', 'InvertedApprovalVotes')


def cname(i):
    return f'c{i}'


def dname(i):
    return f'd{i}'


# ------------------------------------------------------------------------------------------------
# numbers

def num(s):
    return Fraction(s)


NUM_MODES = ['auto', 'frac', 'dec', 'dec_all', 'float']
NAME_KINDS = ['str', 'int0', 'empty0', 'person']     # own equivalent of common.Names naming modes


def py_num(s, mode='auto'):
    """protocol number -> python number of the case's numeric type.
    auto: int / Fraction; frac: always Fraction (also Fraction(0), Fraction(3)); dec: int / Decimal;
    dec_all: always Decimal (also Decimal('0')); float: int / dyadic float.  Values the type cannot hold exactly
    stay int / Fraction (the generator only picks a mode when every vote count fits)."""
    if mode is True:
        mode = 'dec'
    f = Fraction(s)
    if mode == 'frac':
        return f
    if mode in ('dec', 'dec_all') and _dec_ok(f):
        if f.denominator == 1 and mode == 'dec':
            return int(f)
        return Decimal(f.numerator) / Decimal(f.denominator)
    if mode == 'float' and _float_ok(f) and f.denominator != 1:
        return float(f)
    if f.denominator == 1:
        return int(f)
    return f


def _dec_ok(f):
    d = f.denominator
    for q in (2, 5):
        while d % q == 0:
            d //= q
    return d == 1 and len(str(f.denominator)) < 10 and abs(f.numerator) < 10 ** 17


def _float_ok(f):
    d = f.denominator
    return d & (d - 1) == 0 and d <= 2 ** 12 and abs(f.numerator) < 2 ** 36


def ns(x):
    if isinstance(x, float):
        x = Fraction(x)         # only dyadic floats are ever handed in: exact
    return num_str(x)


# ------------------------------------------------------------------------------------------------
# protocol <-> python objects

class Ctx:
    """per-case python objects for ids (Person / PoliticalParty objects for the party converters)"""
    def __init__(self, spec, dec=False, names='str', dclash=False):
        self.dec = 'dec' if dec is True else (dec or 'auto')
        self.names = names
        self.dclash = dclash
        self.persons = {}
        self.parties = {}
        self.back = {}
        self.spec = spec
        self.use_persons = _uses_party(spec)
        self.aff = {}
        self.attr = 'candidacy_for'
        for s in _flat(spec):
            if s['c'] in ('IndividualToPartyVotes', 'GroupVotesByParty'):
                self.aff = {c: p for c, p in s['aff']}
                self.attr = s.get('affiliation', 'candidacy_for')

    def party(self, n):
        import votelib.candidate as vcand
        if n not in self.parties:
            self.parties[n] = vcand.PoliticalParty(f'party{n}')
            self.back[id(self.parties[n])] = {'party': n}
        return self.parties[n]

    def dname(self, d):
        # 'dclash': constituencies are named exactly like candidates
        return cname(d) if self.dclash else dname(d)

    def cand(self, i):
        if not self.use_persons and self.names != 'person':
            if self.names == 'int0':
                return i
            if self.names == 'empty0' and i == 0:
                return ''
            return cname(i)
        import votelib.candidate as vcand
        if i not in self.persons and not self.use_persons:
            self.persons[i] = vcand.Person(f'person{i}')
            self.back[id(self.persons[i])] = i
        if i not in self.persons:
            p = self.party(self.aff[i]) if i in self.aff else None
            other = self.party(99)
            if self.attr == 'candidacy_for':
                self.persons[i] = vcand.Person(f'person{i}', candidacy_for=p, membership=other)
            else:
                self.persons[i] = vcand.Person(f'person{i}', membership=p, candidacy_for=other)
            self.back[id(self.persons[i])] = i
        return self.persons[i]


def _flat(spec):
    if spec['c'] == 'Chain':
        for s in spec['cs']:
            yield from _flat(s)
    else:
        yield spec


def _uses_party(spec):
    return any(s['c'] in ('IndividualToPartyVotes', 'GroupVotesByParty') for s in _flat(spec))


def item_py(it, ctx):
    if isinstance(it, dict):
        return frozenset(ctx.cand(c) for c in it['set'])
    return ctx.cand(it)


def key_py(kind, k, ctx):
    if kind == 'simple':
        return ctx.cand(k)
    if kind == 'items':
        return item_py(k, ctx)
    if kind == 'ranked':
        return tuple(item_py(it, ctx) for it in k)
    if kind == 'approval':
        return frozenset(ctx.cand(c) for c in k['set'])
    if kind == 'score':
        return frozenset((ctx.cand(c), py_num(s, ctx.dec)) for c, s in k['set'])
    raise ValueError(kind)


INNER = ['simple']      # vote type inside a constituency dictionary of the case being processed (set by impl/oracle/describe)


def _set_inner(case):
    INNER[0] = case.get('inner', 'simple') if isinstance(case, dict) else 'simple'


def deep_py(t, depth, ctx):
    if depth == 0:
        return {ctx.cand(c): py_num(w, ctx.dec) for c, w in t}
    return {ctx.dname(d): deep_py(c, depth - 1, ctx) for d, c in t}


def prof_py(kind, prof, ctx, depth=0):
    if kind == 'deep':
        return deep_py(prof, depth, ctx)
    if kind == 'nested':
        return {ctx.dname(d): {key_py(INNER[0], c, ctx): py_num(w, ctx.dec) for c, w in dv} for d, dv in prof}
    return {key_py(kind, k, ctx): py_num(w, ctx.dec) for k, w in prof}


def enc_key(k, ctx, in_set=False):
    """python key -> protocol.  A tuple inside a frozenset is a (candidate, score) pair; any other tuple is a
    ranking or an ordered pair of candidates (so that int candidates are not taken for numbers)."""
    if k is None:
        return None
    if isinstance(k, bool):
        raise TypeError(f'cannot encode key {k!r}')
    if isinstance(k, int):
        return k                                    # naming mode int0
    if isinstance(k, str):
        return 0 if k == '' else int(k[1:])
    if isinstance(k, (frozenset, set)):
        return {'set': sorted((enc_key(x, ctx, True) for x in k), key=jkey)}
    if isinstance(k, tuple):
        if in_set and len(k) == 2:
            return [enc_key(k[0], ctx), ns(k[1])]
        return [enc_key(x, ctx) for x in k]
    if id(k) in ctx.back:
        return ctx.back[id(k)]
    raise TypeError(f'cannot encode key {k!r}')


def enc_dict(d, ctx):
    if not isinstance(d, dict):
        raise TypeError(f'converter returned {type(d).__name__}')
    out = []
    for k, v in d.items():
        out.append([enc_key(k, ctx), enc_dict(v, ctx) if isinstance(v, dict) else ns(v)])
    out.sort(key=lambda p: jkey(p[0]))
    return out


def jkey(x):
    return json.dumps(x, sort_keys=True)


def canon_key(k):
    if isinstance(k, dict) and 'set' in k:
        return {'set': sorted((canon_key(x) for x in k['set']), key=jkey)}
    if isinstance(k, list):
        return [canon_key(x) for x in k]
    if isinstance(k, str):
        return ns(Fraction(k))
    return k


def canon_out(o):
    """canonical form of one converter output (protocol dict or error)"""
    if isinstance(o, dict):
        return o
    out = [[canon_key(k), canon_out(v) if isinstance(v, list) else ns(Fraction(v))] for k, v in o]
    out.sort(key=lambda p: jkey(p[0]))
    return out


# ------------------------------------------------------------------------------------------------
# converter construction

def _kw(spec, **documented_defaults):
    """keyword arguments of a constructor; with spec['defaults'] the ones equal to the documented default are
    left out, so that the defaults of the code are exercised too"""
    out = {}
    for k, (v, dv) in documented_defaults.items():
        if not (spec.get('defaults') and v == dv):
            out[k] = v
    return out


def build_scorer(s):
    from votelib.component import rankscore as rs
    n = s['s']
    if n == 'Borda':
        return rs.Borda(**_kw(s, base=(s['base'], 1)))
    if n == 'Dowdall':
        return rs.Dowdall()
    if n == 'Geometric':
        return rs.Geometric(**_kw(s, base=(s['base'], 2)))
    if n == 'ModifiedBorda':
        return rs.ModifiedBorda()
    if n == 'FixedTop':
        return rs.FixedTop(s['top'])
    if n == 'SequenceBased':
        return rs.SequenceBased([py_num(x, s.get('_num', 'auto')) for x in s['sequence']])
    raise ValueError(n)


class _WithSubset:
    """SubsettedVotes.convert takes the subset as a second argument"""
    def __init__(self, conv, subset):
        self.conv = conv
        self.subset = subset

    def convert(self, votes):
        return self.conv.convert(votes, self.subset)


def build_conv(spec, ctx):
    import votelib.convert as vc
    import votelib.vote as vv
    import votelib.candidate as vcand
    c = spec['c']
    if c == 'ApprovalToSimpleVotes':
        return vc.ApprovalToSimpleVotes(**_kw(spec, split=(spec['split'], False)))
    if c == 'RankedToFirstPreference':
        return vc.RankedToFirstPreference()
    if c == 'RankedToFirstNPreferences':
        return vc.RankedToFirstNPreferences(spec['n'])
    if c == 'RankedToPresenceCounts':
        return vc.RankedToPresenceCounts()
    if c == 'RankedToApprovalVotes':
        return vc.RankedToApprovalVotes()
    if c == 'RankedToPositionalVotes':
        sc = dict(spec['scorer'], defaults=spec.get('defaults'), _num='frac' if ctx.dec == 'frac' else 'auto')
        return vc.RankedToPositionalVotes(build_scorer(sc))
    if c == 'RankedToCondorcetVotes':
        return vc.RankedToCondorcetVotes(**_kw(spec, unranked_at_bottom=(spec['unranked_at_bottom'], True)))
    if c == 'ScoreToRankedVotes':
        uv = spec.get('unscored_value')
        return vc.ScoreToRankedVotes(**_kw(spec, unscored_value=(None if uv is None else py_num(uv, ctx.dec), None)))
    if c == 'ScoreToApprovalVotesThreshold':
        return vc.ScoreToApprovalVotesThreshold(py_num(spec['threshold'], ctx.dec))
    if c == 'InvertedSimpleVotes':
        return vc.InvertedSimpleVotes()
    if c == 'InvertedApprovalVotes':
        return vc.InvertedApprovalVotes()
    if c in ('IndividualToPartyVotes', 'GroupVotesByParty'):
        kw = _kw(spec, affiliation=(spec.get('affiliation', 'candidacy_for'), 'candidacy_for'),
                 independents=(spec['independents'], 'aggregate'))
        if not kw and spec.get('defaults'):
            return getattr(vc, c)()                       # DEFAULT_MAPPER
        return getattr(vc, c)(vcand.IndividualToPartyMapper(**kw))
    if c == 'VoteTotals':
        return vc.VoteTotals()
    if c == 'ConstituencyTotals':
        return vc.ConstituencyTotals()
    if c == 'SubsettedVotes':
        if spec.get('defaults') and spec['subsetter'] == 'simple' and spec['depth'] == 0:
            inner = vc.SubsettedVotes()                   # DEFAULT_SUBSETTER, depth 0
        else:
            sub = {'simple': vv.SimpleSubsetter, 'approval': vv.ApprovalSubsetter, 'ranked': vv.RankedSubsetter,
                   'score': vv.ScoreSubsetter}[spec['subsetter']]()
            inner = vc.SubsettedVotes(sub, **_kw(spec, depth=(spec['depth'], 0)))
        lst = [ctx.cand(i) for i in spec['subset']]
        cont = spec.get('subset_container', 'list')       # `subset: Collection[Candidate]`
        subset = {'list': lst, 'tuple': tuple(lst), 'set': set(lst), 'frozenset': frozenset(lst),
                  'dict': dict.fromkeys(lst, 1), 'list_dup': lst + lst[::-1]}[cont]
        return _WithSubset(inner, subset)
    if c == 'RoundedVotes':
        import decimal
        if 'round_method' not in spec:
            return vc.RoundedVotes(spec['decimals'])        # the default method (documented: ROUND_HALF_UP)
        return vc.RoundedVotes(spec['decimals'], getattr(decimal, spec['round_method']))
    if c == 'Chain':
        return vc.Chain([build_conv(s, ctx) for s in spec['cs']])
    raise ValueError(c)


def impl(case):
    _set_inner(case)
    if case['op'] == 'util':
        import votelib.util as vu
        ctx = Ctx({'c': 'none'}, names=case.get('names', 'str'))
        votes = prof_py('ranked', case['votes'], ctx)
        return guarded(lambda: {
            'all_ranked_candidates': [enc_key(c, ctx) for c in vu.all_ranked_candidates(votes)],
            'all_rankings': [[enc_key(c, ctx), r, ns(n)] for c, r, n in vu.all_rankings(votes)]})
    ctx = _ctx(case)
    try:
        conv = build_conv(case['conv'], ctx)
    except Exception as e:      # noqa
        # the constructor refuses the configuration: no conversion can take place
        err = {'err': err_name(e)}
        return {'A': err, 'B': err, 'AB': err, 'singles': [err for _ in case['singles']]}

    alias = set()
    live = []                     # every dictionary the object returned, with a snapshot taken at return time
    out_ids = set()
    empty_chain = case['conv']['c'] == 'Chain' and not case['conv']['cs']
    state0 = _state(conv)

    def one(prof):
        votes = prof_py(case['kind'], prof, ctx, case.get('depth', 0))
        before = _snap(votes)
        in_ids = _dict_ids(votes)

        def run():
            res = conv.convert(votes)
            ids = _dict_ids(res)
            if ids & in_ids and not empty_chain:
                alias.add('output_aliases_input')
            if ids & out_ids:
                alias.add('output_aliases_earlier_output')
            out_ids.update(ids)
            live.append((res, _snap(res)))
            return enc_dict(res, ctx)
        r = guarded(run)
        if _snap(votes) != before:
            alias.add('input_mutated')
        return r
    if case.get('warm'):
        # a differently configured object of the same class is used first (class- or module-level state)
        try:
            sib = build_conv(sibling(case['conv']), ctx)
            guarded(lambda: sib.convert(prof_py(case['kind'], case['AB'], ctx, case.get('depth', 0))))
        except Exception:      # noqa
            pass
    # ONE converter object serves all conversions of the case, in the order the case asks for
    res = {}
    order = {'desc': ['AB', 'A', 'B', 'singles'], 'asc': ['singles', 'B', 'A', 'AB']}.get(case.get('order'), ['A', 'B', 'AB', 'singles'])
    for nm in order:
        res[nm] = [one(s) for s in case['singles']] if nm == 'singles' else one(case[nm])
    for obj, snap in live:
        if _snap(obj) != snap:
            alias.add('earlier_output_changed')
    if _state(conv) != state0:
        alias.add('converter_state_changed')
    return {'A': res['A'], 'B': res['B'], 'AB': res['AB'], 'singles': res['singles'], 'alias': sorted(alias)}


def _snap(x):
    """copy of a (nested) dictionary that keeps the key objects themselves"""
    if isinstance(x, dict):
        return {k: _snap(v) for k, v in x.items()}
    return x


def _dict_ids(x):
    out = set()
    if isinstance(x, dict):
        out.add(id(x))
        for v in x.values():
            out |= _dict_ids(v)
    return out


def _state(obj, depth=0):
    """the configuration of a converter, recursively, private attributes included; Borda's n_candidates / _scores are
    documented per-call state (set_n_candidates) and left out"""
    if depth > 6:
        return '...'
    if isinstance(obj, (list, tuple)):
        return [_state(x, depth + 1) for x in obj]
    if isinstance(obj, (set, frozenset)):
        return sorted((repr(_state(x, depth + 1)) for x in obj))
    if isinstance(obj, dict):
        return sorted(((repr(_state(k, depth + 1)), _state(v, depth + 1)) for k, v in obj.items()), key=repr)
    if isinstance(obj, (int, str, Fraction, Decimal, float, bool, type(None))):
        return repr(obj)
    if hasattr(obj, '__dict__') and not isinstance(obj, type) and not callable(obj):
        skip = ('n_candidates', '_scores') if type(obj).__name__ == 'Borda' else ()
        return (type(obj).__name__, {k: _state(v, depth + 1) for k, v in vars(obj).items() if k not in skip})
    return type(obj).__name__ + '@' + str(id(obj))


def _ctx(case):
    return Ctx(case['conv'], case.get('num') or bool(case.get('dec')), case.get('names', 'str'), bool(case.get('dclash')))


def sibling(spec):
    """the same converter class configured differently"""
    s = json.loads(json.dumps(spec))
    c = s['c']
    if c == 'Chain':
        s['cs'] = [sibling(x) for x in s['cs']]
    elif c == 'ApprovalToSimpleVotes':
        s['split'] = not s['split']
    elif c == 'RankedToFirstNPreferences':
        s['n'] = s['n'] + 1
    elif c == 'RankedToPositionalVotes':
        sc = s['scorer']
        if sc['s'] in ('Borda', 'Geometric'):
            sc['base'] = sc['base'] + 1
        elif sc['s'] == 'FixedTop':
            sc['top'] = sc['top'] + 2
        elif sc['s'] == 'SequenceBased':
            sc['sequence'] = ['7'] + sc['sequence'][::-1]
        else:
            s['scorer'] = {'s': 'Dowdall' if sc['s'] == 'ModifiedBorda' else 'ModifiedBorda'}
    elif c == 'RankedToCondorcetVotes':
        s['unranked_at_bottom'] = not s['unranked_at_bottom']
    elif c == 'ScoreToRankedVotes':
        s['unscored_value'] = '3' if s.get('unscored_value') is None else None
    elif c == 'ScoreToApprovalVotesThreshold':
        s['threshold'] = ns(Fraction(s['threshold']) + 1)
    elif c in ('IndividualToPartyVotes', 'GroupVotesByParty'):
        s['independents'] = 'keep' if s['independents'] != 'keep' else 'ignore'
    elif c == 'SubsettedVotes':
        s['subset'] = [0] if s['subset'] != [0] else [1]
    elif c == 'RoundedVotes':
        s['decimals'] = s['decimals'] + 1
        s['round_method'] = 'ROUND_DOWN'
    s.pop('defaults', None)
    return s


# ------------------------------------------------------------------------------------------------
# reference: the documented per-ballot images, on protocol ids (independent of the Lean model)

class P(tuple):
    """party key marker"""


def h_item(it):
    return frozenset(it['set']) if isinstance(it, dict) else it


def h_key(kind, k):
    """hashable form of a protocol input key"""
    if kind == 'simple':
        return k
    if kind == 'ranked':
        return tuple(h_item(it) for it in k)
    if kind == 'approval':
        return frozenset(k['set'])
    if kind == 'score':
        return frozenset((c, num(s)) for c, s in k['set'])
    raise ValueError(kind)


def h_deep(t, depth):
    if depth == 0:
        return [(c, num(w)) for c, w in t]
    return [(d, h_deep(c, depth - 1)) for d, c in t]


def h_prof(kind, prof, depth=0):
    if kind == 'deep':
        return h_deep(prof, depth)
    if kind == 'nested':
        return [(d, [(h_key(INNER[0], c), num(w)) for c, w in dv]) for d, dv in prof]
    return [(h_key(kind, k), num(w)) for k, w in prof]


def enc_h(k):
    """hashable reference key -> protocol"""
    if k is None:
        return None
    if isinstance(k, P):
        return {k[0]: k[1]}
    if isinstance(k, frozenset):
        return {'set': sorted((enc_h(x) for x in k), key=jkey)}
    if isinstance(k, tuple):
        return [enc_h(x) for x in k]
    if isinstance(k, Fraction):
        return ns(k)
    return k


def item_cands(it):
    return sorted(it) if isinstance(it, frozenset) else [it]


def flat(b):
    return [c for it in b for c in item_cands(it)]


def ranked_universe(prof):
    return sorted({c for b, _ in prof for c in flat(b)})


class Reject(Exception):
    def __init__(self, name):
        self.name = name


def ref_scores(sc, n_cand, n):
    s = sc['s']
    if s == 'Borda':
        if n > n_cand:
            raise Reject('ValueError')
        return [Fraction(n_cand + sc['base'] - 1 - r) for r in range(n)]
    if s == 'Dowdall':
        return [Fraction(1, r + 1) for r in range(n)]
    if s == 'Geometric':
        if sc['base'] == 0 and n >= 2:
            raise Reject('ZeroDivisionError')
        return [Fraction(1, sc['base'] ** r) for r in range(n)]
    if s == 'ModifiedBorda':
        return [Fraction(n - r) for r in range(n)]
    if s == 'FixedTop':
        return [Fraction(max(sc['top'] - r, 0)) for r in range(n)]
    if s == 'SequenceBased':
        seq = [num(x) for x in sc['sequence']]
        return [seq[r] if r < len(seq) else Fraction(0) for r in range(n)]
    raise ValueError(s)


def add(out, k, v):
    out[k] = out.get(k, Fraction(0)) + v


def ref_image(spec, kind, b, U):
    """documented image of ONE ballot of weight 1, as {key: amount}; U = candidate universe of the profile.
    Returns (image, output kind)."""
    c = spec['c']
    img = {}
    if c == 'ApprovalToSimpleVotes':
        if spec['split'] and len(b) == 0:
            raise Reject('ZeroDivisionError')
        for x in b:
            add(img, x, Fraction(1, len(b)) if spec['split'] else Fraction(1))
        return img, 'simple'
    if c == 'RankedToFirstPreference':
        if b:
            add(img, b[0], Fraction(1))
        return img, 'items'
    if c == 'RankedToFirstNPreferences':
        if b:
            n = spec['n']
            first = b[:n]
            # documented: an approval vote for the first N choices (candidates, not nested sets)
            add(img, frozenset(x for it in first for x in item_cands(it)), Fraction(1))
        return img, 'approval'
    if c == 'RankedToPresenceCounts':
        for x in flat(b):
            add(img, x, Fraction(1))
        return img, 'simple'
    if c == 'RankedToApprovalVotes':
        add(img, frozenset(flat(b)), Fraction(1))
        return img, 'approval'
    if c == 'RankedToPositionalVotes':
        scores = ref_scores(spec['scorer'], len(U), len(b))
        for r, it in enumerate(b):
            for x in item_cands(it):
                add(img, x, scores[r])
        return img, 'simple'
    if c == 'RankedToCondorcetVotes':
        ranked = flat(b)
        for i, up in enumerate(b):
            for u in item_cands(up):
                for low in b[i + 1:]:
                    for x in item_cands(low):
                        add(img, (u, x), Fraction(1))
                if spec['unranked_at_bottom']:
                    for x in U:
                        if x not in ranked:
                            add(img, (u, x), Fraction(1))
        return img, 'pairs'
    if c == 'ScoreToRankedVotes':
        sc = list(b)
        uv = spec.get('unscored_value')
        if uv is not None:
            have = {x for x, _ in sc}
            sc += [(x, num(uv)) for x in U if x not in have]
        levels = sorted({s for _, s in sc}, reverse=True)
        ranking = []
        for lv in levels:
            cs = [x for x, s in sc if s == lv]
            ranking.append(cs[0] if len(cs) == 1 else frozenset(cs))
        add(img, tuple(ranking), Fraction(1))
        return img, 'ranked'
    if c == 'ScoreToApprovalVotesThreshold':
        ap = frozenset(x for x, s in b if s >= num(spec['threshold']))
        if ap:
            add(img, ap, Fraction(1))
        return img, 'approval'
    if c == 'InvertedSimpleVotes':
        add(img, b, Fraction(-1))
        return img, kind
    if c == 'InvertedApprovalVotes':
        add(img, frozenset(x for x in U if x not in b), Fraction(1))
        return img, 'approval'
    if c == 'IndividualToPartyVotes':
        aff = {x: p for x, p in spec['aff']}
        bb = b if not isinstance(b, frozenset) else None
        if bb in aff:
            add(img, P(('party', aff[bb])), Fraction(1))
        else:
            mode = spec['independents']
            if mode == 'error':
                raise Reject('CandidateError')
            if mode == 'keep':
                add(img, bb, Fraction(1))
            elif mode == 'aggregate':
                add(img, None, Fraction(1))
        return img, 'party'
    if c == 'SubsettedVotes':
        S = set(spec['subset'])
        k = spec['subsetter']
        if k == 'simple':
            if b in S:
                add(img, b, Fraction(1))
        elif k == 'approval':
            add(img, frozenset(x for x in b if x in S), Fraction(1))
        elif k == 'ranked':
            out = []
            for it in b:
                if isinstance(it, frozenset):
                    sub = frozenset(x for x in it if x in S)
                    if len(sub) == 1:
                        out.append(next(iter(sub)))
                    elif sub:
                        out.append(sub)
                elif it in S:
                    out.append(it)
            add(img, tuple(out), Fraction(1))
        elif k == 'score':
            add(img, frozenset((x, s) for x, s in b if x in S), Fraction(1))
        return img, kind
    raise ValueError(c)


def universe(kind, prof):
    if kind == 'ranked':
        return ranked_universe(prof)
    if kind == 'approval':
        return sorted({c for b, _ in prof for c in b})
    if kind == 'score':
        return sorted({c for b, _ in prof for c, _ in b})
    if kind == 'simple':
        return sorted({b for b, _ in prof})
    return []


def ref_round(x, decimals, method='ROUND_HALF_UP'):
    """the documented rounding modes of the decimal module, on exact fractions"""
    import math
    s = x * 10 ** decimals
    sign = 1 if s >= 0 else -1
    a = abs(s)
    lo = math.floor(a)              # magnitude rounded toward zero
    frac = a - lo
    if method == 'ROUND_DOWN':
        q = lo
    elif method == 'ROUND_UP':
        q = lo + (1 if frac > 0 else 0)
    elif method == 'ROUND_CEILING':
        return Fraction(math.ceil(s), 10 ** decimals)
    elif method == 'ROUND_FLOOR':
        return Fraction(math.floor(s), 10 ** decimals)
    elif method == 'ROUND_HALF_UP':
        q = lo + (1 if frac >= Fraction(1, 2) else 0)
    elif method == 'ROUND_HALF_DOWN':
        q = lo + (1 if frac > Fraction(1, 2) else 0)
    elif method == 'ROUND_HALF_EVEN':
        q = lo + (1 if frac > Fraction(1, 2) or (frac == Fraction(1, 2) and lo % 2 == 1) else 0)
    elif method == 'ROUND_05UP':
        q = lo + (1 if frac > 0 and lo % 5 == 0 else 0)
    else:
        raise ValueError(method)
    return Fraction(sign * q, 10 ** decimals)


def ref_convert(spec, kind, prof):
    """expected output of a whole profile as (kind, {hashable key: Fraction}) — the sum of the documented
    ballot images — or raises Reject"""
    c = spec['c']
    if c == 'Chain':
        cur_kind, cur = kind, prof
        for s in spec['cs']:
            cur_kind, out = ref_convert(s, cur_kind, cur)
            cur = list(out.items())
        return cur_kind, dict(cur)
    if c == 'VoteTotals':
        out = {}
        for d, dv in prof:
            for k, w in dv:
                add(out, k, w)
        return INNER[0], out
    if c == 'ConstituencyTotals':
        return 'districts', {d: sum((w for _, w in dv), Fraction(0)) for d, dv in prof}
    if c == 'SubsettedVotes' and spec['depth'] == 1:
        S = set(spec['subset'])
        return 'nested', {d: {k: w for k, w in dv if k in S} for d, dv in prof}
    if c == 'SubsettedVotes' and spec['depth'] > 1:
        S = set(spec['subset'])

        def rec(t, depth):
            # documented: the nesting is kept, the innermost vote dictionaries are subsetted
            if depth == 0:
                return {k: w for k, w in t if k in S}
            return {d: rec(ch, depth - 1) for d, ch in t}
        return 'deep', rec(prof, spec['depth'])
    if c == 'RoundedVotes' and spec['decimals'] < 0:
        raise Reject('ValueError')          # documented: ValueError for an invalid number of decimal digits
    if c == 'RoundedVotes':
        return kind, {k: ref_round(w, spec['decimals'], spec.get('round_method', 'ROUND_HALF_UP')) for k, w in prof}
    if c == 'GroupVotesByParty':
        out = {}
        for b, w in prof:
            img, _ = ref_image(dict(spec, c='IndividualToPartyVotes'), kind, b, None)
            for p in img:
                out.setdefault(p, {})[b] = w
        return 'grouped', out
    U = universe(kind, prof)
    out = {}
    okind = None
    for b, w in prof:
        img, okind = ref_image(spec, kind, b, U)
        for k, v in img.items():
            add(out, k, v * w)
    if okind is None:
        okind = ref_image_kind(spec, kind)
    return okind, out


def ref_image_kind(spec, kind):
    return {'ApprovalToSimpleVotes': 'simple', 'RankedToFirstPreference': 'items', 'RankedToFirstNPreferences': 'approval',
            'RankedToPresenceCounts': 'simple', 'RankedToApprovalVotes': 'approval', 'RankedToPositionalVotes': 'simple',
            'RankedToCondorcetVotes': 'pairs', 'ScoreToRankedVotes': 'ranked', 'ScoreToApprovalVotesThreshold': 'approval',
            'InvertedApprovalVotes': 'approval', 'IndividualToPartyVotes': 'party'}.get(spec['c'], kind)


def enc_ref(out):
    """reference output -> canonical protocol with zero entries dropped"""
    res = []
    for k, v in out.items():
        if isinstance(v, dict):
            res.append([enc_h(k), enc_ref(v)])
        elif v != 0:
            res.append([enc_h(k), ns(v)])
    res.sort(key=lambda p: jkey(p[0]))
    return res


def drop_zeros(o):
    """finitely supported function view of a canonical protocol dict"""
    res = []
    for k, v in o:
        if isinstance(v, list):
            res.append([k, drop_zeros(v)])
        elif Fraction(v) != 0:
            res.append([k, v])
    return res


def sum_outs(a, b):
    d = {}
    order = {}
    for k, v in a + b:
        kk = jkey(k)
        order[kk] = k
        if isinstance(v, list):
            d[kk] = sum_outs(d.get(kk, []), v)
        else:
            d[kk] = ns(Fraction(d.get(kk, '0')) + Fraction(v))
    return sorted(([order[kk], v] for kk, v in d.items()), key=lambda p: jkey(p[0]))


ONE_ITEM = ('RankedToFirstPreference', 'RankedToFirstNPreferences', 'RankedToApprovalVotes', 'ScoreToRankedVotes',
            'ScoreToApprovalVotesThreshold', 'InvertedApprovalVotes', 'IndividualToPartyVotes', 'SubsettedVotes')


def total(o):
    return sum((Fraction(v) for _, v in o), Fraction(0))


def oracle_profile(spec, kind, prof, obs, where, single):
    """clauses violated by one conversion"""
    out = []
    hp = h_prof(kind, prof, spec.get('depth', 0) if kind == 'deep' else 0)
    try:
        okind, exp = ref_convert(spec, kind, hp)
        rej = None
    except Reject as r:
        rej = r.name
    if rej is not None:
        if not (isinstance(obs, dict) and 'err' in obs):
            out.append(('missing_error', f'{where}: the input has no documented image ({rej}) but a result was returned'))
        return out
    if isinstance(obs, dict) and 'err' in obs:
        out.append((f'raises:{obs["err"]}', f'{where}: {obs["err"]} on a valid profile'))
        return out
    got = drop_zeros(canon_out(obs))
    want = enc_ref(exp)
    if got != want:
        nested = spec['c'] == 'RankedToFirstNPreferences' and _nested_set_keys(got)
        clause = 'nested_set_image' if nested else ('single_image' if single else 'image_sum')
        out.append((clause, f'{where}: got {json.dumps(got)} expected sum of ballot images {json.dumps(want)}'))
    if spec['c'] in ONE_ITEM and not (spec['c'] == 'SubsettedVotes' and spec.get('depth')):
        # total weight is conserved where the image is one item per ballot
        U = universe(kind, hp)
        w_in = sum((w for b, w in hp if ref_image(spec, kind, b, U)[0]), Fraction(0))
        if total(got) != w_in:
            out.append(('weight_conservation', f'{where}: total {total(got)} out, {w_in} in'))
    if spec['c'] == 'RankedToCondorcetVotes':
        if all(len(set(flat(b))) == len(flat(b)) for b, _ in hp) and all(w >= 0 for _, w in hp):
            tot = sum((w for _, w in hp), Fraction(0))
            d = {jkey(k): Fraction(v) for k, v in got}
            for k, v in got:
                x, y = k
                v = Fraction(v)
                if x != y and v + d.get(jkey([y, x]), 0) > tot:
                    out.append(('pairwise_bound', f'{where}: d({x},{y})+d({y},{x}) = {v + d.get(jkey([y, x]), 0)} > {tot} ballots'))
                    break
                if x == y:
                    out.append(('pairwise_bound', f'{where}: a candidate beats itself on duplicate-free ballots'))
                    break
    return out


def _nested_set_keys(got):
    return any(isinstance(k, dict) and any(isinstance(x, dict) for x in k.get('set', [])) for k, _ in got)


def same_universe(case):
    kind = case['kind']
    if kind in ('nested', 'deep'):
        return True
    return universe(kind, h_prof(kind, case['A'])) == universe(kind, h_prof(kind, case['B']))


def additive_applies(case):
    spec = case['conv']
    names = [s['c'] for s in _flat(spec)]
    if any(n in UNIVERSE_DEPENDENT for n in names) and not same_universe(case):
        return False
    if 'RoundedVotes' in names:
        ka = {jkey(k) for k, _ in case['A']}
        kb = {jkey(k) for k, _ in case['B']}
        # rounding is per key: additive only when no key occurs in both halves (and only as the last step)
        return not (ka & kb) and names[-1] == 'RoundedVotes' and len(names) == 1
    if 'GroupVotesByParty' in names:
        ka = {jkey(k) for k, _ in case['A']}
        kb = {jkey(k) for k, _ in case['B']}
        return not (ka & kb)
    if spec['c'] == 'Chain' and any(n in UNIVERSE_DEPENDENT for n in names[1:]):
        return False        # the universe of a later stage is that of the intermediate profile
    return True


def oracle(case, obs):
    _set_inner(case)
    if case['op'] == 'util':
        return oracle_util(case, obs)
    spec, kind = case['conv'], case['kind']
    if isinstance(obs, dict) and 'err' in obs:
        return [(f'raises:{obs["err"]}', 'constructing the converter')]
    out = []
    for nm in ('A', 'B', 'AB'):
        out += oracle_profile(spec, kind, case[nm], obs[nm], nm, False)
    for i, s in enumerate(case['singles']):
        out += oracle_profile(spec, kind, s, obs['singles'][i], f'single[{i}]', True)
    oa, ob, oab = obs['A'], obs['B'], obs['AB']
    if all(not (isinstance(o, dict) and 'err' in o) for o in (oa, ob, oab)) and additive_applies(case):
        s = drop_zeros(sum_outs(canon_out(oa), canon_out(ob)))
        g = drop_zeros(canon_out(oab))
        if s != g:
            out.append(('additivity', f'convert(A+B) = {json.dumps(g)} but convert(A) + convert(B) = {json.dumps(s)}'))
    for pr in obs.get('alias', []):
        out.append((pr, {'input_mutated': 'convert() changed the dictionary it was given',
                         'output_aliases_input': 'the returned dictionary shares a dict object with the input',
                         'output_aliases_earlier_output': 'the returned dictionary shares a dict object with one returned earlier',
                         'earlier_output_changed': 'a dictionary returned earlier changed during later calls',
                         'converter_state_changed': "the converter's own attributes changed during convert()"}.get(pr, pr)))
    # one clause code once
    seen, res = set(), []
    for cl, d in out:
        if cl not in seen:
            seen.add(cl)
            res.append((cl, d))
    return res


def oracle_util(case, obs):
    if isinstance(obs, dict) and 'err' in obs:
        return [(f'raises:{obs["err"]}', 'util')]
    hp = h_prof('ranked', case['votes'])
    out = []
    arc = obs['all_ranked_candidates']
    if sorted(arc) != ranked_universe(hp) or len(set(arc)) != len(arc):
        out.append(('all_ranked_candidates', f'{arc} is not the duplicate-free list of {ranked_universe(hp)}'))
    want = sorted([c, r, ns(w)] for b, w in hp for r, it in enumerate(b) for c in item_cands(it))
    if sorted(obs['all_rankings']) != want:
        out.append(('all_rankings', 'not the multiset of (candidate, rank, count) of the ballots'))
    ranks = [r for _, r, _ in obs['all_rankings']]
    if ranks != sorted(ranks):
        out.append(('all_rankings_order', 'not rank-major'))
    first = {}
    for c, r, _ in obs['all_rankings']:
        first.setdefault(c, len(first))
    if [c for c, _ in sorted(first.items(), key=lambda p: p[1])] != arc:
        out.append(('all_ranked_candidates_order', 'not in first-occurrence order'))
    return out


def signature(case, clause):
    if case['op'] == 'util':
        return f'util:{clause}'
    return f"{case['conv']['c']}:{clause}"


def compare(case, iobs, mobs):
    if case['op'] == 'util':
        if isinstance(iobs, dict) and 'err' in iobs:
            return None if iobs == mobs else f'impl={iobs} model={mobs}'
        a = iobs['all_ranked_candidates'] == mobs['all_ranked_candidates']
        b = iobs['all_rankings'] == mobs['all_rankings']
        return None if a and b else f'impl={json.dumps(iobs)} model={json.dumps(mobs)}'
    if isinstance(iobs, dict) and 'err' in iobs:
        return f'impl={iobs}'
    diffs = []
    for nm in ('A', 'B', 'AB'):
        if canon_out(iobs[nm]) != canon_out(mobs[nm]):
            diffs.append(f'{nm}: impl={json.dumps(canon_out(iobs[nm]))} model={json.dumps(canon_out(mobs[nm]))}')
    for i, (x, y) in enumerate(zip(iobs['singles'], mobs['singles'])):
        if canon_out(x) != canon_out(y):
            diffs.append(f'single[{i}]: impl={json.dumps(canon_out(x))} model={json.dumps(canon_out(y))}')
    return '; '.join(diffs[:3]) if diffs else None


def model_line(case):
    c = strip_case(case)
    if case['op'] == 'util':
        return c
    if case['kind'] == 'nested' and case.get('inner', 'simple') != 'simple':
        c['kind'] = 'nested_' + case['inner']
    return c


def nontrivial(case, obs):
    if case['op'] == 'util':
        return len(case['votes']) >= 2
    return len(case['AB']) >= 2 and not (isinstance(obs.get('AB'), dict) and 'err' in obs['AB'])


def describe(case):
    if case['op'] == 'util':
        return f"util.all_rankings({prof_py('ranked', case['votes'], Ctx({'c': 'none'}, names=case.get('names', 'str')))!r})"
    _set_inner(case)
    ctx = _ctx(case)
    dp = case.get('depth', 0)
    return (f"{json.dumps(case['conv'])}.convert on A={prof_py(case['kind'], case['A'], ctx, dp)!r}, "
            f"B={prof_py(case['kind'], case['B'], ctx, dp)!r}, A+B={prof_py(case['kind'], case['AB'], ctx, dp)!r}")


# ------------------------------------------------------------------------------------------------
# case construction

def merge(a, b):
    """the dict sum A+B at protocol level (A's keys first, then B's new keys)"""
    d, order = {}, []
    for k, w in a + b:
        kk = jkey(k)
        if kk not in d:
            d[kk] = [k, Fraction(0)]
            order.append(kk)
        d[kk][1] += Fraction(w)
    return [[d[kk][0], ns(d[kk][1])] for kk in order]


def merge_nested(a, b):
    d, order = {}, []
    for dist, dv in a + b:
        if dist not in d:
            d[dist] = []
            order.append(dist)
        d[dist] = merge(d[dist], dv)
    return [[dist, d[dist]] for dist in order]


def merge_deep(a, b, depth):
    """key-wise recursive dict sum of two nested dictionaries of the given depth"""
    if depth == 0:
        return merge(a, b)
    d, order = {}, []
    for k, ch in a + b:
        if k not in d:
            d[k] = [] if depth > 1 else []
            order.append(k)
        d[k] = merge_deep(d[k], ch, depth - 1)
    return [[k, d[k]] for k in order]


def deep_leaves(t, depth, path=()):
    if depth == 0:
        for kv in t:
            yield path, kv
    else:
        for k, ch in t:
            yield from deep_leaves(ch, depth - 1, path + (k,))


def deep_single(path, kv):
    t = [kv]
    for k in reversed(path):
        t = [[k, t]]
    return t


def dedupe(prof):
    return merge(prof, [])


DEC_OK = ('RankedToFirstPreference', 'RankedToFirstNPreferences', 'RankedToPresenceCounts', 'RankedToApprovalVotes',
          'RankedToCondorcetVotes', 'ScoreToRankedVotes', 'ScoreToApprovalVotesThreshold', 'SubsettedVotes', 'VoteTotals',
          'ConstituencyTotals', 'InvertedSimpleVotes', 'InvertedApprovalVotes', 'IndividualToPartyVotes', 'GroupVotesByParty')


def finish(conv, kind, A, B, tags, dec=False, inner='simple'):
    INNER[0] = inner
    depth = conv.get('depth', 0) if kind == 'deep' else 0
    if kind == 'deep':
        A, B = merge_deep([], A, depth), merge_deep([], B, depth)
        AB = merge_deep(A, B, depth)
        singles = [deep_single(path, kv) for path, kv in deep_leaves(AB, depth)][:4]
    elif kind == 'nested':
        A, B = merge_nested(A, []), merge_nested(B, [])
        AB = merge_nested(A, B)
        singles = [[[d, [kv]]] for d, dv in AB for kv in dv][:4]
    else:
        A, B = dedupe(A), dedupe(B)
        AB = merge(A, B)
        singles = [[[k, '1']] for k, _ in AB][:6]
    case = {'op': 'convert', 'conv': conv, 'kind': kind, 'A': A, 'B': B, 'AB': AB, 'singles': singles,
            '_tags': list(tags)}
    if inner != 'simple':
        case['inner'] = inner
        case['_tags'].append('nested_inner:' + inner)
    if kind == 'deep':
        case['depth'] = depth
        case['_tags'].append(f'subset_depth:{depth}')
    if dec and conv['c'] in DEC_OK or (dec and conv['c'] == 'ApprovalToSimpleVotes' and not conv['split']):
        if kind == 'deep':
            ws = [kv[1] for x in (A, B, AB) for _, kv in deep_leaves(x, depth)]
        else:
            ws = [w for _, w in A + B + AB] if kind != 'nested' else [w for _, dv in A + B + AB for _, w in dv]
        if all(_dec_ok(Fraction(w)) for w in ws) and any(Fraction(w).denominator != 1 for w in ws):
            case['dec'] = True
            case['_tags'].append('decimal_weight')
    return tag_case(case)


def tag_case(case):
    tags = set(t for t in case.get('_tags', []) if not t.startswith(('scorer:', 'roundm:', 'independents:', 'subsetter:')))
    spec, kind = case['conv'], case['kind']
    tags.add('conv:' + spec['c'])
    for s in _flat(spec):
        if s['c'] == 'RoundedVotes':
            tags.add('roundm:' + s.get('round_method', 'default'))
        if s['c'] == 'RankedToPositionalVotes':
            tags.add('scorer:' + s['scorer']['s'])
        if s['c'] == 'SubsettedVotes':
            tags.add('subsetter:' + s['subsetter'])
        if s['c'] == 'ApprovalToSimpleVotes':
            tags.add('split' if s['split'] else 'unsplit')
        if s['c'] == 'RankedToCondorcetVotes':
            tags.add('condorcet_bottom' if s['unranked_at_bottom'] else 'condorcet_nobottom')
        if s['c'] == 'ScoreToRankedVotes' and s.get('unscored_value') is not None:
            tags.add('unscored_value')
    ka = {jkey(k) for k, _ in case['A']}
    kb = {jkey(k) for k, _ in case['B']}
    if ka & kb:
        tags.add('overlap_AB')
    if spec['c'] == 'RoundedVotes':
        tags.add('rounded_overlap' if ka & kb else 'rounded_disjoint')
    if kind not in ('nested', 'deep'):
        if any(Fraction(w).denominator != 1 for k, w in case['AB']):
            tags.add('fraction_weight')
        if any(Fraction(w) < 0 for k, w in case['AB']):
            tags.add('negative_weight')
    if kind == 'ranked':
        hp = h_prof(kind, case['AB'])
        if any(isinstance(it, frozenset) for b, _ in hp for it in b):
            tags.add('shared_rank')
        U = ranked_universe(hp)
        if any(b and len(set(flat(b))) < len(U) for b, _ in hp):
            tags.add('truncated')
        if any(len(b) == 0 for b, _ in hp):
            tags.add('empty_ballot')
        if any(len(set(flat(b))) != len(flat(b)) for b, _ in hp):
            tags.add('duplicate_candidate')
        for s in _flat(spec):
            if s['c'] == 'RankedToPositionalVotes' and s['scorer']['s'] == 'Borda' and any(len(b) > len(U) for b, _ in hp):
                tags.add('borda_too_many_ranks')
    if same_universe(case) and any(s['c'] in UNIVERSE_DEPENDENT for s in _flat(spec)):
        tags.add('same_universe')
    # two distinct ballots with the same one-item image
    if spec['c'] in ONE_ITEM and kind not in ('nested', 'deep') and not spec.get('depth'):
        hp = h_prof(kind, case['AB'])
        U = universe(kind, hp)
        seen = set()
        try:
            for b, _ in hp:
                img, _k = ref_image(spec, kind, b, U)
                for k in img:
                    kk = jkey(enc_h(k))
                    if kk in seen:
                        tags.add('shared_image')
                    seen.add(kk)
        except Reject:
            pass
    elif kind not in ('nested', 'deep') and len(case['AB']) >= 2:
        hp = h_prof(kind, case['AB'])
        U = universe(kind, hp)
        try:
            keysets = [set(jkey(enc_h(k)) for k in ref_image(spec, kind, b, U)[0]) for b, _ in hp] \
                if spec['c'] not in ('Chain', 'RoundedVotes', 'GroupVotesByParty', 'VoteTotals', 'ConstituencyTotals') else []
            if any(x & y for x, y in itertools.combinations(keysets, 2)):
                tags.add('shared_image')
        except Reject:
            pass
    case['_tags'] = sorted(tags)
    return case


def rnd_weight(rng, mode='mixed'):
    r = rng.random()
    if mode == 'int' or r < 0.6:
        return ns(rng.choice([1, 1, 2, 2, 3, 5, 7]))
    if r < 0.67:
        return '0'
    if r < 0.92:
        return ns(Fraction(rng.randint(1, 9), rng.choice([2, 3, 4, 6])))
    if r < 0.955:
        return ns(-rng.randint(1, 3))
    if r < 0.97:
        return ns(Fraction(rng.randint(1, 9 * 10 ** 7), 10 ** 7))            # 7 decimals
    if r < 0.985:
        return ns(10 ** rng.choice([9, 12]) + rng.randint(0, 3))
    return ns(rng.choice([2 ** 53, 2 ** 53 + 1, 2 ** 53 - 1, 10 ** 18 + 1, 10 ** 30, 10 ** 400 + 7]))


def rnd_ranked(rng, m, wild=True):
    """one ranked ballot over candidates 0..m-1"""
    r = rng.random()
    if r < 0.06:
        return []
    k = rng.randint(1, m)
    cands = rng.sample(range(m), k)
    items = []
    i = 0
    while i < len(cands):
        if rng.random() < 0.25 and i + 1 < len(cands):
            sz = rng.randint(2, min(3, len(cands) - i))
            items.append({'set': sorted(cands[i:i + sz])})
            i += sz
        elif rng.random() < 0.05:
            items.append({'set': [cands[i]]})
            i += 1
        else:
            items.append(cands[i])
            i += 1
    if wild and rng.random() < 0.04:
        items.insert(rng.randint(0, len(items)), {'set': []})
    if wild and rng.random() < 0.05:
        items.append(rng.choice(cands))      # a repeated candidate
    return items


def variant_ranked(rng, b, how):
    b = list(b)
    if how == 'perm':
        rng.shuffle(b)
    elif how == 'tail' and len(b) > 2:
        t = b[1:]
        rng.shuffle(t)
        b = b[:1] + t
    elif how == 'unshare':
        b = [x for it in b for x in (it['set'] if isinstance(it, dict) else [it])]
    return b


def rnd_approval(rng, m):
    if rng.random() < 0.08:
        return {'set': []}
    return {'set': sorted(rng.sample(range(m), rng.randint(1, m)))}


def rnd_score(rng, m):
    if rng.random() < 0.06:
        return {'set': []}
    cs = rng.sample(range(m), rng.randint(1, m))
    pool = [0, 1, 2, 3, 3, 5, Fraction(1, 2), -1]
    r = rng.random()
    if r < 0.06:
        pool = [2 ** 53, 2 ** 53 + 1, 2 ** 53 - 1, 10 ** 18, 10 ** 18 + 1]              # distinct only as exact integers
    elif r < 0.12:
        pool = [1, Fraction(10 ** 12 + 1, 10 ** 12), Fraction(10 ** 12 - 1, 10 ** 12), 2]   # differ in the 12th digit
    elif r < 0.2:
        pool = [0, 1, Fraction(5, 4), Fraction(1234567, 10 ** 7), Fraction(1, 8), 3]        # decimal / dyadic friendly
    vals = [ns(rng.choice(pool)) for _ in cs]
    return {'set': sorted([[c, v] for c, v in zip(cs, vals)])}


def split(rng, ballots, mode='mixed'):
    """distribute distinct ballots over A and B; some go to both halves with different weights"""
    A, B = [], []
    for b in ballots:
        r = rng.random()
        if r < 0.35:
            A.append([b, rnd_weight(rng, mode)])
        elif r < 0.7:
            B.append([b, rnd_weight(rng, mode)])
        else:
            A.append([b, rnd_weight(rng, mode)])
            B.append([b, rnd_weight(rng, mode)])
    return A, B


def cover(rng, kind, A, B, m):
    """make both halves mention every candidate 0..m-1 (profiles 'over the same candidates')"""
    for half in (A, B):
        if kind == 'ranked':
            have = {c for b, _ in half for it in b for c in (it['set'] if isinstance(it, dict) else [it])}
            miss = [c for c in range(m) if c not in have]
            if miss:
                rng.shuffle(miss)
                half.append([miss, rnd_weight(rng)])
        elif kind == 'approval':
            have = {c for b, _ in half for c in b['set']}
            miss = [c for c in range(m) if c not in have]
            if miss:
                half.append([{'set': sorted(miss)}, rnd_weight(rng)])
        elif kind == 'score':
            have = {c for b, _ in half for c, _ in b['set']}
            miss = [c for c in range(m) if c not in have]
            if miss:
                half.append([{'set': sorted([c, ns(rng.randint(0, 3))] for c in miss)}, rnd_weight(rng)])


def rnd_scorer(rng, name=None):
    name = name or rng.choice(SCORERS)
    if name == 'Borda':
        return {'s': 'Borda', 'base': rng.choice([1, 1, 0, 2, -1])}
    if name == 'Geometric':
        return {'s': 'Geometric', 'base': rng.choice([2, 2, 3, 1, 0] if rng.random() < 0.2 else [2, 3, 10, 10])}
    if name == 'FixedTop':
        return {'s': 'FixedTop', 'top': rng.choice([0, 1, 2, 3, 5])}
    if name == 'SequenceBased':
        return {'s': 'SequenceBased', 'sequence': [ns(rng.choice([12, 10, 8, 5, 3, 1, Fraction(1, 2), 0]))
                                                   for _ in range(rng.randint(0, 4))]}
    return {'s': name}


def rnd_spec(rng, name, m):
    sp, kind = _rnd_spec(rng, name, m)
    if rng.random() < 0.5:
        sp['defaults'] = True
    return sp, kind


def _rnd_spec(rng, name, m):
    if name == 'ApprovalToSimpleVotes':
        return {'c': name, 'split': rng.random() < 0.5}, 'approval'
    if name == 'RankedToFirstNPreferences':
        return {'c': name, 'n': rng.choice([1, 2, 2, 3, 0, -1])}, 'ranked'
    if name == 'RankedToPositionalVotes':
        return {'c': name, 'scorer': rnd_scorer(rng)}, 'ranked'
    if name == 'RankedToCondorcetVotes':
        return {'c': name, 'unranked_at_bottom': rng.random() < 0.6}, 'ranked'
    if name in ('RankedToFirstPreference', 'RankedToPresenceCounts', 'RankedToApprovalVotes'):
        return {'c': name}, 'ranked'
    if name == 'ScoreToRankedVotes':
        return {'c': name, 'unscored_value': None if rng.random() < 0.4 else
                ns(rng.choice([0, 0, 1, 2, -1, -3, Fraction(1, 2), 7, 10 ** 18 + 2]))}, 'score'
    if name == 'ScoreToApprovalVotesThreshold':
        return {'c': name, 'threshold': ns(rng.choice([0, 1, 2, 3, Fraction(1, 2), 4, -1, Fraction(5, 4), 2 ** 53 + 1, 1]))}, 'score'
    if name == 'InvertedSimpleVotes':
        return {'c': name}, 'simple'
    if name == 'InvertedApprovalVotes':
        return {'c': name}, 'approval'
    if name in ('IndividualToPartyVotes', 'GroupVotesByParty'):
        aff = [[c, rng.randint(0, 2)] for c in range(m) if rng.random() < 0.7]
        return {'c': name, 'aff': aff, 'independents': rng.choice(['aggregate', 'keep', 'ignore', 'aggregate', 'error']),
                'affiliation': rng.choice(['candidacy_for', 'membership'])}, 'simple'
    if name in ('VoteTotals', 'ConstituencyTotals'):
        return {'c': name}, 'nested'
    if name == 'SubsettedVotes':
        k = rng.choice(SUBSETTERS)
        r = rng.random()
        if r < 0.12:
            sub = []
        elif r < 0.24:
            sub = list(range(m))                                    # every candidate
        elif r < 0.36:
            sub = list(range(m + 2))                                # a superset: candidates nobody voted for
        else:
            sub = rng.sample(range(m + 1), rng.randint(0, m))
        if rng.random() < 0.3 and k == 'simple':
            dp = rng.choice([1, 1, 2, 2, 3])
            return {'c': name, 'subsetter': k, 'subset': sub, 'depth': dp, 'subset_container': rng.choice(SUBSET_CONTAINERS)}, \
                'nested' if dp == 1 else 'deep'
        return {'c': name, 'subsetter': k, 'subset': sub, 'depth': 0, 'subset_container': rng.choice(SUBSET_CONTAINERS)}, \
            {'simple': 'simple', 'approval': 'approval', 'ranked': 'ranked', 'score': 'score'}[k]
    if name == 'RoundedVotes':
        sp = {'c': name, 'decimals': rng.choice([0, 1, 1, 2, 2, 3, 3, 0, 1, 2, -1])}
        if rng.random() < 0.6:
            sp['round_method'] = rng.choice(ROUND_METHODS)
        return sp, rng.choice(['simple', 'simple', 'approval', 'ranked'])
    raise ValueError(name)


CHAINS = [
    (['RankedToApprovalVotes', 'ApprovalToSimpleVotes'], 'ranked'),
    (['RankedToApprovalVotes', 'InvertedApprovalVotes'], 'ranked'),
    (['RankedToApprovalVotes', 'InvertedApprovalVotes', 'ApprovalToSimpleVotes'], 'ranked'),
    (['RankedToPresenceCounts', 'InvertedSimpleVotes'], 'ranked'),
    (['RankedToPositionalVotes', 'InvertedSimpleVotes'], 'ranked'),
    (['RankedToPositionalVotes', 'RoundedVotes'], 'ranked'),
    (['RankedToPresenceCounts', 'RoundedVotes'], 'ranked'),
    (['RankedToFirstPreference', 'RoundedVotes'], 'ranked'),
    (['RankedToCondorcetVotes', 'RoundedVotes'], 'ranked'),
    (['RankedToApprovalVotes', 'ApprovalToSimpleVotes', 'RoundedVotes'], 'ranked'),
    (['VoteTotals', 'RoundedVotes'], 'nested'),
    (['InvertedSimpleVotes', 'RoundedVotes'], 'simple'),
    (['RankedToFirstPreference', 'InvertedSimpleVotes'], 'ranked'),
    (['ScoreToRankedVotes', 'RankedToFirstPreference'], 'score'),
    (['ScoreToRankedVotes', 'RankedToCondorcetVotes'], 'score'),
    (['ScoreToRankedVotes', 'RankedToPositionalVotes'], 'score'),
    (['ScoreToRankedVotes', 'RankedToApprovalVotes', 'ApprovalToSimpleVotes'], 'score'),
    (['ScoreToApprovalVotesThreshold', 'ApprovalToSimpleVotes'], 'score'),
    (['ScoreToApprovalVotesThreshold', 'InvertedApprovalVotes'], 'score'),
    (['InvertedApprovalVotes', 'InvertedApprovalVotes'], 'approval'),
    (['InvertedSimpleVotes', 'InvertedSimpleVotes'], 'simple'),
    (['InvertedSimpleVotes', 'IndividualToPartyVotes'], 'simple'),
    (['VoteTotals', 'InvertedSimpleVotes'], 'nested'),
    (['VoteTotals', 'IndividualToPartyVotes'], 'nested'),
    ([], 'simple'),
]


def rnd_chain(rng, m):
    names, kind = rng.choice(CHAINS)
    cs = []
    for n in names:
        s, _ = rnd_spec(rng, n, m)
        if n == 'ApprovalToSimpleVotes' and s['split']:
            s['split'] = rng.random() < 0.3
        cs.append(s)
    return {'c': 'Chain', 'cs': cs}, kind


def rnd_ballots(rng, kind, m, n):
    out, seen = [], set()
    for _ in range(n * 3):
        if kind == 'ranked':
            b = rnd_ranked(rng, m)
        elif kind == 'approval':
            b = rnd_approval(rng, m)
        elif kind == 'score':
            b = rnd_score(rng, m)
        elif kind == 'simple':
            b = rng.randrange(m)
        else:
            raise ValueError(kind)
        if jkey(b) not in seen:
            seen.add(jkey(b))
            out.append(b)
        if len(out) >= n:
            break
    return out


def rnd_deep(rng, m, depth):
    if depth == 0:
        cs = rng.sample(range(m), rng.randint(0, m))
        return [[c, rnd_weight(rng)] for c in cs]
    return [[d, rnd_deep(rng, m, depth - 1)] for d in range(rng.randint(1, 3)) if rng.random() < 0.75]


def rnd_nested(rng, m, inner='simple'):
    nd = rng.randint(1, 3)
    A, B = [], []
    for d in range(nd):
        for half in (A, B):
            if rng.random() < 0.75:
                if inner == 'simple':
                    cs = rng.sample(range(m), rng.randint(0, m))
                else:
                    cs = rnd_ballots(rng, inner, m, rng.randint(0, 4))
                half.append([d, [[c, rnd_weight(rng)] for c in cs]])
    return A, B


def cap_counts(kind, prof):
    """Decimal.quantize works with 28 significant digits: keep the counts that reach RoundedVotes below 10^20"""
    def cap(w):
        return w if abs(Fraction(w)) < 10 ** 20 else ns(10 ** 12 + 3)
    if kind == 'nested':
        return [[d, [[k, cap(w)] for k, w in dv]] for d, dv in prof]
    return [[k, cap(w)] for k, w in prof]


def gen_case(rng, name=None, tags=(), big=False):
    m = rng.randint(5, 8) if big else rng.randint(2, 5)
    name = name or rng.choice(CONVERTERS)
    if name == 'Chain':
        spec, kind = rnd_chain(rng, m)
    else:
        spec, kind = rnd_spec(rng, name, m)
    if kind == 'deep':
        return finish(spec, kind, rnd_deep(rng, m, spec['depth']), rnd_deep(rng, m, spec['depth']), tags,
                      dec=rng.random() < 0.3)
    if kind == 'nested':
        inner = rng.choice(['simple', 'simple', 'ranked', 'approval']) if spec['c'] in ('VoteTotals', 'ConstituencyTotals') else 'simple'
        A, B = rnd_nested(rng, m, inner)
        if any(s['c'] == 'RoundedVotes' for s in _flat(spec)):
            A, B = cap_counts(kind, A), cap_counts(kind, B)
        return finish(spec, kind, A, B, tags, dec=rng.random() < 0.3, inner=inner)
    n = rng.randint(6, 14) if big else rng.randint(1, 6)
    ballots = rnd_ballots(rng, kind, m, n)
    split_frac = any(s['c'] == 'ApprovalToSimpleVotes' and s['split'] for s in _flat(spec))
    A, B = split(rng, ballots)
    if split_frac and rng.random() < 0.85:       # Fraction(n, len) of an empty set raises: keep it rare
        A = [e for e in A if e[0]['set']] if kind == 'approval' else A
        B = [e for e in B if e[0]['set']] if kind == 'approval' else B
    # distinct ballots that share an image, one in each half
    if kind == 'ranked' and A and rng.random() < 0.5:
        b = rng.choice(A)[0]
        B.append([variant_ranked(rng, b, rng.choice(['perm', 'tail', 'unshare'])), rnd_weight(rng)])
    if kind == 'score' and A and rng.random() < 0.4:
        b = rng.choice(A)[0]
        B.append([{'set': [[c, ns(Fraction(s) * 2 + 3)] for c, s in b['set']]}, rnd_weight(rng)])
    names = [s['c'] for s in _flat(spec)]
    if any(nm in UNIVERSE_DEPENDENT for nm in names) and rng.random() < 0.8:
        cover(rng, kind, A, B, m)
    if 'RoundedVotes' in names:
        A, B = cap_counts(kind, A), cap_counts(kind, B)
    if 'RoundedVotes' in names and spec['c'] == 'RoundedVotes':
        # counts that sit exactly on a rounding tie, just beside it, and negative ones
        d = max(spec['decimals'], 0)
        friendly = rng.random() < 0.6          # every count exactly representable as a Decimal
        def tie(w):
            r = rng.random()
            base = Fraction(rng.randint(-12, 40), 10 ** d)
            if r < 0.4:
                return ns(base + Fraction(1, 2 * 10 ** d))              # exact half, even and odd digit before it
            if r < 0.55:
                return ns(base + Fraction(rng.choice([1, 2, 4, 3, 6, 7]), 8 * 10 ** d))
            if r < 0.7:
                return ns(base + Fraction(rng.choice([1, 29, 49, 51, 99]), 100 * 10 ** d))   # 1.29-like, not a half
            if friendly and not _dec_ok(Fraction(w)):
                return ns(base)
            return w
        A = [[k, tie(w)] for k, w in A]
        B = [[k, tie(w)] for k, w in B]
    if 'RoundedVotes' in names and rng.random() < 0.5:
        ka = {jkey(k) for k, _ in A}
        B = [e for e in B if jkey(e[0]) not in ka]
    c = finish(spec, kind, A, B, tags, dec=rng.random() < 0.3)
    if spec['c'] == 'RoundedVotes':
        c['_force_num'] = rng.choice(NUM_MODES)     # same values, every admissible type
    return c


def _all_numbers(case):
    """(vote counts, other numbers) of a case as Fractions"""
    kind, depth = case['kind'], case.get('depth', 0)
    ws, others = [], []
    for nm in ('A', 'B', 'AB'):
        x = case[nm]
        if kind == 'deep':
            ws += [Fraction(kv[1]) for _, kv in deep_leaves(x, depth)]
        elif kind == 'nested':
            ws += [Fraction(w) for _, dv in x for _, w in dv]
        else:
            ws += [Fraction(w) for _, w in x]
            if kind == 'score':
                others += [Fraction(sc) for k, _ in x for _, sc in k['set']]
    return ws, others


def num_mode_ok(case, mode):
    if mode in ('auto', 'frac'):
        return True
    ws, _ = _all_numbers(case)
    if case['conv']['c'] == 'RoundedVotes':
        # documented: "convertible to Decimal (Fraction and any types accepted by the decimal constructor)"; the counts
        # are rounded one by one, so counts the type cannot hold exactly may stay Fractions next to the typed ones
        fits = _dec_ok if mode in ('dec', 'dec_all') else _float_ok
        return any(fits(w) and (w.denominator != 1 or mode == 'dec_all') for w in ws)
    for s in _flat(case['conv']):
        if not (s['c'] in DEC_OK or s['c'] == 'RoundedVotes' or (s['c'] == 'ApprovalToSimpleVotes' and not s['split'])):
            return False
    ok = _dec_ok if mode in ('dec', 'dec_all') else (lambda f: f.denominator == 1 and abs(f) < 2 ** 40 or _float_ok(f))
    if not all(ok(w) for w in ws):
        return False
    return mode == 'dec_all' or any(w.denominator != 1 for w in ws)


def vary(case, rng, names=None, num=None, order=None, warm=None, dclash=None):
    """naming mode of the candidates, numeric type of the counts, order of the calls on the one converter
    object, a sibling object used first, constituencies named like candidates"""
    if case['op'] != 'convert':
        if names or rng.random() < 0.3:
            case['names'] = names or rng.choice(NAME_KINDS[1:])
            case['_tags'] = sorted(set(case['_tags']) | {'names:' + case['names']})
        return case
    tags = set(case['_tags'])
    if case.get('dec') and not case.get('num'):
        case['num'] = 'dec'
    nm = names if names is not None else (rng.choice(NAME_KINDS[1:]) if rng.random() < 0.3 else 'str')
    if nm != 'str':
        case['names'] = nm
    if num is None and case.get('_force_num'):
        num = case.pop('_force_num')
    mode = num if num is not None else (rng.choice(NUM_MODES[1:]) if rng.random() < 0.35 else None)
    if mode and num_mode_ok(case, mode):
        case['num'] = mode
        case.pop('dec', None)
    od = order if order is not None else rng.choice([None, None, 'asc', 'desc'])
    if od:
        case['order'] = od
    if warm if warm is not None else rng.random() < 0.2:
        case['warm'] = True
    if case['kind'] in ('nested', 'deep') and (dclash if dclash is not None else rng.random() < 0.3):
        case['dclash'] = True
    return retag(case)


def retag(case):
    tags = set(case['_tags'])
    tags.add('names:' + case.get('names', 'str'))
    tags.add('num:' + (case.get('num') or ('dec' if case.get('dec') else 'auto')))
    tags.discard('decimal_weight')
    if case.get('num') in ('dec', 'dec_all') or case.get('dec'):
        tags.add('decimal_weight')
    tags.add('order:' + case.get('order', 'default'))
    if case.get('warm'):
        tags.add('sibling_first')
    if case.get('dclash'):
        tags.add('district_named_like_candidate')
    ws, others = _all_numbers(case)
    mode = case.get('num') or 'auto'
    if mode in ('frac', 'dec_all') and any(w == 0 for w in ws):
        tags.add('falsy_zero_count')                 # Fraction(0) / Decimal('0')
    if mode in ('dec', 'dec_all') and any(w.denominator >= 10 ** 7 for w in ws):
        tags.add('decimal7')
    if any(abs(w) >= 2 ** 53 for w in ws):
        tags.add('big_weight')
    if any(abs(x) >= 2 ** 53 for x in others):
        tags.add('big_score')
    if any(0 < abs(x - y) < Fraction(1, 10 ** 9) for x in set(others) for y in set(others)):
        tags.add('close_scores')
    if sum(1 for w in ws[:len(ws)] if w == 0) >= 2:
        tags.add('zero_weight2')
    spec, kind = case['conv'], case['kind']
    for s in _flat(spec):
        if s['c'] == 'RoundedVotes':
            tags.add('rounded_decimals:%d' % s['decimals'])
            d = max(s['decimals'], 0)
            typed = _dec_ok if mode in ('dec', 'dec_all') else (_float_ok if mode == 'float' else (lambda f: True))
            if any(typed(w) for w in ws):
                tags.add('rounded_num:' + mode + ('_chain' if spec['c'] == 'Chain' else ''))
            if spec['c'] == 'RoundedVotes':
                for w in ws:
                    x = w * 10 ** d
                    if x.denominator == 2 and typed(w):
                        tags.add('rounded_half_%s_digit:%s' % ('even' if (abs(x.numerator) // 2) % 2 == 0 else 'odd', mode))
    cands = _case_candidates(case)
    empty_prof = not case['AB']
    only_empty = bool(case['AB']) and _only_empty(case)
    if empty_prof:
        tags.add('empty_profile:' + spec['c'])
    if only_empty:
        tags.add('only_empty_ballots:' + spec['c'])
    if kind not in ('nested', 'deep') and spec['c'] in ONE_ITEM and not spec.get('depth'):
        try:
            INNER[0] = 'simple'
            hp = h_prof(kind, case['AB'])
            U = universe(kind, hp)
            cnt = {}
            for b, _ in hp:
                for k in ref_image(spec, kind, b, U)[0]:
                    kk = jkey(enc_h(k))
                    cnt[kk] = cnt.get(kk, 0) + 1
            if any(v >= 3 for v in cnt.values()):
                tags.add('shared_image_3plus')
        except Reject:
            pass
    for s in _flat(spec):
        if s['c'] == 'RankedToPositionalVotes' and s['scorer']['s'] == 'Borda' and kind == 'ranked':
            for nm in ('A', 'B', 'AB'):
                hp = h_prof(kind, case[nm])
                U = ranked_universe(hp)
                if sum(1 for b, _ in hp if len(b) > len(U)) >= 2:
                    tags.add('two_refused_ballots')
        if s['c'] in ('IndividualToPartyVotes', 'GroupVotesByParty') and s['independents'] == 'error' and kind == 'simple':
            mapped = {c for c, _ in s['aff']}
            if len({k for k, _ in case['AB']} - mapped) >= 2:
                tags.add('two_refused_ballots')
        if s['c'] == 'SubsettedVotes':
            S = set(s['subset'])
            rel = 'empty' if not S else 'full' if S == cands and cands else 'superset' if S > cands and cands else \
                'disjoint' if not (S & cands) else 'partial'
            tags.add('subset:%s:%s' % (rel, s['subsetter']))
            if s['depth'] >= 1:
                tags.add('subset_deep:' + rel)
            tags.add('subset_container:' + s.get('subset_container', 'list'))
    for s in _flat(spec):
        if s['c'] == 'SubsettedVotes' and not s['subset']:
            tags.add('empty_subset')
        if s['c'] in ('IndividualToPartyVotes', 'GroupVotesByParty'):
            mapped = {c for c, _ in s['aff']}
            keys = {k for k, _ in case['AB']} if kind == 'simple' else set()
            if keys - mapped:
                tags.add('unmapped_candidate')
            tags.add('independents:' + s['independents'])
            tags.add('affiliation:' + s.get('affiliation', 'candidacy_for'))
        if s['c'] == 'RankedToPositionalVotes':
            sc = s['scorer']
            if sc['s'] == 'Borda' and sc['base'] != 1:
                tags.add('borda_base_nondefault')
            if sc['s'] == 'Geometric' and sc['base'] not in (2,):
                tags.add('geometric_base_nondefault')
            if sc['s'] == 'Geometric' and sc['base'] == 10:
                tags.add('geometric_base_10')
            if sc['s'] == 'SequenceBased' and kind == 'ranked' and \
                    any(len(b) > len(sc['sequence']) for b, _ in case['AB']):
                tags.add('sequence_shorter_than_ballot')
            if sc['s'] == 'ModifiedBorda' and kind == 'ranked' and len({len(b) for b, _ in case['AB'] if b}) >= 2:
                tags.add('modified_borda_mixed_lengths')
        if s['c'] == 'ScoreToRankedVotes' and s.get('unscored_value') is not None and kind == 'score':
            uv = Fraction(s['unscored_value'])
            if uv < 0:
                tags.add('unscored_negative')
            if uv == 0:
                tags.add('unscored_zero')
            if others and uv > max(others):
                tags.add('unscored_above_scores')
    if kind == 'ranked':
        items = [it for b, _ in case['AB'] for it in b]
        if any(isinstance(it, dict) and len(it['set']) >= 3 for it in items):
            tags.add('shared_rank_3plus')
        single = {it for it in items if not isinstance(it, dict)}
        inset = {c for it in items if isinstance(it, dict) for c in it['set']}
        if inset - single:
            tags.add('candidate_only_in_shared_ranks')
    # the converter raised on one conversion and is used again afterwards
    case['_tags'] = sorted(tags)
    return case


def _case_candidates(case):
    kind = case['kind']
    out = set()

    def key_cands(k, knd):
        if knd == 'simple':
            out.add(k)
        elif knd == 'ranked':
            for it in k:
                out.update(it['set'] if isinstance(it, dict) else [it])
        elif knd == 'approval':
            out.update(k['set'])
        elif knd == 'score':
            out.update(c for c, _ in k['set'])
    if kind == 'deep':
        for _, kv in deep_leaves(case['AB'], case.get('depth', 0)):
            out.add(kv[0])
    elif kind == 'nested':
        for _, dv in case['AB']:
            for k, _ in dv:
                key_cands(k, case.get('inner', 'simple'))
    else:
        for k, _ in case['AB']:
            key_cands(k, kind)
    return out


def _only_empty(case):
    """a non-empty profile all of whose ballots (constituency dictionaries) are empty"""
    kind = case['kind']
    if kind == 'ranked':
        return all(k == [] for k, _ in case['AB'])
    if kind in ('approval', 'score'):
        return all(k['set'] == [] for k, _ in case['AB'])
    if kind == 'nested':
        return all(dv == [] for _, dv in case['AB'])
    if kind == 'deep':
        return not list(deep_leaves(case['AB'], case.get('depth', 0)))
    return False


def config_specs():
    """one specification per converter configuration of the quantifier: (spec, input kind, inner kind)"""
    out = []
    for split_ in (False, True):
        out.append(({'c': 'ApprovalToSimpleVotes', 'split': split_}, 'approval', 'simple'))
    out += [({'c': 'RankedToFirstPreference'}, 'ranked', 'simple'), ({'c': 'RankedToFirstNPreferences', 'n': 2}, 'ranked', 'simple'),
            ({'c': 'RankedToPresenceCounts'}, 'ranked', 'simple'), ({'c': 'RankedToApprovalVotes'}, 'ranked', 'simple')]
    for sc in ({'s': 'Borda', 'base': 1}, {'s': 'Borda', 'base': 0}, {'s': 'Dowdall'}, {'s': 'Geometric', 'base': 3}, {'s': 'ModifiedBorda'},
               {'s': 'FixedTop', 'top': 2}, {'s': 'SequenceBased', 'sequence': ['5', '3']}):
        out.append(({'c': 'RankedToPositionalVotes', 'scorer': sc}, 'ranked', 'simple'))
    for ab in (True, False):
        out.append(({'c': 'RankedToCondorcetVotes', 'unranked_at_bottom': ab}, 'ranked', 'simple'))
    for uv in (None, '0'):
        out.append(({'c': 'ScoreToRankedVotes', 'unscored_value': uv}, 'score', 'simple'))
    out += [({'c': 'ScoreToApprovalVotesThreshold', 'threshold': '1'}, 'score', 'simple'), ({'c': 'InvertedSimpleVotes'}, 'simple', 'simple'),
            ({'c': 'InvertedApprovalVotes'}, 'approval', 'simple')]
    for conv in ('IndividualToPartyVotes', 'GroupVotesByParty'):
        for mode in ('aggregate', 'keep', 'ignore', 'error'):
            out.append(({'c': conv, 'aff': [[0, 1]], 'independents': mode, 'affiliation': 'candidacy_for'}, 'simple', 'simple'))
    for inner in ('simple', 'ranked', 'approval'):
        out += [({'c': 'VoteTotals'}, 'nested', inner), ({'c': 'ConstituencyTotals'}, 'nested', inner)]
    for k in SUBSETTERS:
        for sub in ([], [0, 1, 2], [0, 1, 2, 7, 8]):
            out.append(({'c': 'SubsettedVotes', 'subsetter': k, 'subset': sub, 'depth': 0, 'subset_container': 'list'}, k, 'simple'))
    for dp, kind in ((1, 'nested'), (2, 'deep')):
        for sub in ([], [0, 1, 2], [0, 1, 2, 7, 8]):
            out.append(({'c': 'SubsettedVotes', 'subsetter': 'simple', 'subset': sub, 'depth': dp, 'subset_container': 'set'}, kind, 'simple'))
    for meth in (None, 'ROUND_DOWN'):
        for kind in ('simple', 'ranked', 'approval'):
            sp = {'c': 'RoundedVotes', 'decimals': 1}
            if meth:
                sp['round_method'] = meth
            out.append((sp, kind, 'simple'))
    out += [({'c': 'Chain', 'cs': []}, 'simple', 'simple'),
            ({'c': 'Chain', 'cs': [{'c': 'RankedToApprovalVotes'}, {'c': 'ApprovalToSimpleVotes', 'split': False}]}, 'ranked', 'simple'),
            ({'c': 'Chain', 'cs': [{'c': 'ScoreToRankedVotes', 'unscored_value': '0'}, {'c': 'RankedToCondorcetVotes', 'unranked_at_bottom': True}]},
             'score', 'simple'),
            ({'c': 'Chain', 'cs': [{'c': 'VoteTotals'}, {'c': 'RoundedVotes', 'decimals': 0}]}, 'nested', 'simple')]
    return out


def sample_profile(kind, inner, which):
    """(A, B) of the given input kind: 'empty' = both empty, 'only_empty' = only empty ballots, 'normal' = three candidates"""
    def nest(x, y):
        return ([[0, x]], [[0, y], [1, []]])
    if which == 'empty':
        return [], []
    base = {'ranked': ([[[], '2']], [[[], '3']]), 'approval': ([[{'set': []}, '2']], [[{'set': []}, '3']]),
            'score': ([[{'set': []}, '2']], [[{'set': []}, '3']])}
    normal = {'ranked': ([[[0, 1, 2], '2'], [[{'set': [0, 1]}, 2], '1']], [[[0, 1, 2], '3'], [[2, 0], '1/2'], [[], '1']]),
              'approval': ([[{'set': [0, 1]}, '2'], [{'set': [2]}, '1']], [[{'set': [0, 1]}, '3'], [{'set': [0, 1, 2]}, '1/2']]),
              'score': ([[{'set': [[0, '1'], [1, '1'], [2, '3']]}, '2']], [[{'set': [[0, '2'], [1, '0']]}, '3'], [{'set': [[2, '1']]}, '1']]),
              'simple': ([[0, '2'], [1, '1']], [[0, '3'], [2, '1/2']])}
    if kind == 'nested':
        if which == 'only_empty':
            return [[0, []]], [[0, []], [1, []]]
        return nest(*normal[inner])
    if kind == 'deep':
        if which == 'only_empty':
            return [[0, [[0, []]]]], [[0, []], [1, [[2, []]]]]
        return [[0, [[0, normal['simple'][0]]]]], [[0, [[0, normal['simple'][1]], [1, [[1, '4']]]]]]
    if which == 'only_empty':
        return base.get(kind, ([], []))
    return normal[kind]


def directed_arguments(rng):
    """checklist 10-12: every converter configuration on the empty profile, on a profile of only empty ballots and on a
    normal one; SubsettedVotes with an empty / full / superset subset in every container type; rare events several times"""
    for spec, kind, inner in config_specs():
        for which in ('empty', 'only_empty', 'normal'):
            if which == 'only_empty' and kind == 'simple':
                continue
            A, B = sample_profile(kind, inner, which)
            for od in (False, 'desc'):
                yield vary(finish(json.loads(json.dumps(spec)), kind, A, B, ['directed', 'args:' + which], inner=inner), rng,
                           names='str', num='auto', order=od, warm=False)
    for k in SUBSETTERS:
        for cont in SUBSET_CONTAINERS:
            for sub in ([], [0, 1, 2], [2, 0, 1, 8], [1]):
                A, B = sample_profile(k, 'simple', 'normal')
                yield vary(finish({'c': 'SubsettedVotes', 'subsetter': k, 'subset': sub, 'depth': 0, 'subset_container': cont}, k, A, B,
                                  ['directed']), rng, names=rng.choice(NAME_KINDS), num='auto', order=False, warm=False)
    # the same image three and four times; two refused ballots in one profile
    yield vary(finish({'c': 'RankedToFirstPreference'}, 'ranked', [[[0, 1, 2], '2'], [[0, 2, 1], '1'], [[0], '5']],
                      [[[0, 2], '3'], [[0, 1, 2], '1/2']], ['directed']), rng, names='str', num='auto', order=False, warm=False)
    yield vary(finish({'c': 'RankedToApprovalVotes'}, 'ranked', [[[0, 1, 2], '2'], [[{'set': [0, 1, 2]}], '1'], [[2, 1, 0], '5']],
                      [[[1, {'set': [0, 2]}], '3'], [[0, 1, 2], '1/2']], ['directed']), rng, names='str', num='auto', order=False, warm=False)
    yield vary(finish({'c': 'ScoreToApprovalVotesThreshold', 'threshold': '2'}, 'score',
                      [[{'set': [[0, '2'], [1, '1']]}, '2'], [{'set': [[0, '3']]}, '1']],
                      [[{'set': [[0, '5'], [2, '0']]}, '3'], [{'set': [[0, '2'], [1, '0']]}, '4']], ['directed']),
               rng, names='str', num='auto', order=False, warm=False)
    yield vary(finish({'c': 'RankedToPositionalVotes', 'scorer': {'s': 'Borda', 'base': 1}}, 'ranked',
                      [[[0, 0], '2'], [[0, 0, 0], '1']], [[[1, 1, 0, 1], '3'], [[0, 1, 0], '1']], ['directed']),
               rng, names='str', num='auto', order=False, warm=False)
    for conv in ('IndividualToPartyVotes', 'GroupVotesByParty'):
        yield vary(finish({'c': conv, 'aff': [[0, 1]], 'independents': 'error', 'affiliation': 'candidacy_for'}, 'simple',
                          [[0, '2'], [1, '1'], [2, '4']], [[3, '3'], [1, '1']], ['directed']), rng, names='str', num='auto', order=False, warm=False)


def balanced(rng, per):
    """a fixed number of cases for every configuration value, so that none is effectively unsampled"""
    for sname in SCORERS:
        for _ in range(per):
            c = gen_case(rng, 'RankedToPositionalVotes')
            c['conv']['scorer'] = rnd_scorer(rng, sname)
            yield tag_case(c)
    for meth in ROUND_METHODS:
        for _ in range(per):
            c = gen_case(rng, 'RoundedVotes')
            c['conv']['round_method'] = meth
            yield tag_case(c)
    for conv in ('IndividualToPartyVotes', 'GroupVotesByParty'):
        for mode in ('aggregate', 'keep', 'ignore', 'error'):
            for _ in range(max(per // 2, 8)):
                c = gen_case(rng, conv)
                c['conv']['independents'] = mode
                yield tag_case(c)
    for names, kind in CHAINS:
        for _ in range(max(per // 4, 4)):
            m = rng.randint(2, 5)
            cs = [rnd_spec(rng, n, m)[0] for n in names]
            for x in cs:
                if x['c'] == 'ApprovalToSimpleVotes':
                    x['split'] = False
                if x['c'] in ('IndividualToPartyVotes',):
                    x['independents'] = rng.choice(['aggregate', 'keep', 'ignore'])
            spec = {'c': 'Chain', 'cs': cs}
            if kind == 'nested':
                A, B = rnd_nested(rng, m)
            else:
                A, B = split(rng, rnd_ballots(rng, kind, m, rng.randint(1, 6)))
                if any(n in UNIVERSE_DEPENDENT for n in names):
                    cover(rng, kind, A, B, m)
            if 'RoundedVotes' in names:
                A, B = cap_counts(kind, A), cap_counts(kind, B)
            yield finish(spec, kind, A, B, ['balanced', 'chain:' + '>'.join(n[:14] for n in names)])
    for _ in range(per):
        # Borda refuses half A (a ballot with more places than candidates) and then serves B and A+B's singles
        m = rng.randint(2, 4)
        c0 = rng.randrange(m)
        A = [[[c0] * rng.randint(2, 3) + [x for x in range(m) if x != c0][:rng.randint(0, 1)] * 0, rnd_weight(rng)]]
        B = [[b, rnd_weight(rng)] for b in rnd_ballots(rng, 'ranked', m, rng.randint(1, 3)) if len(b) <= 1]
        B.append([list(range(m)), rnd_weight(rng)])
        yield finish({'c': 'RankedToPositionalVotes', 'scorer': {'s': 'Borda', 'base': rng.choice([1, 0, 2])}}, 'ranked', A, B,
                     ['balanced', 'error_then_valid'])
    for k in SUBSETTERS:
        got = 0
        for _ in range(per * 8):
            c = gen_case(rng, 'SubsettedVotes')
            if c['conv']['subsetter'] == k and got < per // 2:
                got += 1
                yield c


def rounding_grid(rng):
    """RoundedVotes: every round_method the constructor takes (and the default) x decimals 0-3 x every admissible numeric type
    of the counts, on counts that are exact halves at the rounding digit with an even and with an odd digit before it (both
    signs), counts next to a half, 1.29-like counts and integers; and the same through chains that end in RoundedVotes"""
    for meth in [None] + ROUND_METHODS:
        for d in (0, 1, 2, 3):
            u = Fraction(1, 10 ** d)
            vals = [(2 * j + 1) * u / 2 for j in (0, 1, 2, 3, 12)] + [-(2 * j + 1) * u / 2 for j in (0, 1, 2)] + \
                   [Fraction(129, 100) * u, Fraction(-151, 100) * u, Fraction(1, 8) * u, Fraction(7), Fraction(0), Fraction(49, 100) * u]
            for mode in NUM_MODES:
                sp = {'c': 'RoundedVotes', 'decimals': d}
                if meth:
                    sp['round_method'] = meth
                A = [[i, ns(v)] for i, v in enumerate(vals) if i % 2 == 0]
                B = [[i, ns(v)] for i, v in enumerate(vals) if i % 2 == 1]
                yield vary(finish(sp, 'simple', A, B, ['directed', 'rounding_grid']), rng, names='str', num=mode, order=False, warm=False)
    for meth in [None, 'ROUND_DOWN', 'ROUND_UP', 'ROUND_HALF_DOWN', 'ROUND_CEILING']:
        for mode in ('dec_all', 'dec', 'float', 'frac'):
            rv = {'c': 'RoundedVotes', 'decimals': 1}
            if meth:
                rv['round_method'] = meth
            W = ['129/100', '1/4', '-3/4', '5/4', '1/8', '3'] if mode != 'float' else ['13/8', '1/4', '-3/4', '5/4', '1/8', '3']
            RA_ = [[[0, 1], W[0]], [[1], W[1]], [[2, 0], W[2]]]
            RB_ = [[[0, 1], W[3]], [[2], W[4]], [[1, 2], W[5]]]
            for first in ({'c': 'RankedToPresenceCounts'}, {'c': 'RankedToFirstPreference'},
                          {'c': 'RankedToCondorcetVotes', 'unranked_at_bottom': True}):
                yield vary(finish({'c': 'Chain', 'cs': [dict(first), dict(rv)]}, 'ranked', RA_, RB_, ['directed', 'rounding_grid']),
                           rng, names='str', num=mode, order=False, warm=False)
            yield vary(finish({'c': 'Chain', 'cs': [{'c': 'VoteTotals'}, dict(rv)]}, 'nested',
                              [[0, [[0, W[0]], [1, W[1]]]], [1, [[0, W[2]]]]], [[0, [[0, W[3]], [2, W[4]]]]], ['directed', 'rounding_grid']),
                       rng, names='str', num=mode, order=False, warm=False)
    for meth in (None, 'ROUND_DOWN'):
        sp = {'c': 'RoundedVotes', 'decimals': -1}
        if meth:
            sp['round_method'] = meth
        yield vary(finish(sp, 'simple', [[0, '5/4']], [[1, '3']], ['directed']), rng, names='str', num='auto', order=False, warm=False)
        yield vary(finish({'c': 'Chain', 'cs': [{'c': 'InvertedSimpleVotes'}, sp]}, 'simple', [[0, '5/4']], [[1, '3']], ['directed']),
                   rng, names='str', num='auto', order=False, warm=False)


def directed_dimensions(rng):
    """generator-audit dimensions (harness/GENERATOR_CHECKLIST.md), each on purpose"""
    RA = [[[0, 1, 2], '2'], [[{'set': [0, 1]}, 2], '3'], [[2], '1/2']]
    RB = [[[0, 1, 2], '5'], [[2, 1, 0], '1'], [[], '4'], [[{'set': [0, 1, 3]}], '2']]
    SA = [[{'set': [[0, '1'], [1, '1'], [2, '3']]}, '2'], [{'set': []}, '1']]
    SB = [[{'set': [[0, '5'], [1, '5'], [2, '9']]}, '3'], [{'set': [[1, '2']]}, '1'], [{'set': [[0, '1'], [1, '1'], [2, '3']]}, '1/2']]
    AA = [[{'set': [0, 1]}, '2'], [{'set': [1]}, '1']]
    AB_ = [[{'set': [0, 1]}, '3'], [{'set': [0, 1, 2]}, '1/2'], [{'set': []}, '1']]
    ranked_specs = [{'c': 'RankedToPositionalVotes', 'scorer': {'s': 'Borda', 'base': 1}},
                    {'c': 'RankedToPositionalVotes', 'scorer': {'s': 'Dowdall'}},
                    {'c': 'RankedToCondorcetVotes', 'unranked_at_bottom': True}, {'c': 'RankedToFirstPreference'},
                    {'c': 'RankedToFirstNPreferences', 'n': 2}, {'c': 'RankedToPresenceCounts'}, {'c': 'RankedToApprovalVotes'},
                    {'c': 'SubsettedVotes', 'subsetter': 'ranked', 'subset': [0, 2], 'depth': 0}]
    # candidate object kinds: ints incl. 0, the empty string, Person objects by identity
    for nm in NAME_KINDS[1:]:
        for sp in ranked_specs:
            yield vary(finish(dict(sp), 'ranked', RA, RB, ['directed']), rng, names=nm, num='auto', order=False, warm=False)
        for sp in ({'c': 'ScoreToRankedVotes', 'unscored_value': '0'}, {'c': 'ScoreToApprovalVotesThreshold', 'threshold': '1'},
                   {'c': 'SubsettedVotes', 'subsetter': 'score', 'subset': [0, 2], 'depth': 0}):
            yield vary(finish(dict(sp), 'score', SA, SB, ['directed']), rng, names=nm, num='auto', order=False, warm=False)
        for sp in ({'c': 'ApprovalToSimpleVotes', 'split': False}, {'c': 'InvertedApprovalVotes'},
                   {'c': 'SubsettedVotes', 'subsetter': 'approval', 'subset': [0], 'depth': 0}):
            yield vary(finish(dict(sp), 'approval', AA, AB_, ['directed']), rng, names=nm, num='auto', order=False, warm=False)
        yield vary(finish({'c': 'VoteTotals'}, 'nested', [[0, [[0, '2'], [1, '1']]]], [[0, [[0, '3']]], [1, [[2, '1']]]], ['directed']),
                   rng, names=nm, num='auto', order=False, warm=False, dclash=True)
        yield vary(finish({'c': 'SubsettedVotes', 'subsetter': 'simple', 'subset': [0], 'depth': 0}, 'simple',
                          [[0, '2'], [1, '1']], [[0, '3'], [2, '1']], ['directed']), rng, names=nm, num='auto', order=False, warm=False)
        yield vary({'op': 'util', 'votes': [[[0, 1, 2], '2'], [[2], '1'], [[1, 0], '1/2']], '_tags': ['util']}, rng, names=nm)
    # numeric type of the counts: Fraction / Decimal (short and 7 decimals) / dyadic float, falsy zeros, magnitudes
    WA = [[[0, 1], '0'], [[1, 0], '5/4'], [[2], '3']]
    WB = [[[0, 1], '1234567/10000000'], [[1], '0'], [[0, 2, 1], '1/8']]
    for mode in NUM_MODES[1:]:
        for sp in ({'c': 'RankedToFirstPreference'}, {'c': 'RankedToCondorcetVotes', 'unranked_at_bottom': True},
                   {'c': 'RankedToPresenceCounts'}, {'c': 'RankedToApprovalVotes'}):
            yield vary(finish(dict(sp), 'ranked', WA, [e for e in WB if mode != 'float' or e[1] != '1234567/10000000'], ['directed']),
                       rng, names='str', num=mode, order=False, warm=False)
        yield vary(finish({'c': 'ScoreToApprovalVotesThreshold', 'threshold': '5/4'}, 'score',
                          [[{'set': [[0, '5/4'], [1, '1/8']]}, '0'], [{'set': [[2, '3']]}, '1/2']],
                          [[{'set': [[0, '5/4'], [1, '1/8']]}, '1/4'], [{'set': [[1, '2']]}, '0']], ['directed']),
                   rng, names='str', num=mode, order=False, warm=False)
    yield vary(finish({'c': 'RankedToPositionalVotes', 'scorer': {'s': 'Dowdall'}}, 'ranked', WA, WB, ['directed']),
               rng, names='str', num='frac', order=False, warm=False)
    yield vary(finish({'c': 'ApprovalToSimpleVotes', 'split': True}, 'approval', [[{'set': [0, 1]}, '0'], [{'set': [1]}, '3']],
                      [[{'set': [0, 1]}, '2'], [{'set': [2]}, '0']], ['directed']), rng, names='str', num='frac', order=False, warm=False)
    BIG = [2 ** 53, 2 ** 53 + 1, 10 ** 18 + 1, 10 ** 30, 10 ** 400 + 7]
    for sp in ranked_specs[:4]:
        yield vary(finish(dict(sp), 'ranked', [[[0, 1, 2], ns(BIG[1])], [[1, 0], ns(BIG[4])]],
                          [[[0, 1, 2], ns(BIG[0])], [[2, 1, 0], ns(BIG[3])], [[1], ns(BIG[2])]], ['directed']),
                   rng, names='str', num='auto', order=False, warm=False)
    for sp in ({'c': 'ScoreToRankedVotes', 'unscored_value': ns(2 ** 53)}, {'c': 'ScoreToApprovalVotesThreshold', 'threshold': ns(2 ** 53 + 1)}):
        yield vary(finish(dict(sp), 'score', [[{'set': [[0, ns(2 ** 53)], [1, ns(2 ** 53 + 1)], [2, ns(2 ** 53 - 1)]]}, '2']],
                          [[{'set': [[0, '1'], [1, '1000000000001/1000000000000'], [3, '999999999999/1000000000000']]}, '3']], ['directed']),
                   rng, names='str', num='auto', order=False, warm=False)
    # every scorer parameter non-default, sequences shorter than the ballots, ModifiedBorda with mixed lengths
    for sc in ({'s': 'Borda', 'base': 0}, {'s': 'Borda', 'base': 2}, {'s': 'Borda', 'base': -1}, {'s': 'Geometric', 'base': 3},
               {'s': 'Geometric', 'base': 10}, {'s': 'FixedTop', 'top': 2}, {'s': 'FixedTop', 'top': 5},
               {'s': 'SequenceBased', 'sequence': ['12']}, {'s': 'SequenceBased', 'sequence': ['5', '3']},
               {'s': 'SequenceBased', 'sequence': []}, {'s': 'ModifiedBorda'}):
        for od in ('asc', 'desc'):
            yield vary(finish({'c': 'RankedToPositionalVotes', 'scorer': dict(sc)}, 'ranked', RA, RB, ['directed']),
                       rng, names='str', num='auto', order=od, warm=(od == 'asc'))
    # the converter refuses one profile and is used again (Borda: more ranks than candidates in A only)
    yield vary(finish({'c': 'RankedToPositionalVotes', 'scorer': {'s': 'Borda', 'base': 1}}, 'ranked',
                      [[[0, 0], '2']], [[[0, 1], '1'], [[1], '3']], ['directed', 'error_then_valid']),
               rng, names='str', num='auto', order=False, warm=False)
    yield vary(finish({'c': 'ApprovalToSimpleVotes', 'split': True}, 'approval',
                      [[{'set': []}, '2']], [[{'set': [0, 1]}, '1'], [{'set': [1]}, '3']], ['directed', 'error_then_valid']),
               rng, names='str', num='auto', order=False, warm=False)
    # unscored value: zero / negative / above every explicit score
    for uv in ('0', '-3', '7'):
        for od in (False, 'desc'):
            yield vary(finish({'c': 'ScoreToRankedVotes', 'unscored_value': uv}, 'score', SA, SB + [[{'set': [[3, '4']]}, '2']],
                              ['directed']), rng, names='str', num='auto', order=od, warm=bool(od))
    # an empty subset with every subsetter, at depth 0-2
    for k, kind, A, B in (('simple', 'simple', [[0, '2'], [1, '1']], [[0, '3']]), ('approval', 'approval', AA, AB_),
                          ('ranked', 'ranked', RA, RB), ('score', 'score', SA, SB)):
        yield vary(finish({'c': 'SubsettedVotes', 'subsetter': k, 'subset': [], 'depth': 0}, kind, A, B, ['directed']),
                   rng, names='str', num='auto', order=False, warm=True)
    yield vary(finish({'c': 'SubsettedVotes', 'subsetter': 'simple', 'subset': [], 'depth': 1}, 'nested',
                      [[0, [[0, '2'], [1, '1']]]], [[0, [[0, '3']]], [1, [[2, '1']]]], ['directed']), rng, names='str', num='auto',
               order=False, warm=False, dclash=True)
    yield vary(finish({'c': 'SubsettedVotes', 'subsetter': 'simple', 'subset': [0, 1], 'depth': 2}, 'deep',
                      [[0, [[0, [[0, '2'], [1, '1']]]]]], [[0, [[0, [[0, '3']]], [1, [[1, '1/3']]]]]], ['directed']),
               rng, names='str', num='auto', order='desc', warm=False, dclash=True)
    yield vary(finish({'c': 'ConstituencyTotals'}, 'nested', [[0, [[0, '2'], [1, '1']]]], [[0, [[0, '3']]], [1, [[2, '1']]]], ['directed']),
               rng, names='str', num='auto', order=False, warm=False, dclash=True)
    # party mappers: candidates missing from the mapping, every independents mode, both affiliation attributes
    for conv in ('IndividualToPartyVotes', 'GroupVotesByParty'):
        for mode in ('aggregate', 'keep', 'ignore', 'error'):
            for attr in ('candidacy_for', 'membership'):
                yield vary(finish({'c': conv, 'aff': [[0, 1], [1, 1], [3, 0]], 'independents': mode, 'affiliation': attr}, 'simple',
                                  [[0, '2'], [2, '1'], [3, '0']], [[1, '3'], [4, '1/2'], [2, '0']], ['directed']),
                           rng, names='str', num='auto', order=rng.choice(['asc', 'desc']), warm=True)
    # shared ranks of three and more; a candidate that only ever occurs inside shared ranks
    for sp in ranked_specs:
        yield vary(finish(dict(sp), 'ranked', [[[{'set': [0, 1, 2]}, 3], '2'], [[3, {'set': [0, 1, 2, 4]}], '1']],
                          [[[{'set': [1, 2, 4]}, {'set': [0, 3]}], '3'], [[3], '1']], ['directed']),
                   rng, names='str', num='auto', order=False, warm=False)


def directed(rng):
    """cases that reach every required counter whatever the seed"""
    for name in CONVERTERS:
        yield gen_case(rng, name)
    # every scorer, with a profile that shares ranks and truncates, the same ballot in both halves
    for s in SCORERS:
        for base in ([0, 1] if s == 'Borda' else [None]):
            sc = rnd_scorer(rng, s)
            if base is not None:
                sc['base'] = base
            A = [[[0, 1, 2], '2'], [[{'set': [0, 1]}, 2], '3'], [[2], '1/2']]
            B = [[[0, 1, 2], '5'], [[2, 1, 0], '1'], [[], '4']]
            yield finish({'c': 'RankedToPositionalVotes', 'scorer': sc}, 'ranked', A, B, ['directed'])
    # Borda refuses a ballot with more ranks than candidates
    yield finish({'c': 'RankedToPositionalVotes', 'scorer': {'s': 'Borda', 'base': 1}}, 'ranked',
                 [[[0, 0], '2']], [[[0], '1']], ['directed'])
    yield finish({'c': 'RankedToPositionalVotes', 'scorer': {'s': 'Borda', 'base': 1}}, 'ranked',
                 [[[0, {'set': []}, 1, 0], '2']], [[[0, 1], '1']], ['directed'])
    for k in SUBSETTERS:
        spec = {'c': 'SubsettedVotes', 'subsetter': k, 'subset': [0, 2], 'depth': 0}
        kind = k
        m = 4
        ballots = rnd_ballots(rng, kind, m, 5)
        A, B = split(rng, ballots)
        yield finish(spec, kind, A, B, ['directed'])
    # ranked subsetting: distinct ballots, same sub-ranking
    yield finish({'c': 'SubsettedVotes', 'subsetter': 'ranked', 'subset': [0, 2], 'depth': 0}, 'ranked',
                 [[[0, 1, 2], '2'], [[{'set': [0, 1]}, 2], '1']], [[[0, 2, 3], '3'], [[{'set': [0, 3]}, {'set': [1, 2]}], '1/3']],
                 ['directed'])
    for split_ in (False, True):
        yield finish({'c': 'ApprovalToSimpleVotes', 'split': split_}, 'approval',
                     [[{'set': [0, 1]}, '2'], [{'set': [1]}, '1']], [[{'set': [0, 1]}, '3'], [{'set': [0, 1, 2]}, '1/2']], ['directed'])
    yield finish({'c': 'ApprovalToSimpleVotes', 'split': True}, 'approval', [[{'set': []}, '2']], [[{'set': [1]}, '1']], ['directed'])
    for ab in (True, False):
        yield finish({'c': 'RankedToCondorcetVotes', 'unranked_at_bottom': ab}, 'ranked',
                     [[[0, 1], '2'], [[{'set': [1, 2]}, 0], '1'], [[], '1']], [[[1, 0], '3'], [[0, 1], '1'], [[2], '2']], ['directed'])
    yield finish({'c': 'RankedToCondorcetVotes', 'unranked_at_bottom': True}, 'ranked',
                 [[[0, 1, 0], '2']], [[[1, 0], '3']], ['directed'])
    for uv in (None, '0', '2'):
        yield finish({'c': 'ScoreToRankedVotes', 'unscored_value': uv}, 'score',
                     [[{'set': [[0, '1'], [1, '1'], [2, '3']]}, '2'], [{'set': []}, '1']],
                     [[{'set': [[0, '5'], [1, '5'], [2, '9']]}, '3'], [{'set': [[1, '2']]}, '1'], [{'set': [[0, '1'], [1, '1'], [2, '3']]}, '1/2']],
                     ['directed'])
    yield finish({'c': 'RankedToFirstPreference'}, 'ranked',
                 [[[0, 1, 2], '2'], [[], '1']], [[[0, 2, 1], '3'], [[0, 1, 2], '1'], [[1], '1/2']], ['directed'])
    yield finish({'c': 'RankedToFirstNPreferences', 'n': 2}, 'ranked',
                 [[[0, 1, 2], '2'], [[], '1']], [[[1, 0, 2], '3'], [[0, 1, 2], '1'], [[1], '1/2']], ['directed'])
    yield finish({'c': 'RankedToPresenceCounts'}, 'ranked',
                 [[[0, 1], '2'], [[{'set': [0, 2]}], '1']], [[[1, 0], '3'], [[0, 1], '1']], ['directed'])
    yield finish({'c': 'RankedToApprovalVotes'}, 'ranked',
                 [[[0, 1], '2'], [[{'set': [0, 1]}], '1']], [[[1, 0], '3'], [[0, 1], '1']], ['directed'])
    yield finish({'c': 'SubsettedVotes', 'subsetter': 'simple', 'subset': [0, 2], 'depth': 2}, 'deep',
                 [[0, [[0, [[0, '2'], [1, '1']]], [1, [[2, '1/2']]]]], [1, [[0, [[1, '4']]]]]],
                 [[0, [[0, [[0, '3'], [2, '5']]]]], [2, [[1, [[2, '1']]]]], [1, []]], ['directed'])
    yield finish({'c': 'SubsettedVotes', 'subsetter': 'simple', 'subset': [1], 'depth': 3}, 'deep',
                 [[0, [[0, [[0, [[0, '2'], [1, '1']]]]]]]], [[0, [[0, [[0, [[1, '3']]], [1, [[1, '1/3']]]]]]]], ['directed'])
    yield finish({'c': 'RoundedVotes', 'decimals': 1}, 'simple', [[0, '5/4'], [1, '1/3']], [[2, '-5/4'], [3, '7']], ['directed'])
    yield finish({'c': 'RoundedVotes', 'decimals': 0}, 'simple', [[0, '1/2'], [1, '1/3']], [[0, '1/2'], [3, '7']], ['directed'])
    for meth in ROUND_METHODS:
        yield finish({'c': 'RoundedVotes', 'decimals': 1, 'round_method': meth}, 'simple',
                     [[0, '5/4'], [1, '27/20'], [2, '-5/4'], [3, '-27/20'], [4, '1/20']],
                     [[5, '21/20'], [6, '-21/20'], [7, '3/2'], [8, '149/100'], [9, '-151/100']], ['directed', 'round:' + meth])
    yield finish({'c': 'Chain', 'cs': [{'c': 'RankedToApprovalVotes'}, {'c': 'ApprovalToSimpleVotes', 'split': False}]}, 'ranked',
                 [[[0, 1], '2']], [[[1, 0], '3']], ['directed'])
    yield finish({'c': 'RankedToFirstPreference'}, 'ranked', [[[0, 1], '1/2'], [[1], '3']], [[[0, 2], '5/4'], [[0, 1], '1/4']],
                 ['directed'], dec=True)
    yield from directed_dimensions(rng)
    yield from rounding_grid(rng)
    yield from directed_arguments(rng)
    for votes in ([[[0, 1, 2], '2'], [[2], '1'], [[1, 3], '1/2']], [[[{'set': [1]}, 0], '1'], [[], '3'], [[2, 0, 1], '2']]):
        yield {'op': 'util', 'votes': votes, '_tags': ['util']}


def generate(rng, tier):
    yield from directed(rng)
    N = 3000 if tier == 'quick' else 60000
    for _ in range(N):
        yield vary(gen_case(rng), rng)
    for c in balanced(rng, 30 if tier == 'quick' else 300):
        yield vary(c, rng)
    for _ in range(60 if tier == 'quick' else 4000):
        yield vary(gen_case(rng, tags=['big'], big=True), rng)
    for _ in range(80 if tier == 'quick' else 3000):     # nested dictionaries of depth 1-3
        m = rng.randint(2, 5)
        dp = rng.choice([1, 2, 2, 3])
        spec = {'c': 'SubsettedVotes', 'subsetter': 'simple', 'subset': rng.sample(range(m + 1), rng.randint(0, m)), 'depth': dp}
        if rng.random() < 0.5:
            spec['defaults'] = True
        if dp == 1:
            A, B = rnd_nested(rng, m)
            yield vary(finish(spec, 'nested', A, B, ['deep'], dec=rng.random() < 0.3), rng)
        else:
            yield vary(finish(spec, 'deep', rnd_deep(rng, m, dp), rnd_deep(rng, m, dp), ['deep'], dec=rng.random() < 0.3), rng)
    for _ in range(40 if tier == 'quick' else 2000):
        m = rng.randint(2, 4)
        bs = []
        for b in rnd_ballots(rng, 'ranked', m, rng.randint(1, 5)):
            # set iteration order inside a shared rank is not observable: keep shared ranks one-element here
            bs.append([it if not isinstance(it, dict) or len(it['set']) <= 1 else it['set'][0] for it in b])
        yield vary({'op': 'util', 'votes': dedupe([[b, rnd_weight(rng)] for b in bs]), '_tags': ['util']}, rng)
    if tier == 'thorough':
        yield from exhaustive()


def exhaustive():
    """small scope: every split of every multiset of <= 2 ballots per half over 3 candidates' strict prefixes"""
    ballots = [[]] + [list(p) for k in (1, 2, 3) for p in itertools.permutations(range(3), k)] + \
              [[{'set': [0, 1]}, 2], [2, {'set': [0, 1]}], [{'set': [0, 1, 2]}]]
    specs = [{'c': 'RankedToFirstPreference'}, {'c': 'RankedToFirstNPreferences', 'n': 2}, {'c': 'RankedToPresenceCounts'},
             {'c': 'RankedToApprovalVotes'}, {'c': 'RankedToPositionalVotes', 'scorer': {'s': 'Borda', 'base': 1}},
             {'c': 'RankedToPositionalVotes', 'scorer': {'s': 'Dowdall'}},
             {'c': 'RankedToCondorcetVotes', 'unranked_at_bottom': True},
             {'c': 'RankedToCondorcetVotes', 'unranked_at_bottom': False},
             {'c': 'SubsettedVotes', 'subsetter': 'ranked', 'subset': [0, 2], 'depth': 0}]
    for spec in specs:
        for a, b in itertools.product(ballots, repeat=2):
            yield finish(spec, 'ranked', [[a, '2']], [[b, '3']], ['exhaustive'])
            yield finish(spec, 'ranked', [[a, '2'], [b, '1']], [[b, '3']], ['exhaustive'])
    subsets = [{'set': [c for c in range(3) if m >> c & 1]} for m in range(8)]
    for spec in ({'c': 'ApprovalToSimpleVotes', 'split': False}, {'c': 'ApprovalToSimpleVotes', 'split': True},
                 {'c': 'InvertedApprovalVotes'}, {'c': 'SubsettedVotes', 'subsetter': 'approval', 'subset': [0, 2], 'depth': 0}):
        for a, b, c in itertools.product(subsets, repeat=3):
            yield finish(spec, 'approval', [[a, '2'], [c, '1/2']], [[b, '3'], [c, '1']], ['exhaustive'])
    scores = [{'set': sorted([c, ns(v)] for c, v in zip(range(3), vs) if v is not None)}
              for vs in itertools.product([None, 0, 1, 2], repeat=3)]
    for spec in ({'c': 'ScoreToRankedVotes', 'unscored_value': None}, {'c': 'ScoreToRankedVotes', 'unscored_value': '1'},
                 {'c': 'ScoreToApprovalVotesThreshold', 'threshold': '1'},
                 {'c': 'SubsettedVotes', 'subsetter': 'score', 'subset': [0, 2], 'depth': 0}):
        for a, b in itertools.product(scores, repeat=2):
            yield finish(spec, 'score', [[a, '2']], [[b, '3'], [a, '1/2']], ['exhaustive'])


def shrink_candidates(case):
    if case['op'] == 'util':
        vs = case['votes']
        for i in range(len(vs)):
            if len(vs) > 1:
                yield dict(case, votes=vs[:i] + vs[i + 1:])
        return
    for half in ('A', 'B'):
        h = case[half]
        for i in range(len(h)):
            other = 'B' if half == 'A' else 'A'
            new = {half: h[:i] + h[i + 1:], other: case[other]}
            yield _carry(case, finish(case['conv'], case['kind'], new['A'], new['B'], [], inner=case.get('inner', 'simple')))
    if case['conv']['c'] == 'Chain' and len(case['conv']['cs']) > 1:
        yield _carry(case, finish({'c': 'Chain', 'cs': case['conv']['cs'][:-1]}, case['kind'], case['A'], case['B'], []))
    for k in ('warm', 'order', 'names', 'num', 'dclash'):
        if k in case:
            c = dict(case)
            del c[k]
            yield c


def _carry(old, new):
    for k in ('names', 'order', 'warm', 'dclash', 'inner'):
        if k in old:
            new[k] = old[k]
    mode = old.get('num') or ('dec' if old.get('dec') else None)
    if mode and num_mode_ok(new, mode):
        new['num'] = mode
    return new


TECHNIQUE = ('Lean 4 proofs that each converter model is the weighted sum of per-ballot images over a fixed candidate universe '
             '(hence additive), with the documented single-ballot images, weight conservation and the pairwise bound; '
             'differential correspondence of the models with votelib on A, B and A+B')
LEVEL_TEXT = ('every converter of votelib.convert named in the property is modelled in Lean following the code; for each, the model is proved '
              'to equal the weighted sum of per-ballot images for all profiles (no size bound), which gives additivity over concatenated and '
              'merged profiles; the per-ballot images are characterised order-free; weight conservation and the pairwise bound are proved; '
              'the models are tied to /repo by a differential correspondence on A, B, A+B and single-ballot profiles plus an independent oracle.')
LEVEL_NOTE = ('Trusted: Lean kernel + propext/Classical.choice/Quot.sound; translate.py for the rank-score lists; the correspondence harness '
              '(2-5 candidates, 1-7 ballots); frozensets and output dicts compared up to iteration order.')
UNPROVED = []
