"""C09 — get_n_best / Plurality / QuotaSelector(select)."""
import itertools
from fractions import Fraction
from decimal import Decimal
from common import *   # noqa

ID = 'C09'
NAMESPACE = 'VL.C09'
LEAN_MODULES = ['VotelibProofs.Props.C09']
GEN_MODULES = ['Quota']
REQUIRED = ['getNBest_tie', 'getNBest_fits', 'getNBest_everyone', 'getNBest_length', 'aboveSorted_desc',
            'mem_aboveSorted', 'strictly_above_elected', 'level_all_elected', 'not_above_not_elected_in_tie',
            'below_never_elected', 'getNBest_strictMono_map', 'plurality_eq', 'quotaSelector_ok',
            'sorted_votes_desc_spec', 'sorted_votes_asc_spec', 'sorted_votes_level_sets_agree', 'elected_stays_elected']
NAME_MODES = ['str', 'int0', 'empty0', 'person', 'tuple']
REQUIRED_COUNTERS = ['hash_alike_sequence', 'falsy_first_below_cut', 'sorted_votes', 'boundary_tie', 'level_fits', 'negative_value', 'all_elected', 'fraction', 'decimal', 'quota_selector', 'sequence_on_one_object', 'seq_quota_selector', 'seq_plurality', 'many_over_quota_select']
RULE = ('1-8 candidates, values from tie-forcing small sets (incl. negatives/zero), Fractions, Decimals and integers up to '
        '10^30; n from 1 to len+2; ops get_n_best, plurality, quota_selector(select/error). Non-trivial = at least two '
        'candidates and a result that is not an error; distinct by canonical request.')
NOT_VERIFIED = ['dict insertion order is the protocol order (CPython dict semantics)',
                'Decimal/Fraction/int comparison is exact rational comparison']
EXHAUSTIVE = {'thorough': False}
NAMES = Names()

QUOTAS = ['hare', 'hare_rounded', 'droop', 'hagenbach_bischoff', 'hagenbach_bischoff_ceil',
          'hagenbach_bischoff_rounded', 'imperiali']


def _val(rng, kind):
    if kind == 'small':
        return rng.choice([-2, -1, 0, 0, 1, 1, 2, 2, 3, 3])
    if kind == 'frac':
        return Fraction(rng.randint(-6, 12), rng.choice([1, 2, 3, 4, 6]))
    if kind == 'dec':
        return Decimal(rng.randint(-20, 60)) / Decimal(rng.choice([1, 2, 4, 5, 10]))
    if kind == 'big':
        return 10 ** rng.choice([16, 25, 30]) + rng.choice([0, 0, 1, -1, 2])
    return rng.randint(0, 12)


def _mk(op, vals, n, tags, **kw):
    tags = list(tags)
    if any(isinstance(v, Fraction) and v.denominator != 1 for v in vals):
        tags.append('fraction')
    if any(isinstance(v, Decimal) for v in vals):
        tags.append('decimal')
    if any(v < 0 for v in vals):
        tags.append('negative_value')
    types = ['D' if isinstance(v, Decimal) else 'F' if isinstance(v, Fraction) else 'i' for v in vals]
    c = {'op': op, 'n': n, 'votes': [[i, num_str(v)] for i, v in enumerate(vals)], '_types': types, '_tags': tags}
    c.update(kw)
    return c


def generate(rng, tier):
    N = 1500 if tier == 'quick' else 200000
    for k in range(N):
        m = rng.randint(1, 8)
        kind = rng.choice(['small', 'small', 'small', 'frac', 'dec', 'big', 'mid'])
        vals = [_val(rng, kind) for _ in range(m)]
        if kind == 'dec' and rng.random() < 0.3:     # mixed numeric types
            vals = [Fraction(v) if rng.random() < 0.5 else v for v in vals]
        n = rng.randint(1, m + 2)
        r = rng.random()
        if r < 0.15:
            yield _mk('sorted_votes', vals, n, ['sorted_votes'], desc=rng.random() < 0.5)
        elif r < 0.6:
            yield _mk(rng.choice(['get_n_best', 'plurality']), vals, n, [])
        else:
            vals = [abs(v) for v in vals]
            if any(isinstance(v, Decimal) for v in vals):
                vals = [Fraction(v) for v in vals]
            if sum(vals) == 0:
                vals[0] = 1
            q = rng.choice(QUOTAS)
            yield _mk('quota_selector', vals, rng.randint(1, m), ['quota_selector'], quota=q,
                      accept_equal=rng.random() < 0.5, on_more=rng.choice(['select', 'select', 'error']))
    # directed: MANY candidates over the quota in 'select' mode (n_seats + 2 and more: low or constant quotas, zero / negative totals),
    # the best of them listed LATE in the dictionary - the cut must be taken over all qualifiers, not over the first n_seats + 1
    for k in range(60 if tier == 'quick' else 1500):
        m = rng.randint(4, 8)
        n = rng.randint(1, max(1, m - 3))
        mode = rng.choice(['imperiali_level', 'constant', 'constant_decimal', 'negative_total'])
        if mode == 'imperiali_level':
            base = rng.randint(30, 50)
            vals = sorted([base + rng.choice([0, 0, 1, 2]) for _ in range(m)])          # ascending: the strongest come last
            q = 'imperiali'
        elif mode == 'negative_total':
            vals = [-rng.randint(1, 9) for _ in range(m)]
            q = 'hare'
        else:
            vals = [rng.randint(3, 20) for _ in range(m)]
            if mode == 'constant_decimal':
                vals = [Decimal(v) / 2 for v in vals]
            vals = sorted(vals)
            q = rng.choice(['0', '1', '5/2', '3'])
        if rng.random() < 0.3:
            rng.shuffle(vals)
        yield _mk('quota_selector', vals, n, ['quota_selector', 'many_over_quota_select'], quota=q, accept_equal=rng.random() < 0.5, on_more='select')
    # sequences on ONE object: a candidate that reached the quota (or was elected) in an earlier call is absent from, or far below the
    # cut in, a later call; configurations of the selector stay fixed within a sequence
    for k in range(80 if tier == 'quick' else 1500):
        kind = rng.choice(['quota_selector', 'quota_selector', 'plurality'])
        q, ae, om = rng.choice(QUOTAS), rng.random() < 0.5, rng.choice(['select', 'select', 'error'])
        calls = []
        for t in range(rng.randint(2, 4)):
            m = rng.randint(2, 6)
            if t == 0:
                vals = [rng.randint(20, 60) for _ in range(m)]                # many reach the quota
            else:
                vals = [rng.choice([0, 1, 2, 3, 30, 50]) for _ in range(m)]   # the same names, now mostly far below it
                if sum(vals) == 0:
                    vals[0] = 7
            n = rng.randint(1, m)
            calls.append(_mk(kind, vals, n, [], quota=q, accept_equal=ae, on_more=om) if kind == 'quota_selector' else _mk(kind, vals, n, []))
        yield {'op': 'seq', 'n': 0, 'calls': calls, '_tags': ['sequence_on_one_object', 'seq_' + kind]}
    # directed: boundary ties, level sets that just fit
    for k in range(60 if tier == 'quick' else 600):
        m = rng.randint(2, 8)
        t = rng.randint(-1, 3)
        vals = [t + rng.choice([0, 0, 0, 1, 2, -1]) for _ in range(m)]
        yield _mk('get_n_best', vals, rng.randint(1, m), ['directed'])
    # directed: the FIRST candidate below the cut is level with the n-th total and is a falsy object (int 0 / the empty string):
    # candidate 0 is inserted last among the level candidates, so the stable order puts it exactly at index n
    for k in range(24 if tier == 'quick' else 240):
        above = rng.randint(0, 3)
        level = rng.randint(2, 4)
        t = rng.choice([-1, 0, 3, Fraction(7, 2)])
        ids = list(range(1, above + level + 1))
        rng.shuffle(ids)
        pairs = [(ids[i], t + rng.randint(1, 3)) for i in range(above)] + [(ids[above + j], t) for j in range(level - 1)] + [(0, t)]
        for j in range(rng.randint(0, 2)):
            pairs.append((above + level + 1 + j, t - rng.randint(1, 2)))
        c = _mk(rng.choice(['get_n_best', 'plurality']), [v for _, v in pairs], above + level - 1, ['directed', 'falsy_first_below_cut'])
        c['votes'] = [[i, num_str(v)] for i, v in pairs]
        c['_names'] = ['int0', 'empty0', 'str', 'person'][k % 4]
        c['_tags'].append('names:' + c['_names'])
        yield c
    # directed: consecutive calls whose value tuples HASH alike but differ (hash(-1) == hash(-2); hash(x) == hash(x + 2**61 - 1)
    # for int / Fraction / Decimal): a result remembered under a hashed key would be handed back for the wrong election
    P = 2 ** 61 - 1
    for k in range(12 if tier == 'quick' else 120):
        m = rng.randint(2, 4)
        base = [rng.choice([-1, -2]) for _ in range(m)]
        if len(set(base)) == 1:
            base[0] = -3 - base[0]
        swapped = [-3 - v for v in base]
        n = rng.randint(1, m)
        op = rng.choice(['get_n_best', 'plurality'])
        for vals in (base, swapped):
            yield _mk(op, list(vals), n, ['directed', 'hash_alike_sequence'])
        b2 = [rng.randint(0, 3) for _ in range(m)]
        s2 = [v + (P if rng.random() < 0.5 else 0) for v in b2]
        if s2 != b2:
            for vals in (b2, s2):
                yield _mk(op, list(vals), n, ['directed', 'hash_alike_sequence'])
    if tier == 'thorough':
        for m in range(1, 6):
            for vals in itertools.product([0, 1, 2], repeat=m):
                for n in range(1, m + 2):
                    yield _mk('get_n_best', list(vals), n, ['exhaustive'])
        for m in range(1, 7):                      # negative values, six candidates
            for vals in itertools.product([-1, 0, 1], repeat=m):
                for n in range(1, m + 2):
                    yield _mk('plurality' if (m + n) % 2 else 'get_n_best', list(vals), n, ['exhaustive'])


def _votes(case):
    out = {}
    for (i, s), t in zip(case['votes'], case.get('_types') or ['F'] * len(case['votes'])):
        f = Fraction(s)
        if t == 'i' and f.denominator == 1:
            v = int(f)
        elif t == 'D':
            v = Decimal(f.numerator) / Decimal(f.denominator)
            if Fraction(v) != f:
                v = f
        else:
            v = f
        out[NAMES.n(i)] = v
    return out


def impl(case):
    import votelib.evaluate.core as vcore
    import votelib.evaluate.approval as vapp
    if case['op'] == 'seq':
        return _impl_seq(case)
    votes = _votes(case)
    n = case['n']
    if case['op'] == 'get_n_best':
        return guarded(lambda: enc_selection(vcore.get_n_best(votes, n), NAMES))
    if case['op'] == 'sorted_votes':
        import votelib.util
        return guarded(lambda: [[NAMES.i(c), num_str(v)] for c, v in votelib.util.sorted_votes(votes, case['desc'])])
    if case['op'] == 'plurality':
        return guarded(lambda: enc_selection(vcore.Plurality().evaluate(votes, n), NAMES))
    if case['op'] == 'quota_selector':
        return guarded(lambda: enc_selection(
            vapp.QuotaSelector(_quota_arg(case['quota']), accept_equal=case['accept_equal'],
                               on_more_over_quota=case['on_more']).evaluate(votes, n), NAMES))
    raise ValueError(case['op'])


def _quota_arg(q):
    """a registered quota name, or a number given as text = quota.constant(number) (the driver reads the same text as a constant)"""
    import votelib.component.quota as vq
    try:
        return vq.constant(Fraction(q))
    except ValueError:
        return q


def _impl_seq(case):
    """ONE evaluator object answers all calls of the sequence (as a selector inside ByConstituency does); each call is guarded on its
    own; the case carries its whole history, so a replay reproduces it"""
    import votelib.evaluate.core as vcore
    import votelib.evaluate.approval as vapp
    first = case['calls'][0]
    if first['op'] == 'plurality':
        ev = vcore.Plurality()
    else:
        ev = vapp.QuotaSelector(_quota_arg(first['quota']), accept_equal=first['accept_equal'], on_more_over_quota=first['on_more'])
    return [guarded(lambda sub=sub: enc_selection(ev.evaluate(_votes(sub), sub['n']), NAMES)) for sub in case['calls']]


def _oracle_nbest(vals, n, res):
    """the property stated directly; vals: dict id -> Fraction; res: protocol selection"""
    out = []
    if isinstance(res, dict):
        return [('unexpected_error', res.get('err'))]
    foreign = [x for x in res if not isinstance(x, dict) and x not in vals] + \
              [y for x in res if isinstance(x, dict) for y in x.get('tie', []) if y not in vals]
    if foreign:
        return [('foreign_candidate', f'{foreign} do not occur in the votes of this call; got {res}')]
    m = len(vals)
    srt = sorted(vals.values(), reverse=True)
    if m <= n:
        if sorted(x for x in res if not isinstance(x, dict)) != sorted(vals) or len(res) != m:
            out.append(('not_everyone', 'fewer candidates than seats: all must be elected'))
        seq = [vals[x] for x in res if not isinstance(x, dict)]
        if any(a < b for a, b in zip(seq, seq[1:])):
            out.append(('order', 'not non-increasing'))
        return out
    tau = srt[n - 1]
    above = [c for c, v in vals.items() if v > tau]
    level = sorted(c for c, v in vals.items() if v == tau)
    cands = [x for x in res if not isinstance(x, dict)]
    ties = [x for x in res if isinstance(x, dict)]
    if len(res) != n:
        out.append(('length', f'{len(res)} places for {n} seats'))
    if not set(above) <= set(cands):
        out.append(('above_missing', 'a candidate strictly above the n-th total is not elected'))
    if len(above) + len(level) <= n:
        if not set(level) <= set(cands):
            out.append(('level_missing', 'level set fits but is not fully elected'))
        if ties:
            out.append(('spurious_tie', 'tie reported although the level set fits'))
    else:
        if set(level) & set(cands):
            out.append(('tie_resolved_silently', 'level candidate elected although the level set does not fit'))
        if len(ties) != n - len(above) or any(sorted(t['tie']) != level for t in ties):
            out.append(('tie_shape', f'expected {n - len(above)} ties naming {level}'))
        if res[:len(above)] != cands[:len(above)] or any(isinstance(x, dict) for x in res[:len(above)]):
            out.append(('tie_position', 'ties must come last'))
    if any(vals[c] < tau for c in cands):
        out.append(('lower_elected', 'a candidate below the n-th total is elected'))
    seq = [vals[x] for x in cands]
    if any(a < b for a, b in zip(seq, seq[1:])):
        out.append(('order', 'not non-increasing'))
    if len(set(cands)) != len(cands):
        out.append(('duplicate', 'candidate listed twice'))
    return out


def oracle(case, obs):
    if case['op'] == 'seq':
        out = []
        for k, (sub, o) in enumerate(zip(case['calls'], obs)):
            out += [('later_call_' + cl if k else cl, f'call {k + 1} of {len(case["calls"])} on one object: {d}') for cl, d in oracle(sub, o)]
        return out
    vals = {i: Fraction(s) for i, s in case['votes']}
    n = case['n']
    if case['op'] == 'sorted_votes':
        # stable sort of the items by value
        exp = sorted(case['votes'], key=lambda p: Fraction(p[1]), reverse=case['desc'])
        got = [[c, Fraction(v)] for c, v in obs] if not isinstance(obs, dict) else obs
        return [] if got == [[c, Fraction(v)] for c, v in exp] else [('sorted_votes_stable', str(obs))]
    if case['op'] in ('get_n_best', 'plurality'):
        return _oracle_nbest(vals, n, obs)
    if case['op'] == 'quota_selector':
        import votelib.component.quota as vq
        total = sum(vals.values())
        try:
            q = Fraction(case['quota'])                       # a constant quota
        except ValueError:
            q = Fraction(vq.get(case['quota'])(total, n))
        over = {c: v for c, v in vals.items() if v > q or (case['accept_equal'] and v == q)}
        if len(over) > n and case['on_more'] == 'error':
            return [] if obs == {'err': 'VotingSystemError'} else [('quota_error_expected', str(obs))]
        if isinstance(obs, dict):
            return [('unexpected_error', obs.get('err'))]
        foreign = [x for x in obs if not isinstance(x, dict) and x not in vals] + \
                  [y for x in obs if isinstance(x, dict) for y in x.get('tie', []) if y not in vals]
        if foreign:
            return [('foreign_candidate', f'{foreign} do not occur in the votes of this call; got {obs}')]
        if len(over) <= n:
            ok = sorted(obs) == sorted(over) if all(not isinstance(x, dict) for x in obs) else False
            seq = [vals[x] for x in obs if not isinstance(x, dict)]
            if not ok or any(a < b for a, b in zip(seq, seq[1:])):
                return [('quota_exact', f'over quota {sorted(over)} got {obs}')]
            return []
        return _oracle_nbest(over, n, obs)
    return []


def nontrivial(case, obs):
    if case['op'] == 'seq':
        return True
    return len(case['votes']) >= 2 and not isinstance(obs, dict)


def model_line(case):
    if case['op'] == 'seq':
        return None          # every single call is compared with the model by the single-call cases; the sequence is oracle-checked
    c = strip_case(case)
    return c


def _tag(case, obs):
    pass


def shrink_candidates(case):
    if case['op'] == 'seq':
        for i in range(len(case['calls']) - 1):
            c = dict(case)
            c['calls'] = case['calls'][:i] + case['calls'][i+1:]
            yield c
        return
    vs = case['votes']
    for i in range(len(vs)):
        if len(vs) > 1:
            nv = [[j, s] for j, (_, s) in enumerate(vs[:i] + vs[i+1:])]
            c = dict(case)
            c['votes'] = nv
            c['_types'] = (case.get('_types') or [])[:i] + (case.get('_types') or [])[i+1:]
            c['n'] = min(case['n'], len(nv))
            yield c
    if case['n'] > 1:
        c = dict(case)
        c['n'] = case['n'] - 1
        yield c


def describe(case):
    if case['op'] == 'seq':
        return 'one object, calls in a row: ' + '; '.join(describe(sub) for sub in case['calls'])
    return f"{case['op']}({_votes(case)!r}, {case['n']})" + (f" quota={case.get('quota')}" if 'quota' in case else '')


# tag after the fact: wrap generate so that counters reflect what the cases actually exercise
_gen = generate


def generate(rng, tier):     # noqa
    for c in _gen(rng, tier):
        if c['op'] == 'seq':
            yield c
            continue
        vals = {i: Fraction(s) for i, s in c['votes']}
        n = c['n']
        if c['op'] not in ('quota_selector', 'sorted_votes'):
            if len(vals) <= n:
                c['_tags'].append('all_elected')
            else:
                srt = sorted(vals.values(), reverse=True)
                tau = srt[n - 1]
                ge = sum(1 for v in vals.values() if v >= tau)
                c['_tags'].append('boundary_tie' if ge > n else 'level_fits')
        yield c

TECHNIQUE = 'Lean 4 proof of the level-set characterisation of get_n_best (unbounded) + differential correspondence of the model with votelib'
LEVEL_TEXT = ('get_n_best/Plurality/QuotaSelector are modelled line for line in Lean; the full statement of C09 (strictly-above elected in '
              'non-increasing order, level set all-or-tie with exact tie membership and multiplicity, nobody lower elected, exactly n places, '
              'invariance under strictly monotone value maps) is proved for all dictionaries and all n>=1; the model is tied to /repo by a '
              'differential correspondence run on every check plus a direct oracle of the property on the implementation.')
LEVEL_NOTE = ('Trusted: Lean kernel + propext/Classical.choice/Quot.sound; translate.py for the quota functions; the correspondence harness '
              '(bounded by its generator: 1-8 candidates, int/Fraction/Decimal values); CPython dict order and exact comparison of numeric types.')
