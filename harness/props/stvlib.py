"""Shared plumbing of the transferable-vote checks C03 / C04: protocol encoding of ballots and allocations,
instrumented runs of the real votelib (count-by-count recording, draw recording), profile generators."""
import logging
import itertools
from fractions import Fraction
from common import *   # noqa

NAMES = Names()
QUOTAS = ['droop', 'hare', 'hagenbach_bischoff', None]
_FS_CACHE = {}


# ------------------------------------------------------------------------------------------------
# ballots: case form = list of items, item = id | sorted list of ids (shared rank)

def py_item(it):
    if isinstance(it, list):
        import common as _common
        key = (_common.NAME_MODE,) + tuple(sorted(it))
        fs = _FS_CACHE.get(key)
        if fs is None:
            fs = frozenset(NAMES.n(i) for i in key[1:])
            _FS_CACHE[key] = fs
        return fs
    return NAMES.n(it)


def py_ballot(b):
    return tuple(py_item(it) for it in b)


def case_ballot(pb):
    """python ballot -> case form (shared ranks sorted)"""
    return [sorted(NAMES.i(x) for x in it) if isinstance(it, (frozenset, set)) else NAMES.i(it) for it in pb]


def model_ballot(pb):
    """python ballot -> protocol form for the model: shared ranks in the iteration order of the frozenset"""
    return [[NAMES.i(x) for x in it] if isinstance(it, (frozenset, set)) else NAMES.i(it) for it in pb]


def case_to_model_ballot(b):
    return model_ballot(py_ballot(b))


def num(s, as_int_ok=True):
    f = Fraction(s)
    return int(f) if f.denominator == 1 else f


def dec(s):
    """exact Decimal of a protocol number whose denominator is a power of ten"""
    from decimal import Decimal, localcontext
    f = Fraction(s)
    with localcontext() as ctx:
        ctx.prec = 200
        d = Decimal(f.numerator) / Decimal(f.denominator)
    if Fraction(d) != f:
        raise ValueError(f'not a finite decimal: {s}')
    return d


def py_votes(case):
    """case weights as votelib sees them: int / Fraction, or Decimal when the case says wtype = decimal"""
    conv = dec if case.get('wtype') == 'decimal' else num
    return {py_ballot(b): conv(w) for b, w in case['votes']}


def py_alloc(alloc):
    return {(None if h is None else NAMES.n(h)): {py_ballot(b): num(w) for b, w in pile} for h, pile in alloc}


def enc_alloc(alloc):
    """python allocation -> case/protocol form, dict order kept"""
    out = []
    for h, pile in alloc.items():
        out.append([None if h is None else NAMES.i(h), [[case_ballot(b), num_str(w)] for b, w in pile.items()]])
    return out


def canon_alloc(alloc):
    """protocol allocation (impl or model) -> (keys in order, {holder: sorted multiset of (ballot, weight)})"""
    keys = [h for h, _ in alloc]
    piles = {}
    for h, pile in alloc:
        ent = []
        for b, w in pile:
            cb = [sorted(it) if isinstance(it, list) else it for it in b]
            ent.append((json.dumps(cb), str(Fraction(w))))
        piles[json.dumps(h)] = sorted(ent)
    return keys, piles


def enc_seats(d):
    return [[NAMES.i(c), int(k)] for c, k in d.items()]


def seats_dict(l):
    return {NAMES.n(c): k for c, k in (l or [])}


# ------------------------------------------------------------------------------------------------
# configuration

REF_QUOTAS = {
    # textbook definitions, written here independently of votelib.component.quota (checklist item 8)
    'droop': lambda v, n: Fraction(v) // (n + 1) + 1 if Fraction(v) >= 0 else None,
    'hare': lambda v, n: Fraction(v) / n,
    'hagenbach_bischoff': lambda v, n: Fraction(v) / (n + 1),
}


def quota_is_const(q):
    return isinstance(q, str) and q.startswith('const:')


def ref_quota(case, total, n):
    """the quota value the configuration of the case must produce (None = no finite quota), from the textbook"""
    q = case.get('quota')
    if q is None or not total or not n:
        return None
    if quota_is_const(q):
        return Fraction(q[6:])
    f = REF_QUOTAS.get(q)
    return f(Fraction(total), n) if f else None


def make_quota(case):
    """quota_function argument in the form the case asks for: name (default), the callable itself, a constant object"""
    import votelib.component.quota as vq
    q = case.get('quota')
    if q is None:
        return None
    if quota_is_const(q):
        return vq.constant(num(q[6:]))
    if case.get('quota_form') == 'callable':
        return getattr(vq, q)
    return q


def make_distributor(case):
    import votelib.evaluate.sequential as seq
    import votelib.evaluate.core as vcore
    import votelib.component.transfer as tr
    if case.get('transferer_form') == 'name':
        # by class name; `Hare` then has no seed (draws are recorded anyway)
        t = 'Gregory' if case['method'] == 'gregory' else 'Hare'
    else:
        t = tr.Gregory() if case['method'] == 'gregory' else tr.Hare(seed=case.get('seed', 0))
    kw = {}
    if case.get('retainer') == 'plurality':
        kw['retainer'] = vcore.Plurality()      # same ranking as the built-in get_n_best, other code path (L329-332)
    return seq.TransferableVoteDistributor(
        transferer=t, eliminate_step=case.get('step', -1), quota_function=make_quota(case),
        accept_quota_equal=case.get('accept_equal', True), mandatory_quota=case.get('mandatory', False), **kw)


def cfg_line(case):
    q = case.get('quota')
    return {'method': case['method'], 'quota': (q[6:] if quota_is_const(q) else q), 'accept_equal': case.get('accept_equal', True),
            'mandatory': case.get('mandatory', False), 'step': case.get('step', -1)}


class DrawRecorder:
    """monkey-patches votelib.component.transfer.distribute_n_random in this process (no repo change);
    records (weights, n, limit_by_weight, answer) and checks the DrawOK contract of every answer"""
    def __init__(self):
        self.calls = []
        self.bad = []

    def __enter__(self):
        import votelib.component.transfer as tr
        self.tr = tr
        self.orig = tr.distribute_n_random

        def rec(cand_weights, n, limit_by_weight=False):
            ans = self.orig(cand_weights, n, limit_by_weight)
            self.calls.append((dict(cand_weights), n, limit_by_weight, dict(ans)))
            try:
                ok = (all(k in cand_weights for k in ans) and all(v >= 0 for v in ans.values())
                      and sum(ans.values()) == n
                      and (not limit_by_weight or all(v <= cand_weights[k] for k, v in ans.items())))
            except Exception:
                ok = False
            if not ok:
                self.bad.append(f'weights={list(cand_weights.values())} n={n} limit={limit_by_weight} answer={list(ans.values())}')
            return ans
        tr.distribute_n_random = rec
        return self

    def __exit__(self, *a):
        self.tr.distribute_n_random = self.orig

    def protocol(self):
        out = []
        for w, n, lim, ans in self.calls:
            # '_k' (number of weights offered) and '_n' (number asked for) are harness-only; the driver reads 'p' / 'c'
            if lim:
                out.append({'p': [[model_ballot(b), num_str(v)] for b, v in ans.items()], '_k': len(w), '_n': num_str(n)})
            else:
                out.append({'c': [[NAMES.i(c), num_str(v)] for c, v in ans.items()], '_k': len(w), '_n': num_str(n)})
        return out


class LogTap(logging.Handler):
    """captures the INFO records of votelib.evaluate.sequential (which branch a count took)"""
    def __init__(self):
        super().__init__(level=logging.DEBUG)
        self.records = []

    def emit(self, record):
        self.records.append((record.msg, record.args))

    def __enter__(self):
        import votelib.evaluate.sequential as seq
        self.lg = seq.logger
        self.old_level = self.lg.level
        self.old_prop = self.lg.propagate
        self.lg.setLevel(logging.INFO)
        self.lg.propagate = False
        self.lg.addHandler(self)
        return self

    def __exit__(self, *a):
        self.lg.removeHandler(self)
        self.lg.setLevel(self.old_level)
        self.lg.propagate = self.old_prop

    def take(self):
        r, self.records = self.records, []
        return r


def defloat(obj):
    """replace protocol floats ('float:0.3') by the exact rational of the float so that the oracle can go on; returns (obj, first
    float seen or None) - a float among the weights of an exact count is reported, not crashed on"""
    seen = []

    def go(x):
        if isinstance(x, str) and x.startswith('float:'):
            seen.append(x)
            try:
                return num_str(Fraction(float(x[6:])))
            except (ValueError, OverflowError):
                return '0'
        if isinstance(x, list):
            return [go(y) for y in x]
        if isinstance(x, dict):
            return {k: go(v) for k, v in x.items()}
        return x
    out = go(obj)
    return out, (seen[0] if seen else None)


def qstr(q):
    if q is None or q == float('inf'):
        return None
    return num_str(q)


def count_info(records):
    """branch information of one next_count call from its log records"""
    shortcut = any(isinstance(m, str) and m.startswith('electing all remaining') for m, _ in records)
    eliminated = None
    for m, a in records:
        if isinstance(m, str) and m.startswith('eliminating'):
            eliminated = a[0] if isinstance(a, tuple) else a
    return shortcut, (sorted(NAMES.i(c) for c in eliminated) if eliminated else [])


class HarnessTimeout(BaseException):
    """the CPU budget of one case is used up (BaseException: not swallowed by `except Exception` around library calls)"""


class TooManyCounts(BaseException):
    """the count went on for more counts than any terminating count of that many candidates can need"""


CASE_CPU_LIMIT = 6      # seconds of CPU per case (implementation side)


class hard_guard:
    """CPU-time guard on ITIMER_PROF / SIGPROF, independent of the SIGALRM alarms around the single library calls"""
    def __init__(self, seconds=CASE_CPU_LIMIT):
        self.seconds = seconds

    def __enter__(self):
        import signal

        def fire(signum, frame):
            raise HarnessTimeout(f'case used more than {self.seconds} s of CPU')
        self.old = signal.signal(signal.SIGPROF, fire)
        signal.setitimer(signal.ITIMER_PROF, self.seconds)

    def __exit__(self, *a):
        import signal
        signal.setitimer(signal.ITIMER_PROF, 0)
        signal.signal(signal.SIGPROF, self.old)
        return False


def count_cap(case):
    """every count that does not raise fills a seat or removes a candidate: 4 x candidates + 10 counts are far more than enough"""
    if 'votes' in case:
        m = len(profile_cands(case['votes']))
    else:
        m = len(case.get('alloc') or [])
    return 4 * m + 10 + 2 * int(case.get('n') or 0)


def budget_clause(err):
    return {'DoesNotTerminate': 'does_not_terminate', 'CaseExceedsTimeBudget': 'case_exceeds_time_budget'}.get(err)


def canon_obj(o, depth=0, skip=()):
    """order-preserving canonical form of a python object graph (dicts keep their order; objects by class and attributes;
    callables by name), used to tell whether something was changed in place"""
    if depth > 8:
        return '...'
    if isinstance(o, dict):
        return ['dict', [[canon_obj(k, depth + 1), canon_obj(v, depth + 1)] for k, v in o.items() if k not in skip]]
    if isinstance(o, (list, tuple)):
        return [type(o).__name__, [canon_obj(x, depth + 1) for x in o]]
    if isinstance(o, (set, frozenset)):
        return [type(o).__name__, sorted(json.dumps(canon_obj(x, depth + 1), default=str) for x in o)]
    if o is None or isinstance(o, (bool, int, float, str, Fraction)):
        return [type(o).__name__, repr(o)]
    if callable(o) and hasattr(o, '__qualname__'):
        return ['callable', getattr(o, '__module__', ''), o.__qualname__]
    if hasattr(o, '__dict__'):
        return ['obj', type(o).__name__, id(o) if type(o).__name__ == 'Person' else canon_obj(vars(o), depth + 1)]
    return ['other', type(o).__name__, repr(o)]


def record_run(case, call, args=None, form='selector'):
    """run `call(dist, selector)` on an instrumented distributor; returns (result | {'err'}, counts, draws, bad_draws, errmsg)
    counts: one dict per executed next_count: alloc_in, prev, alloc_out, elected, shortcut, eliminated, quota.
    args: the very objects handed to the library (votes, prev_gains, max_seats, allocation): they, the evaluator's own attributes
    and the returned result must be the same before and after (aliasing, checklist item 12); failures are reported in bad_draws
    with the prefix 'aliasing:'"""
    import votelib.evaluate.sequential as seq
    dist = make_distributor(case)
    counts = []
    quotas = []
    live = []       # (record, the allocation object passed in, the allocation object returned): re-read after the run
    orig_next = dist.next_count
    orig_q = dist._compute_quota

    def wrap_q(total, n):
        v = orig_q(total, n)
        quotas.append(v)
        return v

    with DrawRecorder() as dr, LogTap() as tap:
        cap = count_cap(case)

        def wrap_next(allocation, n_seats, total_n_votes, prev_gains={}, max_seats={}):
            if len(counts) >= cap:
                raise TooManyCounts(f'more than {cap} counts')
            tap.take()
            del quotas[:]
            rec = {'alloc_in': enc_alloc(allocation), 'prev': enc_seats(prev_gains)}
            try:
                new_alloc, newly = orig_next(allocation, n_seats, total_n_votes, prev_gains=prev_gains, max_seats=max_seats)
            except Exception as e:      # noqa
                rec['err'] = err_name(e)
                rec['quota_seen'] = qstr(quotas[-1]) if quotas else None
                rec['quota_computed'] = bool(quotas)
                counts.append(rec)
                raise
            shortcut, eliminated = count_info(tap.take())
            rec.update({'alloc': enc_alloc(new_alloc), 'elected': enc_seats(newly), 'shortcut': shortcut,
                        'eliminated': eliminated, 'quota': qstr(quotas[-1]) if quotas else None})
            if json.dumps(enc_alloc(allocation)) != json.dumps(rec['alloc_in']):
                rec['mutated'] = 'the count changed the allocation it was given'
            live.append((rec, allocation, new_alloc))
            counts.append(rec)
            return new_alloc, newly
        sel = seq.TransferableVoteSelector(dist)
        warm = case.get('warmup')
        if warm:
            # the SAME evaluator object first counts another election (possibly refused); nothing of it may survive
            wv = {py_ballot(b): num(w) for b, w in warm['votes']}
            try:
                call_with_timeout(lambda: sel.evaluate(wv, warm['n']), 5)
            except Exception:      # noqa
                pass
            del dr.calls[:]
            del dr.bad[:]
            tap.take()
        args_before = {k: canon_obj(v) for k, v in (args or {}).items()}
        own_before = canon_obj(vars(dist))
        dist.next_count = wrap_next
        dist._compute_quota = wrap_q
        msg = None
        try:
            res = call_with_timeout(lambda: call(dist, sel), 5)
        except TooManyCounts as e:
            res = {'err': 'DoesNotTerminate'}
            msg = str(e)
        except Exception as e:      # noqa
            res = {'err': err_name(e)}
            msg = str(e)
        del dist.next_count
        del dist._compute_quota
        alias = []
        for k, v in (args or {}).items():
            if canon_obj(v) != args_before[k]:
                alias.append(f'aliasing: the {k} argument was changed by the call: now {v!r}'[:300])
        if canon_obj(vars(dist)) != own_before:
            alias.append('aliasing: the attributes of the evaluator changed during the call')
        if not (isinstance(res, dict) and 'err' in res):
            # what was returned must stay as it is when the same object counts another election afterwards
            res_before = canon_obj(res)
            n_calls, n_bad = len(dr.calls), len(dr.bad)
            other = {(NAMES.n(0), NAMES.n(1)): 3, (NAMES.n(1),): 2, (NAMES.n(2), NAMES.n(0)): 1}
            try:
                call_with_timeout(lambda: (sel if form == 'selector' else dist).evaluate(other, 1), 5)
            except Exception:      # noqa
                pass
            del dr.calls[n_calls:]
            del dr.bad[n_bad:]
            tap.take()
            if canon_obj(res) != res_before:
                alias.append('aliasing: the returned result changed when the same object counted another election')
            if canon_obj(vars(dist)) != own_before:
                alias.append('aliasing: the attributes of the evaluator changed between calls')
        dr.bad[:0] = alias
        # a state must not change after it was returned: every allocation object of the run is read again now that the process
        # has finished and compared with the copy taken when it was produced (checklist item 6)
        for i, (rec, a_in, a_out) in enumerate(live):
            if 'mutated' in rec:
                continue
            try:
                if json.dumps(enc_alloc(a_in)) != json.dumps(rec['alloc_in']):
                    rec['mutated'] = f'the state count {i + 1} started from was changed by a later count: now {enc_alloc(a_in)}'
                elif json.dumps(enc_alloc(a_out)) != json.dumps(rec['alloc']):
                    rec['mutated'] = f'the state returned by count {i + 1} was changed by a later count: now {enc_alloc(a_out)}'
            except Exception as e:      # noqa
                rec['mutated'] = f'state of count {i + 1} unreadable afterwards: {type(e).__name__}'
        counts, leak = defloat(counts)
        if leak:
            dr.bad.append('float in an exact path: ' + leak)
        return res, counts, dr.protocol(), dr.bad, msg


# ------------------------------------------------------------------------------------------------
# profile generators

WEIGHT_SETS = {
    'small': [0, 1, 1, 2, 2, 3, 3, 4, 6, 12],
    'mid': list(range(1, 40)),
}


def rand_ballot(rng, m, shared_p=0.0, trunc_p=0.5, empty_p=0.02, first_from=None):
    if rng.random() < empty_p:
        return []
    perm = list(range(m))
    rng.shuffle(perm)
    if first_from:
        f = rng.choice(first_from)
        perm.remove(f)
        perm.insert(0, f)
    if rng.random() < trunc_p:
        perm = perm[:rng.randint(1, m)]
    out = []
    i = 0
    while i < len(perm):
        if rng.random() < shared_p and i + 1 < len(perm) and not (first_from and i == 0):
            k = rng.randint(2, min(4, len(perm) - i))
            out.append(sorted(perm[i:i + k]))
            i += k
        else:
            out.append(perm[i])
            i += 1
    return out


def rand_weight(rng, weights='small', fractions=False):
    if weights == 'big':
        return 10 ** rng.choice([12, 20]) + rng.randint(0, 5)
    if fractions and rng.random() < 0.5:
        return Fraction(rng.randint(0, 24), rng.choice([2, 3, 4, 5]))
    return rng.choice(WEIGHT_SETS[weights])


def rand_profile(rng, m, n_types, shared_p=0.0, weights='small', fractions=False, first_from=None, empty_p=0.02):
    votes = {}
    for _ in range(n_types):
        b = rand_ballot(rng, m, shared_p, empty_p=empty_p, first_from=first_from)
        votes[json.dumps(b)] = (b, rand_weight(rng, weights, fractions))
    return [[b, num_str(w)] for b, w in votes.values()]


def ballot_cands(b):
    out = []
    for it in b:
        for c in (it if isinstance(it, list) else [it]):
            if c not in out:
                out.append(c)
    return out


def profile_cands(votes):
    s = []
    for b, _ in votes:
        for c in ballot_cands(b):
            if c not in s:
                s.append(c)
    return s


def has_shared(b):
    return any(isinstance(it, list) for it in b)


def describe_case(case):
    tdesc = (repr('Gregory' if case['method'] == 'gregory' else 'Hare') if case.get('transferer_form') == 'name'
             else ('Gregory()' if case['method'] == 'gregory' else 'Hare(seed=%r)' % case.get('seed', 0)))
    q = case.get('quota')
    qdesc = (f'quota.constant({q[6:]})' if quota_is_const(q) else f'quota.{q}' if case.get('quota_form') == 'callable' else repr(q))
    cfgs = (f"transferer={tdesc}, " + ("retainer=Plurality(), " if case.get('retainer') else '') +
            f"eliminate_step={case.get('step', -1)}, quota_function={qdesc}, "
            f"accept_quota_equal={case.get('accept_equal', True)}, mandatory_quota={case.get('mandatory', False)}")
    if 'votes' in case:
        votes = py_votes(case)
        if case.get('warmup'):
            cfgs += '; the same object first evaluates ' + repr(({py_ballot(b): num(w) for b, w in case['warmup']['votes']}, case['warmup']['n']))
        if case.get('form', 'selector') == 'selector':
            return f"TransferableVoteSelector({cfgs}).evaluate({votes!r}, {case['n']})"
        return (f"TransferableVoteDistributor({cfgs}).evaluate({votes!r}, {case['n']}, "
                f"prev_gains={seats_dict(case.get('prev'))!r}, max_seats={seats_dict(case.get('max'))!r})")
    return (f"TransferableVoteDistributor({cfgs}).next_count({py_alloc(case['alloc'])!r}, {case['n']}, {case['total']}, "
            f"prev_gains={seats_dict(case.get('prev'))!r}, max_seats={seats_dict(case.get('max'))!r})")


# ------------------------------------------------------------------------------------------------
# directed shapes of the generator audit (harness/GENERATOR_CHECKLIST.md)

def big_boundary_profile(rng, n, delta, k=1):
    """integer weights of 10^15 .. 10^30: candidate 0 holds exactly k Droop quotas (delta = 0), one vote less (-1) or one more
    (+1); pile x quota is far above 2^53, so any float in `total // quota`, `n * quota` or the surplus fraction shows"""
    e = rng.choice([15, 16, 18, 20, 25, 30])
    q = 10 ** e + rng.randint(1, 999)
    V = (n + 1) * (q - 1) + rng.randint(0, n)          # Droop quota of V votes for n seats is exactly q
    a = k * q + delta
    rest = V - a
    m = n + 2
    parts = []
    left = rest
    for i in range(1, m):
        share = left if i == m - 1 else min(left, q - 1 - rng.randint(1, 10 ** (e - 3)))
        parts.append(share)
        left -= share
    if left != 0 or any(p < 0 for p in parts):
        parts[-1] += left
    votes = [[[0, 1], str(a)]]
    for i, p in enumerate(parts, start=1):
        if p > 0:
            votes.append([[i, (i % (m - 1)) + 1] if i % 2 else [i], str(p)])
    return votes, q, V


def near_tie_big_profile(rng):
    """elimination decided by one vote at 10^18 .. 10^30"""
    v = 10 ** rng.choice([18, 24, 30]) + rng.randint(0, 9)
    return [[[0, 2], str(v)], [[1, 2], str(v + 1)], [[2], str(3 * v)]]


def shared_only_profile(rng):
    """candidate 0 occurs ONLY inside shared ranks (families.gen_ranked_shared_only), enough weight for several seats"""
    w = rng.choice([6, 8, 10])
    prof = [[[[0, 1]], str(w)], [[[0, 2]], str(w)], [[3], str(rng.randint(1, 3))], [[[1, 2, 4], 3], str(rng.randint(1, 2))]]
    if rng.random() < 0.5:
        prof.append([[[0, 1, 2, 5]], str(rng.randint(1, 4))])
    rng.shuffle(prof)
    return prof


def exhausted_quota_profile(rng, n=4):
    """bullet votes only, four seats: two winners with large surpluses and nine losers eliminated one by one - the exhausted pile
    passes two Droop quotas (74 of 182..184 votes, quota 37) while counts still go on"""
    x = rng.randint(0, 2)
    votes = [[[0], str(60 + x)], [[1], '50']] + [[[c], str(c + 2)] for c in range(2, 11)]
    rng.shuffle(votes)
    return votes


def decimal_profile(rng, long=False):
    """finite-decimal weights without shared ranks (Decimal works with quota_function=None: no Fraction() of a weight is taken)"""
    def w():
        if long:
            return Fraction(rng.randint(1, 10 ** 9), 10 ** rng.choice([7, 8, 9]))
        return Fraction(rng.randint(1, 400), rng.choice([1, 10, 100]))
    m = rng.randint(3, 5)
    votes = {}
    for _ in range(rng.randint(3, 7)):
        b = rand_ballot(rng, m, 0.0, empty_p=0)
        votes[json.dumps(b)] = (b, w())
    return [[b, num_str(x)] for b, x in votes.values()]


def warmup_variants(rng, votes, n):
    """other elections the same object counts first: a refused one (tie), a larger profile, a different seat number"""
    cands = profile_cands(votes)
    kind = rng.choice(['refusal', 'larger', 'other_n', 'big'])
    if kind == 'refusal':
        return kind, {'votes': [[[0], '2'], [[1], '2'], [[2], '4']], 'n': 1}
    if kind == 'larger':
        return kind, {'votes': rand_profile(rng, 6, 10, 0.1, 'mid', False, empty_p=0), 'n': rng.randint(1, 3)}
    if kind == 'big':
        return kind, {'votes': [[b, num_str(Fraction(w) * 10 ** 12 + 7)] for b, w in votes], 'n': n}
    return kind, {'votes': votes, 'n': (n % max(1, len(cands))) + 1}


def reexhaust_profile(rng):
    """an elimination count in which a ballot exhausts while an exhausted pile already exists from an earlier count (two seats,
    Droop): the surplus of 0 partly exhausts, later the bullet votes of an excluded candidate join the same pile"""
    x = rng.randint(0, 2)
    votes = [[[0], str(8 + x)], [[0, 1], '8'], [[1], '7'], [[2, 1], '6'], [[3], '3'], [[4, 3], '2']]
    if rng.random() < 0.5:
        votes.append([[5], '1'])
    return votes


# ------------------------------------------------------------------------------------------------
# checklist items 10 (multiplicity of the rare event) and 11 (every argument x every option)

def multiplicity_cases(rng):
    """[(votes, n, options, tags)]: the rare events several at a time"""
    x = rng.randint(0, 4)
    out = []
    # three candidates reach the quota (9 of 40..44 votes, four seats) in one count
    v3 = [[[0, 4], str(12 + x)], [[1, 3], '11'], [[2], '10'], [[3], '4'], [[4, 3], '3']]
    out.append((v3, 4, {}, ['three_elected_one_count']))
    out.append((v3, 4, {'method': 'hare', 'seed': rng.randint(0, 9)}, ['three_elected_one_count']))
    # two candidates elected exactly on the quota (6 of 23 votes, three seats): their piles are used up entirely
    v2 = [[[0, 2], '6'], [[1, 3], '6'], [[2], '5'], [[3], '3'], [[4, 2], '3']]
    out.append((v2, 3, {}, ['two_on_quota_exactly']))
    out.append((v2, 3, {'method': 'hare', 'seed': rng.randint(0, 9)}, ['two_on_quota_exactly']))
    out.append((v2, 3, {'accept_equal': False}, ['two_on_quota_exactly_not_accepted']))
    # three-way shared ranks whose weight leaves a remainder of two, under Hare with several seeds (first rank and later rank)
    k = rng.randint(1, 3)
    for seed in range(6):
        out.append(([[[[0, 1, 2], 3], str(3 * k + 2)], [[3, [0, 1, 2]], '5'], [[1], '2'], [[2, 0], '1']], 2,
                    {'method': 'hare', 'seed': seed}, ['hare_3way_remainder2_directed']))
    # eliminate_step -2: the two lowest level with each other (both go), and a tie across the boundary (refusal)
    for q in (None, 'droop'):
        out.append(([[[0], '9'], [[1, 0], '5'], [[2, 1], '3'], [[3, 0], '3']], 1, {'step': -2, 'quota': q}, ['step2_tie_inside_eliminated']))
        out.append(([[[0], '9'], [[1, 0], '5'], [[2, 1], '5'], [[3, 0], '3']], 1, {'step': -2, 'quota': q}, ['step2_tie_at_boundary']))
    # four candidates over a constant quota of 3 for two seats: two over-awarded seats are taken back
    out.append(([[[0], '6'], [[1, 0], '5'], [[2], '4'], [[3], '3'], [[4], '1']], 2, {'quota': 'const:3'}, ['two_over_awarded_directed']))
    # a quota below one vote; fewer votes than seats
    out.append(([[[0, 1], '1/3'], [[1], '1/4'], [[2, 0], '1/5']], 1, {'quota': 'hare'}, ['quota_below_one_directed']))
    out.append(([[[0, 1], '1/3'], [[1], '1/4'], [[2, 0], '1/5']], 2, {'quota': 'const:1/8'}, ['quota_below_one_directed']))
    out.append(([[[0, 1], '1'], [[2, 3], '1']], 3, {}, ['fewer_votes_than_seats']))
    # no seat at all
    out.append(([[[0, 1], '3'], [[1], '2']], 0, {}, ['n_seats_zero']))
    return out


CROSS_QUOTAS = [('droop', None), ('hare', None), ('hagenbach_bischoff', None), (None, None), ('droop', 'callable'), ('const:7/2', None)]


def cross_option_cases(rng, distributor=True):
    """mandatory_quota x accept_quota_equal x every quota form, in the selector form and in the distributor form with
    max_seats and prev_gains: [(votes, n, options)]"""
    out = []
    for mand in (False, True):
        for eq in (True, False):
            for quota, qform in CROSS_QUOTAS:
                votes = rand_profile(rng, 4, rng.randint(3, 6), rng.choice([0, 0, 0.2]), rng.choice(['small', 'mid']), False, empty_p=0)
                cands = profile_cands(votes)
                if len(cands) < 2:
                    votes = votes + [[[0, 1], '3'], [[1, 2], '2']]
                    cands = profile_cands(votes)
                opts = {'mandatory': mand, 'accept_equal': eq, 'quota': quota, 'method': 'gregory'}
                if qform:
                    opts['quota_form'] = qform
                out.append((votes, rng.randint(1, len(cands)), dict(opts, form='selector')))
                if distributor:
                    maxs = [[c, rng.randint(1, 3)] for c in cands]
                    prev = []
                    big = [c for c, k in maxs if k >= 2]
                    if big and rng.random() < 0.6:
                        prev.append([rng.choice(big), 1])
                    if rng.random() < 0.3:
                        prev.append([9, 1])
                        maxs.append([9, 2])
                    n = rng.randint(max(1, sum(k for _, k in prev)), max(1, sum(k for _, k in prev)) + len(cands))
                    out.append((votes, n, dict(opts, form='distributor', max=maxs, prev=prev)))
    return out


def deep_only_profile(rng):
    """a candidate with no first preference, named only at the third rank or lower, while the ballot listed LAST is a bullet vote:
    a rank scan that stops where the last ballot ends never sees that candidate"""
    x = rng.randint(0, 2)
    votes = [[[0, 1, 3], str(6 + x)], [[1, 0, 3], '5'], [[2], '2']]
    if rng.random() < 0.5:
        votes.insert(rng.randint(0, 2), [[1, 2, 0, 5], '1'])
    votes.append([[4], '1'])          # listed last, one rank only
    return votes


def deep_only_after_last(votes):
    if not votes:
        return False
    last = len(votes[-1][0])
    depth = {}
    for b, _ in votes:
        for i, it in enumerate(b):
            for c in (it if isinstance(it, list) else [it]):
                depth[c] = min(depth.get(c, 10 ** 9), i)
    return any(d >= last and d >= 1 for d in depth.values())


def hare_shared_coalition_profile(rng):
    """a coalition expressed THROUGH shared first ranks, sitting exactly on the Droop quota, with pile sizes that leave a
    remainder when divided among the co-ranked candidates (3, 5 over two; 4, 5, 8 over three); two seats: outsider 8 holds a quota,
    outsider 9 one vote less, so the coalition must get the second seat.  Returns (votes, coalition)."""
    g = rng.choice([2, 3])
    S = list(range(g))
    sizes = [3, 5] if g == 2 else [4, 5, 8]
    p1, p2 = rng.choice(sizes), rng.choice(sizes)
    s_ = rng.randint(0, 2)
    q = p1 + p2 + s_
    votes = [[[S], str(p1)], [[S, 9], str(p2)]]
    if s_:
        votes.append([list(S), str(s_)])
    votes += [[[8], str(q)], [[9], str(q - 1)]]
    return votes, S
