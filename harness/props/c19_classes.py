"""C19 helper: reflection over every public votelib class carrying ``to_dict``.

Generates random admissible constructor arguments as pure-JSON *specs*, builds the real objects and runs them on
inputs suited to their kind, returning canonical JSON-able outcomes (so an object and its reloaded copy can be compared).

API: discover, KINDS, covered, gen_spec(rng, cls=None, depth=4, avoid=()), gen_bad_spec, build, outcomes(obj, seed, n=6),
spec_classes, spec_depth, spec_features, spec_hazards, is_deterministic, check_spec(spec, seed) (the C19 check of one spec),
AVOIDABLE (known-defect triggers that ``avoid`` can switch off).  ``python c19_classes.py [--all]`` runs the self-test.

Spec format (pure JSON):
  object   {"t":"obj","cls":"votelib.evaluate.core.Plurality","args":{param: value-spec}}   (omitted param = default)
  values   {"t":"int","v":3} {"t":"bool","v":true} {"t":"none"} {"t":"str","v":"droop"} {"t":"frac","v":"7/5"}
           {"t":"dec","v":"0.05"} {"t":"list","v":[..]} {"t":"tuple","v":[..]} {"t":"dict","k":[..],"v":[..]}
           {"t":"callable","v":"votelib.component.quota.droop"}
  bad only {"t":"closure","v":"modified_first_coef"|"quota_constant"|"lambda"|"partial"|"constituency_keys", ...}

Outcome encoding: numbers as exact Fraction strings, dict -> {"dict": [[k, v], ..] sorted by key}, set -> {"set": sorted},
Tie -> {"tie": sorted}, candidate objects -> {"cand": class, "name": name}, exceptions -> {"err": type name}.
Calls are limited to 0.5 s each (endless seat-levelling loops exist) - only on POSIX in the main thread.

Stdlib + votelib only; all randomness comes from the ``rng`` passed in; no global mutable state.
"""
import contextlib
import functools
import importlib
import inspect
import json
import os
import pkgutil
import random
import signal
import sys
import threading
from decimal import Decimal
from fractions import Fraction

try:
    import votelib  # noqa: F401  (the harness puts the checkout on sys.path)
except ImportError:  # pragma: no cover
    sys.path.insert(0, os.environ.get('VOTELIB_REPO', '/repo'))
    import votelib  # noqa: F401

# ----------------------------------------------------------------------------------------------------------------------
# discovery


def _fullname(cls):
    return cls.__module__ + '.' + cls.__name__


@functools.lru_cache(maxsize=None)
def _discover_cached():
    import votelib
    mods = [votelib]
    for info in pkgutil.walk_packages(votelib.__path__, 'votelib.'):
        mods.append(importlib.import_module(info.name))
    found = {}
    for mod in mods:
        for name, c in vars(mod).items():
            if (inspect.isclass(c) and c.__module__ == mod.__name__ and not name.startswith('_')
                    and hasattr(c, 'to_dict')):
                found[_fullname(c)] = c
    return found


def discover():
    """'votelib.evaluate.core.Plurality' -> class, for every public class carrying to_dict."""
    return dict(_discover_cached())


def _resolve(dotted):
    if '.' not in dotted:
        import builtins
        return getattr(builtins, dotted)
    mod, name = dotted.rsplit('.', 1)
    return getattr(importlib.import_module(mod), name)


# ----------------------------------------------------------------------------------------------------------------------
# the class table:  full name -> (kind, input vote type, output vote type (converters), leaf?, argument generator)

_E, _CO, _CD = 'votelib.evaluate.', 'votelib.convert.', 'votelib.candidate.'
_QM, _DM, _PM = 'votelib.component.quota.', 'votelib.component.divisor.', 'votelib.component.pairwin_scorer.'
QUOTAS = ['hare', 'hare_rounded', 'droop', 'hagenbach_bischoff', 'hagenbach_bischoff_ceil',
          'hagenbach_bischoff_rounded', 'imperiali']
DIVISORS = ['d_hondt', 'sainte_lague', 'imperiali', 'danish', 'macau', 'huntington_hill']
PAIRWINS = ['winning_votes', 'margins', 'pairwise_opposition']
AGG_NAMES = ['mean', 'median', 'median_low', 'median_high', 'max', 'min', 'sum']
AGG_CALLABLES = ['statistics.median_low', 'statistics.median_high', 'builtins.max', 'builtins.min', 'builtins.sum',
                 'votelib.util.exact_mean', 'statistics.mean']
CONDORCET_NAMES = ['rankedpairs_winvotes', 'rankedpairs_margins', 'rankedpairs_pwo', 'copeland_2o', 'copeland_raw',
                   'schulze', 'kemeny_young', 'minimax_winvotes', 'minimax_margins', 'minimax_pwo']
ROUNDINGS = ['ROUND_DOWN', 'ROUND_HALF_UP', 'ROUND_HALF_EVEN', 'ROUND_CEILING', 'ROUND_FLOOR', 'ROUND_UP',
             'ROUND_HALF_DOWN']
RANDOM_CLASSES = (_E + 'auxiliary.Sortitor', _E + 'auxiliary.RandomUnrankedBallotSelector',
                  'votelib.component.transfer.Hare')
VOTE_TYPES = ['simple', 'ranked', 'approval', 'score', 'condorcet', 'nested', 'persons', 'parties']
SUBSETTER_FOR = {'approval': 'votelib.vote.ApprovalSubsetter', 'ranked': 'votelib.vote.RankedSubsetter',
                 'score': 'votelib.vote.ScoreSubsetter'}
# Known-defect triggers which gen_spec(avoid=...) can switch off (all are generated by default):
AVOIDABLE = ('checker_nonint_bounds',     # VoteMagnitudeChecker.to_dict emits raw Fraction/Decimal bounds
             'validator_defaultdict',     # Ranked/Score validators keep defaultdicts that reload as plain dicts
             'star_fraction',             # STAR.to_dict emits raw runoff_added_fraction
             'star_unscored_name',        # STAR(unscored_value='min') saves a callable that STAR refuses at load
             'openlist_quota_fraction')   # ThresholdOpenList(quota_function, quota_fraction != 1) stores a closure
_OMIT = object()
_NONE = {'t': 'none'}
_TABLE = {}


class _Entry:
    __slots__ = ('name', 'kind', 'vin', 'vout', 'leaf', 'fn', 'mind')

    def __init__(self, name, kind, vin, vout, leaf, fn, mind):
        self.name, self.kind, self.vin, self.vout, self.leaf, self.fn = name, kind, vin, vout, leaf, fn
        self.mind = mind or (1 if leaf else 2)          # least object nesting depth the class needs


def _reg(name, kind, vin=None, fn=None, leaf=True, vout=None, mind=None):
    _TABLE[name] = _Entry(name, kind, vin, vout, leaf, fn or (lambda g, d, k, vt: {}), mind)


def _vt_ok(vin, vt):
    return vt is None or vin == vt or vin == '*' or (vin == 'simple' and vt in ('persons', 'parties'))


class _G:
    """Random value-spec factory bound to one rng."""

    def __init__(self, rng, avoid=()):
        self.r, self.avoid = rng, frozenset(avoid)

    # -- primitives
    def p(self, x): return self.r.random() < x                                  # noqa: E704
    def pick(self, seq): return seq[self.r.randrange(len(seq))]                 # noqa: E704
    def ok(self, tag): return tag not in self.avoid                             # noqa: E704
    def I(self, lo, hi): return {'t': 'int', 'v': self.r.randint(lo, hi)}       # noqa: E704,E743
    def B(self): return {'t': 'bool', 'v': self.p(.5)}                          # noqa: E704
    def S(self, *choices): return {'t': 'str', 'v': self.pick(choices)}         # noqa: E704
    def opt(self, spec, p=.4): return _OMIT if self.p(p) else spec              # noqa: E704

    def frac(self, lo, hi):
        d = self.pick((2, 3, 5, 7, 10, 100))
        while True:
            n = self.r.randint(lo * d, max(hi * d, lo * d + d))
            if n % d:
                return {'t': 'frac', 'v': str(Fraction(n, d))}

    def dec(self, lo, hi):
        k = self.r.randint(lo * 100, hi * 100)
        style = self.r.randrange(3)
        if style == 0:
            return {'t': 'dec', 'v': '%d.%02d' % (k // 100, k % 100)}
        if style == 1:
            return {'t': 'dec', 'v': '%d.%d' % (k // 100, k % 100 // 10)}
        return {'t': 'dec', 'v': str(k // 100)}

    def num(self, lo=0, hi=5, exact=True):
        """int / non-integer Fraction / Decimal in [lo, hi]."""
        x = self.r.random()
        if x < .4 or not exact:
            return self.I(lo, hi)
        return self.frac(lo, hi) if x < .75 else self.dec(lo, hi)

    def unit(self):
        """A share in [0, 1): Fraction, Decimal or 0."""
        x = self.r.random()
        if x < .45:
            return {'t': 'frac', 'v': str(Fraction(self.r.randint(1, 40), 100))}
        if x < .9:
            return {'t': 'dec', 'v': self.pick(('0.05', '0.1', '0.03', '0.25', '0.050', '.2', '0.5'))}
        return {'t': 'int', 'v': 0}

    def named(self, names, module, p_str=.5):
        n = self.pick(names)
        return {'t': 'str', 'v': n} if self.p(p_str) else {'t': 'callable', 'v': module + n}

    def quota(self): return self.named(QUOTAS, _QM)                             # noqa: E704
    def divisor(self, names=DIVISORS[:5] * 3 + DIVISORS[5:]): return self.named(names, _DM)      # noqa: E704
    def pairwin(self): return self.named(PAIRWINS, _PM)                         # noqa: E704

    def agg(self):
        return {'t': 'str', 'v': self.pick(AGG_NAMES)} if self.p(.5) else {'t': 'callable', 'v': self.pick(AGG_CALLABLES)}

    def unscored(self, names=True, callables=True):
        x = self.r.random()
        if x < .3:
            return _NONE
        if x < .7 or not names:
            return self.num(0, 3)
        if x < .85 or not callables:
            return self.S('min', 'max')
        return {'t': 'callable', 'v': self.pick(('builtins.min', 'builtins.max'))}

    def bounds(self, lo=0, hi=4, exact=False):
        a = _NONE if self.p(.35) else self.num(lo, max(lo, hi - 2), exact)
        b = _NONE if self.p(.35) else self.num(max(lo, hi - 2), hi + 1, exact)
        return {'t': 'tuple', 'v': [a, b]}

    def lst(self, fn, lo, hi, t='list'): return {'t': t, 'v': [fn() for _ in range(self.r.randint(lo, hi))]}   # noqa: E704
    def dct(self, keys, valfn): return {'t': 'dict', 'k': keys, 'v': [valfn() for _ in keys]}          # noqa: E704
    def name(self): return self.S('A', 'B', 'C', 'D', 'E', 'Alpha Party', 'Émile Zola', 'X-1', 'Greens')  # noqa: E704

    def intkeys(self, lo, hi, n):
        return [{'t': 'int', 'v': k} for k in sorted(self.r.sample(range(lo, hi + 1), n))]

    def seed(self):
        return self.I(0, 10 ** 6) if self.p(.85) else (_NONE if self.p(.5) else _OMIT)

    def props(self, d):
        keys = self.r.sample(['minority', 'region', 'tier', 'weight', 'tags', 'note'], self.r.randint(0, 3))
        vals = {'minority': self.B, 'region': lambda: self.S('N', 'S'), 'tier': lambda: self.I(1, 2),
                'weight': lambda: self.num(0, 3), 'note': lambda: _NONE,
                'tags': lambda: self.lst(lambda: self.S('x', 'y'), 0, 2, self.pick(('list', 'tuple')))}
        return {'t': 'dict', 'k': [{'t': 'str', 'v': k} for k in keys], 'v': [vals[k]() for k in keys]}

    def seat_dict(self, d):
        """{constituency: seats}: str keys (the harness' constituencies), int keys, or party-object keys."""
        x = self.r.random()
        if x < .6:
            keys = [{'t': 'str', 'v': k} for k in ('X', 'Y', 'Z')[:self.r.randint(2, 3)]]
        elif x < .8 or d < 1:
            keys = self.intkeys(1, 5, 2)
        else:
            keys = [self.obj('party', None, 1) for _ in range(2)]
            # candidate objects hash by identity, the Lean values compare by content: two keys with equal content are two keys in
            # Python and one in the model (its precondition WFval asks for distinct keys), so the names are made distinct here;
            # equal-content keys are exercised by the directed class_identity_keys cases, without the model
            for key, nm in zip(keys, self.r.sample(['A', 'B', 'C', 'D', 'E', 'Greens'], 2)):
                key['args']['name'] = {'t': 'str', 'v': nm}
        return self.dct(keys, lambda: self.I(0, 3))

    # -- objects
    def obj(self, kind, vt, depth, strict=False, only=None, skip=()):
        """A random object spec of the kind (and input vote type), nesting at most ``depth`` object levels."""
        cands = [e for e in _TABLE.values() if _kind_ok(e, kind) and _vt_ok(e.vin, vt)
                 and depth >= e.mind and not (strict and e.kind == '*') and (only is None or e.name in only)
                 and e.name not in skip]
        if not cands:       # nothing of that vote type at this depth: fall back to any leaf of the kind
            cands = [e for e in _TABLE.values() if e.kind == kind and e.leaf] or \
                    [e for e in _TABLE.values() if _kind_ok(e, kind) and e.leaf] or \
                    [e for e in _TABLE.values() if e.kind == kind]
        if depth > 1 and self.p(.6):
            deep = [e for e in cands if not e.leaf]
            cands = deep or cands
        e = self.pick(sorted(cands, key=lambda e: e.name))
        return self.make(e.name, depth, kind, vt)

    def make(self, name, depth, kind=None, vt=None):
        e = _TABLE[name]
        if vt is None or (e.vin not in ('*', vt) and not _vt_ok(e.vin, vt)):
            vt = e.vin if e.vin != '*' else self.pick(('simple', 'simple', 'ranked', 'approval', 'score', 'nested'))
        if e.kind == '*' and (kind is None or kind not in _WRAP_KINDS[name]):
            kind = self.pick(_WRAP_KINDS[name])
        args = e.fn(self, max(depth - 1, 0), kind, vt)
        return {'t': 'obj', 'cls': name, 'args': {k: v for k, v in args.items() if v is not _OMIT}}


_WRAP_KINDS = {}       # polymorphic wrappers: the evaluator kinds they can stand for
_SEL, _DIS, _SLS, _SLD = 'selector', 'distributor', 'seatless', 'seatless_distributor'


def _kind_ok(e, kind):
    if e.kind == kind:
        return True
    if kind == 'evaluator':
        return e.kind in (_SEL, _DIS) or (e.kind == '*' and (_SEL in _WRAP_KINDS[e.name] or _DIS in _WRAP_KINDS[e.name]))
    return e.kind == '*' and kind in _WRAP_KINDS[e.name]


def _wrap(name, kinds, vin, fn):
    _WRAP_KINDS[name] = kinds
    _reg(name, '*', vin, fn, leaf=False)


def _build_table():
    c = _E + 'core.'
    # ---- candidates, nominators, mapper
    def person(g, d, k, vt):
        a = {'name': g.name(), 'number': g.opt(g.I(1, 30)), 'properties': g.opt(g.props(d), .5), 'withdrawn': g.opt(g.B(), .7)}
        if d >= 1:
            a['membership'] = g.opt(g.make(_CD + 'PoliticalParty', 1), .6)
            a['candidacy_for'] = g.opt(g.obj('party', None, min(d, 2)), .5)
        return a

    def party(g, d, k, vt):
        a = {'name': g.name(), 'number': g.opt(g.I(1, 30)), 'properties': g.opt(g.props(d), .4), 'withdrawn': g.opt(g.B(), .7)}
        if d >= 1:
            a['affiliations'] = g.opt(g.lst(lambda: g.make(_CD + 'PoliticalParty', 1), 0, 2), .7)
            a['lead'] = g.opt(g.make(_CD + 'Person', 1), .7)
        return a

    def coalition(g, d, k, vt):
        a = {'parties': g.lst(lambda: g.make(_CD + 'PoliticalParty', min(max(d, 1), 2)), 2, 3), 'name': g.opt(g.name(), .5),
             'number': g.opt(g.I(1, 30)), 'withdrawn': g.opt(g.B(), .7)}
        if d >= 2:
            a['lead'] = g.opt(g.make(_CD + 'Person', 1), .7)
        return a
    _reg(_CD + 'Person', 'person', None, person)
    _reg(_CD + 'PoliticalParty', 'party', None, party)
    _reg(_CD + 'Coalition', 'party', None, coalition, leaf=False)
    for n in ('BlankVoteOption', 'NoneOfTheAbove', 'ReopenNominations'):
        _reg(_CD + n, 'blank', None, lambda g, d, k, vt: {'name': g.S('NOTA', 'RON', 'blank')})
    _reg(_CD + 'IndividualToPartyMapper', 'mapper', None, lambda g, d, k, vt: {
        'affiliation': g.opt(g.S('candidacy_for', 'membership')),
        'independents': g.opt(g.S('error', 'keep', 'aggregate', 'ignore'))})
    _reg(_CD + 'BasicNominator', 'nominator', None, lambda g, d, k, vt: {'allow_blank': g.opt(g.B())})
    _reg(_CD + 'PersonNominator', 'nominator', None, lambda g, d, k, vt: {
        'allow_independents': g.opt(g.B()), 'allow_blank': g.opt(g.B())})
    _reg(_CD + 'PartyNominator', 'nominator', None, lambda g, d, k, vt: {
        'allow_coalitions': g.opt(g.B()), 'allow_blank': g.opt(g.B())})
    # ---- rank scorers, transferers
    rs = 'votelib.component.rankscore.'
    _reg(rs + 'Borda', 'rank_scorer', None, lambda g, d, k, vt: {'base': g.opt(g.I(0, 2) if g.p(.8) else g.frac(0, 2))})
    _reg(rs + 'Dowdall', 'rank_scorer')
    _reg(rs + 'ModifiedBorda', 'rank_scorer')
    _reg(rs + 'Geometric', 'rank_scorer', None, lambda g, d, k, vt: {'base': g.opt(g.I(2, 4) if g.p(.8) else g.frac(1, 3))})
    _reg(rs + 'FixedTop', 'rank_scorer', None, lambda g, d, k, vt: {'top': g.I(1, 5) if g.p(.7) else g.num(1, 5)})
    _reg(rs + 'SequenceBased', 'rank_scorer', None, lambda g, d, k, vt: {'sequence': g.lst(lambda: g.num(0, 12), 1, 5)})
    _reg('votelib.component.transfer.Hare', 'transferer', None, lambda g, d, k, vt: {'seed': g.seed()})
    _reg('votelib.component.transfer.Gregory', 'transferer')
    # ---- validators, subsetters
    v = 'votelib.vote.'

    def checker(g, d, k, vt):
        return {'bounds': g.opt(g.bounds(0, 5, exact=g.ok('checker_nonint_bounds')), .2),
                'value_name': g.opt(g.S('count', 'sum', 'range vote value'), .6)}

    def chk(g, d, p=.7):      # optional sub-objects only while depth remains
        return g.opt(g.make(v + 'VoteMagnitudeChecker', 1), p) if d >= 1 else _OMIT

    def nomin(g, d):
        return g.opt(g.obj('nominator', None, 1), .6) if d >= 1 else _OMIT

    def chk_dict(g, d):
        return g.dct(g.intkeys(1, 5, 5 if g.p(.7) else 2), lambda: chk(g, 1, 0))

    def bounds_or_dict(g, exact):
        if g.p(.6):
            return g.bounds(0, 4, exact)
        return g.dct(g.intkeys(1, 4, g.r.randint(1, 2)), lambda: g.bounds(0, 4, exact))

    def explicit(g):          # explicit checker dicts side-step the defaultdict defect
        return not g.ok('validator_defaultdict') or g.p(.3)

    def ranked_val(g, d, k, vt):
        a = {'total_vote_count_bounds': g.opt(g.bounds(1, 5)), 'rank_vote_count_bounds': g.opt(bounds_or_dict(g, False)),
             'total_count_checker': chk(g, d), 'nominator': nomin(g, d)}
        if explicit(g) and (d >= 1 or not g.ok('validator_defaultdict')):
            a['rank_vote_count_checkers'] = chk_dict(g, d)
        return a

    def score_val(g, d, k, vt):
        a = {'allowed_scorings': g.opt(g.bounds(1, 5)), 'sum_bounds': g.opt(bounds_or_dict(g, g.ok('checker_nonint_bounds'))),
             'n_scorings_checker': chk(g, d), 'nominator': nomin(g, d)}
        if explicit(g) and (d >= 1 or not g.ok('validator_defaultdict')):
            a['sum_checkers'] = chk_dict(g, d)
        return a

    def enum_val(g, d, k, vt):
        levels = [{'t': 'int', 'v': i} for i in range(6)] if g.p(.5) else [g.I(0, 5) for _ in range(4)] if g.p(.6) else \
            [g.S('bad', 'poor', 'fair', 'good') for _ in range(3)] if g.p(.5) else [g.num(0, 5) for _ in range(3)]
        return dict(score_val(g, d, k, vt), score_levels={'t': g.pick(('list', 'tuple')), 'v': levels})

    def range_val(g, d, k, vt):
        return dict(score_val(g, d, k, vt), range=g.opt(g.bounds(0, 5, g.ok('checker_nonint_bounds'))),
                    range_checker=chk(g, d))
    _reg(v + 'VoteMagnitudeChecker', 'checker', None, checker)
    _reg(v + 'SimpleVoteValidator', 'validator', 'simple', lambda g, d, k, vt: {'nominator': nomin(g, d)})
    _reg(v + 'ApprovalVoteValidator', 'validator', 'approval', lambda g, d, k, vt: {
        'vote_count_bounds': g.opt(g.bounds(0, 4)), 'count_checker': chk(g, d), 'nominator': nomin(g, d)})
    _reg(v + 'RankedVoteValidator', 'validator', 'ranked', ranked_val)
    _reg(v + 'EnumScoreVoteValidator', 'validator', 'score', enum_val)
    _reg(v + 'RangeVoteValidator', 'validator', 'score', range_val)
    for n, t in (('Simple', 'simple'), ('Approval', 'approval'), ('Ranked', 'ranked'), ('Score', 'score')):
        _reg(v + n + 'Subsetter', 'subsetter', t)
    # ---- converters (vin -> vout; '*' keeps the type)
    def score_agg(g, d, k, vt, function=True):
        a = {'unscored_value': g.opt(g.unscored()), 'min_count': g.opt(g.I(0, 3), .6),
             'truncation': g.opt(g.pick((g.unit, lambda: g.I(0, 2)))(), .6), 'bottom_value': g.opt(g.num(0, 2), .6)}
        if function:
            a['function'] = g.opt(g.agg())
        return a

    def mapper(g, d, k, vt):
        return {'mapper': g.opt(g.make(_CD + 'IndividualToPartyMapper', 1)) if d >= 1 else _OMIT}

    def conv(name, vin, vout, fn=None, leaf=True):
        _reg(_CO + name, 'converter', vin, fn, leaf, vout)
    conv('ApprovalToSimpleVotes', 'approval', 'simple', lambda g, d, k, vt: {'split': g.opt(g.B())})
    conv('ScoreToSimpleVotes', 'score', 'simple', score_agg)
    conv('RankedToFirstPreference', 'ranked', 'simple')
    conv('RankedToFirstNPreferences', 'ranked', 'approval', lambda g, d, k, vt: {'n_first': g.I(1, 3)})
    conv('RankedToPresenceCounts', 'ranked', 'simple')
    conv('RankedToApprovalVotes', 'ranked', 'approval')
    conv('RankedToPositionalVotes', 'ranked', 'simple', lambda g, d, k, vt: {
        'rank_scorer': g.obj('rank_scorer', None, 1), 'unranked_scoring': g.opt(g.S('zero'), .7)}, leaf=False)
    conv('RankedToCondorcetVotes', 'ranked', 'condorcet', lambda g, d, k, vt: {'unranked_at_bottom': g.opt(g.B())})
    conv('ScoreToRankedVotes', 'score', 'ranked', lambda g, d, k, vt: {'unscored_value': g.opt(g.unscored(names=False))})
    conv('ScoreToApprovalVotesThreshold', 'score', 'approval', lambda g, d, k, vt: {'threshold': g.num(0, 5)})
    conv('InvertedSimpleVotes', 'simple', 'simple')
    conv('InvertedApprovalVotes', 'approval', 'approval')
    conv('IndividualToPartyVotes', 'persons', 'simple', mapper)
    conv('IndividualToPartyResult', 'result_list', 'simple', mapper)
    conv('GroupVotesByParty', 'persons', 'nested', mapper)
    conv('SelectionToDistribution', 'result_list', 'simple', lambda g, d, k, vt: {'amount': g.opt(g.num(1, 3))})
    conv('MergedSelections', 'result_nested', 'simple')
    conv('MergedDistributions', 'result_nested', 'simple')
    conv('VoteTotals', 'nested', 'simple')
    conv('ConstituencyTotals', 'nested', 'simple')
    conv('PartyTotals', 'nested', 'simple')
    conv('RoundedVotes', '*', '*', lambda g, d, k, vt: {'decimals': g.I(0, 3), 'round_method': g.opt(g.S(*ROUNDINGS))})
    conv('SubsettedVotes', '*', '*', lambda g, d, k, vt: {
        'vote_subsetter': g.opt(g.make(SUBSETTER_FOR.get(vt, 'votelib.vote.SimpleSubsetter'), 1)) if d >= 1 else _OMIT,
        'depth': g.opt(g.I(0, 1) if vt == 'nested' else g.I(0, 0), .6)})

    def inv_elim(g, d, k, vt):
        vals = [e.name for e in _TABLE.values() if e.kind == 'validator' and e.vin == vt]
        return {'validator': g.make(g.pick(sorted(vals)), max(d, 1)) if vals else g.obj('validator', None, max(d, 1))}

    def conv_by_const(g, d, k, vt):
        inner = g.pick(('ApprovalToSimpleVotes', 'RankedToFirstPreference', 'InvertedSimpleVotes', 'RoundedVotes',
                        'ScoreToSimpleVotes', 'RankedToCondorcetVotes'))
        return {'converter': g.make(_CO + inner, max(d, 1))}

    def chain(g, d, k, vt):
        cur, out = vt, []
        for _ in range(g.r.randint(0, 3) if vt in VOTE_TYPES else 0):
            nxt = [e for e in _TABLE.values() if e.kind == 'converter' and (e.vin == cur or e.vin == '*')
                   and e.name not in (_CO + 'SubsettedVotes', _CO + 'Chain') and max(d, 1) >= e.mind]
            e = g.pick(sorted(nxt, key=lambda e: e.name))
            out.append(g.make(e.name, max(d, 1), 'converter', cur))
            cur = cur if e.vout == '*' else e.vout
        return {'converters': {'t': 'list', 'v': out}}
    conv('InvalidVoteEliminator', '*', '*', inv_elim, leaf=False)
    conv('ByConstituency', 'nested', 'nested', conv_by_const, leaf=False)
    conv('Chain', '*', '*', chain, leaf=False)
    # ---- leaf evaluators
    _reg(c + 'Plurality', _SEL, 'simple')
    a = _E + 'approval.'
    _reg(a + 'ProportionalApproval', _SEL, 'approval')
    _reg(a + 'SequentialProportionalApproval', _SEL, 'approval')
    _reg(a + 'QuotaSelector', _SEL, 'simple', lambda g, d, k, vt: {
        'quota_function': g.opt(g.quota()), 'accept_equal': g.opt(g.B()), 'on_more_over_quota': g.opt(g.S('error', 'select'))})
    x = _E + 'auxiliary.'
    _reg(x + 'RandomUnrankedBallotSelector', _SEL, 'simple', lambda g, d, k, vt: {'seed': g.seed()})
    _reg(x + 'Sortitor', _SEL, 'simple', lambda g, d, k, vt: {'seed': g.seed()})
    _reg(x + 'InputOrderSelector', _SEL, 'simple')
    _reg(x + 'CandidateNumberRanker', _SEL, 'simple')

    def rfc_source(g):
        y = g.r.random()
        if y < .4:
            return g.I(0, 10 ** 9)
        if y < .55:
            return g.dec(0, 99)
        if y < .7:
            return g.S('Émile 12', 'abc-9', '2021-03-04')
        return g.lst(lambda: g.I(1, 49), 1, 6, g.pick(('list', 'tuple')))
    _reg(x + 'RFC3797Selector', _SEL, 'simple', lambda g, d, k, vt: {'sources': g.lst(lambda: rfc_source(g), 1, 3)})
    cd = _E + 'cardinal.'
    _reg(cd + 'ScoreVoting', _SEL, 'score', score_agg)
    _reg(cd + 'MajorityJudgment', _SEL, 'score', lambda g, d, k, vt: dict(
        score_agg(g, d, k, vt, function=False), tie_breaking=g.opt(g.S('default', 'plus'))))

    def star(g, d, k, vt):
        a = score_agg(g, d, k, vt, function=False)
        a['unscored_value'] = g.opt(g.unscored(names=g.ok('star_unscored_name'), callables=False))
        a['runoff_added_count'] = g.opt(g.I(0, 2))
        a['runoff_added_fraction'] = g.opt(g.num(0, 1, exact=g.ok('star_fraction')))
        a['runoff_evaluator'] = g.opt(g.S(*CONDORCET_NAMES) if d < 1 or g.p(.5) else g.obj(_SEL, 'condorcet', 1))
        return a
    _reg(cd + 'STAR', _SEL, 'score', star)
    _reg(cd + 'AllocatedScoreDistributor', _DIS, 'score', lambda g, d, k, vt: {'quota_function': g.opt(g.quota())})
    cn = _E + 'condorcet.'
    for n in ('CondorcetWinner', 'SmithSet', 'SchwartzSet'):
        _reg(cn + n, _SLS, 'condorcet')
    _reg(cn + 'Copeland', _SEL, 'condorcet', lambda g, d, k, vt: {'second_order': g.opt(g.B())})
    _reg(cn + 'Schulze', _SEL, 'condorcet')
    _reg(cn + 'KemenyYoung', _SEL, 'condorcet')
    _reg(cn + 'MinimaxCondorcet', _SEL, 'condorcet', lambda g, d, k, vt: {'pairwin_scoring': g.opt(g.pairwin())})
    _reg(cn + 'RankedPairs', _SEL, 'condorcet', lambda g, d, k, vt: {'pairwin_scoring': g.opt(g.pairwin())})
    pr = _E + 'proportional.'
    _reg(pr + 'PureProportionality', _DIS, 'simple')
    _reg(pr + 'VotesPerSeat', _SLD, 'simple', lambda g, d, k, vt: {
        'votes_per_seat': g.num(1, 9), 'rounding': g.opt(g.S(*ROUNDINGS)), 'accept_equal': g.opt(g.B())})

    def quota_dist(g, d, k, vt, required=False):
        return {'quota_function': g.quota() if required else g.opt(g.quota()), 'accept_equal': g.opt(g.B()),
                'on_overaward': g.opt(g.S('ignore', 'error', 'subtract'))}
    _reg(pr + 'QuotaDistributor', _DIS, 'simple', quota_dist)
    _reg(pr + 'LargestRemainder', _DIS, 'simple', lambda g, d, k, vt: quota_dist(g, d, k, vt, True))
    _reg(pr + 'HighestAverages', _DIS, 'simple', lambda g, d, k, vt: {'divisor_function': g.opt(g.divisor())})

    def apportioner(g, d, none_ok=True):
        y = g.r.random()
        if y < .3:
            return g.I(1, 3)
        if y < .6:
            return g.seat_dict(d)
        if y < .75 and none_ok:
            return _NONE
        return g.obj(_DIS, 'simple', d) if d >= 1 else g.I(1, 3)

    def biprop(g, d, k, vt):
        a = {'apportioner': g.opt(apportioner(g, d), .5)}
        if g.p(.8):
            a['divisor_function'] = g.opt(g.divisor(DIVISORS[:2]))
            a['signpost_q'] = g.opt(g.pick((g.I(0, 0), {'t': 'frac', 'v': '1/2'}, _NONE)), .6)
        else:
            a['divisor_function'] = g.divisor(DIVISORS[2:5])
            a['signpost_q'] = g.pick((g.I(0, 0), {'t': 'frac', 'v': '1/2'}, {'t': 'frac', 'v': '1/3'}))
        return a
    _reg(pr + 'BiproportionalEvaluator', _DIS, 'nested', biprop)
    sq = _E + 'sequential.'

    def stv(g, d, k, vt):
        tr = g.S('Gregory', 'Gregory', 'Hare') if d < 1 or g.p(.4) else g.obj('transferer', None, 1)
        ret = _NONE if d < 1 or g.p(.5) else g.obj(_SEL, 'simple', d)
        return {'transferer': g.opt(tr), 'retainer': g.opt(ret, .5),
                'eliminate_step': g.opt(g.I(-2, -1) if g.p(.8) else g.I(1, 2), .5),
                'quota_function': g.opt(_NONE if g.p(.15) else g.quota()),
                'accept_quota_equal': g.opt(g.B(), .6), 'mandatory_quota': g.opt(g.B(), .6)}
    _reg(sq + 'TransferableVoteDistributor', _DIS, 'ranked', stv)
    _reg(sq + 'TransferableVoteSelector', _SEL, 'ranked', lambda g, d, k, vt: (       # _inner is what loading passes
        {'_inner': g.make(sq + 'TransferableVoteDistributor', d)} if d >= 1 and g.p(.2) else stv(g, d, k, vt)))

    def pref_add(g, d, k, vt):
        co = g.lst(lambda: g.num(0, 2), 1, 3) if g.p(.7) else {'t': 'callable', 'v': _DM + g.pick(DIVISORS[:5])}
        return {'coefficients': g.opt(co), 'split_equal_rankings': g.opt(g.B())}
    _reg(sq + 'PreferenceAddition', _SEL, 'ranked', pref_add)
    th = _E + 'threshold.'
    _reg(th + 'AbsoluteThreshold', _SLS, 'simple', lambda g, d, k, vt: {'threshold': g.num(0, 8), 'accept_equal': g.opt(g.B())})
    _reg(th + 'RelativeThreshold', _SLS, 'simple', lambda g, d, k, vt: {'threshold': g.unit(), 'accept_equal': g.opt(g.B())})

    def seatless(g, d, strict=False):        # PreviousGainThreshold only where prev_gains are passed on
        return g.obj(_SLS, 'simple', max(d, 1), strict=strict, skip=() if strict else (th + 'PreviousGainThreshold',))
    _reg(th + 'CoalitionMemberBracketer', _SLS, 'parties', lambda g, d, k, vt: {
        'evaluators': g.dct(g.intkeys(1, 4, g.r.randint(1, 3)), lambda: seatless(g, d)), 'default': seatless(g, d)},
        leaf=False)

    def prop_bracket(g, d, k, vt):
        prop = g.pick(('minority', 'region', 'tier', 'withdrawn', 'is_coalition', 'tags', 'weight'))
        keys = {'minority': [{'t': 'bool', 'v': True}, {'t': 'bool', 'v': False}], 'withdrawn': [{'t': 'bool', 'v': True}],
                'is_coalition': [{'t': 'bool', 'v': True}], 'region': [{'t': 'str', 'v': 'N'}, {'t': 'str', 'v': 'S'}],
                'tier': [{'t': 'int', 'v': 1}, {'t': 'int', 'v': 2}], 'weight': [g.num(0, 3), g.num(0, 3)],
                'tags': [{'t': 'tuple', 'v': [{'t': 'str', 'v': 'x'}]}, {'t': 'tuple', 'v': []}]}[prop]
        keys = keys[:g.r.randint(1, len(keys))]
        return {'property': {'t': 'str', 'v': prop},
                'evaluators': g.dct(keys, lambda: _NONE if g.p(.3) else seatless(g, d)),
                'default': g.opt(_NONE if g.p(.3) else seatless(g, d))}
    _reg(th + 'PropertyBracketer', _SLS, 'parties', prop_bracket, leaf=False)
    _reg(th + 'AlternativeThresholds', _SLS, 'simple', lambda g, d, k, vt: {
        'partials': g.lst(lambda: seatless(g, d, strict=True), 1, 3)}, leaf=False)
    _reg(th + 'PreviousGainThreshold', _SLS, 'simple', lambda g, d, k, vt: {'selector': seatless(g, d)}, leaf=False)
    # ---- composite distributors / calculators
    def rounds(g, d, vt):
        return g.lst(lambda: g.obj(_DIS, vt, max(d, 1)), 1, 3)
    _reg(c + 'MultistageDistributor', _DIS, '*', lambda g, d, k, vt: {
        'rounds': rounds(g, d, vt), 'depth': g.opt(g.I(2, 2) if vt == 'nested' and g.p(.7) else g.I(1, 1), .6)}, leaf=False)

    def unused(g, d, k, vt):
        n = g.r.randint(1, 3)
        if g.p(.5):
            rs_ = [g.obj(_DIS, 'simple', max(d, 1)) for _ in range(n)]
            return {'rounds': {'t': 'list', 'v': rs_}, 'quota_functions': g.lst(g.quota, n - 1, n - 1), 'depth': g.opt(g.I(1, 1), .7)}
        rs_ = [g.make(pr + g.pick(('QuotaDistributor', 'LargestRemainder')), 1) for _ in range(n - 1)]
        return {'rounds': {'t': 'list', 'v': rs_ + [g.obj(_DIS, 'simple', max(d, 1))]}, 'quota_functions': g.opt(_NONE, .5)}
    _reg(c + 'UnusedVotesDistributor', _DIS, 'simple', unused, leaf=False)
    _reg(c + 'AdjustedSeatCount', _DIS, 'simple', lambda g, d, k, vt: {
        'calculator': g.obj('calculator', 'simple', max(d, 1)), 'evaluator': g.obj(_DIS, 'simple', max(d, 1))},
        leaf=False, mind=3)

    def prop_eval(g, d):     # mostly plain proportional rules: the seat-levelling loops need seats to grow with n_seats
        plain = [pr + n for n in ('HighestAverages', 'LargestRemainder', 'PureProportionality', 'QuotaDistributor')]
        return g.obj(_DIS, 'simple', max(d, 1), only=plain if g.p(.8) else None)
    _reg(c + 'AllowOverhang', 'calculator', 'simple', lambda g, d, k, vt: {'evaluator': prop_eval(g, d)}, leaf=False)
    _reg(c + 'LevelOverhang', 'calculator', 'simple', lambda g, d, k, vt: {'evaluator': prop_eval(g, d)}, leaf=False)
    _reg(c + 'LevelOverhangByConstituency', 'calculator', 'nested', lambda g, d, k, vt: {
        'constituency_evaluator': nested_dist(g, d),
        'overall_evaluator': g.opt(_NONE if g.p(.2) else prop_eval(g, d), .3)}, leaf=False)

    def subsetter(g, vt, p=.5):
        return g.opt(g.make(SUBSETTER_FOR.get(vt, 'votelib.vote.SimpleSubsetter'), 1), p)
    _reg(c + 'ByParty', _DIS, 'nested', lambda g, d, k, vt: {
        'overall_evaluator': g.obj(_DIS, 'simple', max(d, 1)),
        'allocator': g.opt(_NONE if g.p(.3) else g.obj(_DIS, 'simple', max(d, 1))), 'subsetter': subsetter(g, 'simple', .7)}, leaf=False)

    def nested_dist(g, d):       # BiproportionalEvaluator (the only leaf) takes no prev_gains/max_seats: prefer the others
        skip = (pr + 'BiproportionalEvaluator',) if d >= 2 and g.p(.8) else ()
        return g.obj(_DIS, 'nested', max(d, 1), skip=skip)
    _reg(c + 'PreApportioned', _DIS, 'nested', lambda g, d, k, vt: {
        'evaluator': nested_dist(g, d), 'apportioner': apportioner(g, d, none_ok=False)}, leaf=False)
    _reg(c + 'RemovedApportionment', _DIS, 'nested', lambda g, d, k, vt: {'evaluator': nested_dist(g, d)}, leaf=False)
    # ---- polymorphic wrappers
    def post_conv(g, d, k, vt):
        if k == _SEL and d < 2:
            return {'evaluator': g.obj(_SEL, vt, 1), 'converter': g.make(_CO + 'Chain', 1, 'converter', 'result_list')}
        if k == _SEL:       # by-constituency selections merged back into one list
            return {'evaluator': g.make(c + 'ByConstituency', max(d, 1), _SEL, 'nested'), 'converter': g.make(_CO + 'MergedSelections', 1)}
        y = g.r.random()
        if vt == 'nested':
            return {'evaluator': g.obj(_DIS, 'nested', max(d, 1)), 'converter': g.make(_CO + 'MergedDistributions', 1)}
        if y < .45:
            return {'evaluator': g.obj(_SEL, vt, max(d, 1)), 'converter': g.make(_CO + 'SelectionToDistribution', 1)}
        if y < .6:
            return {'evaluator': g.obj(_SEL, vt, max(d, 1)), 'converter': g.make(_CO + 'IndividualToPartyResult', max(d, 1))}
        return {'evaluator': g.obj(_DIS, vt, max(d, 1)),
                'converter': g.make(_CO + g.pick(('RoundedVotes', 'InvertedSimpleVotes') + (('Chain',) if d > 1 else ())),
                                    max(d, 1), 'converter', 'simple')}
    _wrap(c + 'PostConverted', (_DIS, _SEL), '*', post_conv)

    def pre_conv(g, d, k, vt):
        convs = [e for e in _TABLE.values() if e.kind == 'converter' and e.vin in (vt, '*') and max(d, 1) >= e.mind
                 and not e.vin.startswith('result') and e.name != _CO + 'SubsettedVotes']
        e = g.pick(sorted(convs, key=lambda e: e.name))
        out = vt if e.vout == '*' else e.vout
        return {'converter': g.make(e.name, max(d, 1), 'converter', vt), 'evaluator': g.obj(k, out, max(d, 1))}
    _wrap(c + 'PreConverted', (_SEL, _DIS, _SLS, _SLD), '*', pre_conv)

    def conditioned(g, d, k, vt):
        if vt == 'nested':
            return {'eliminator': seatless(g, d), 'evaluator': g.obj(k, 'nested', max(d, 1)), 'depth': g.I(2, 2),
                    'subsetter': subsetter(g, 'simple', .6)}
        return {'eliminator': g.obj(_SLS, vt, max(d, 1)), 'evaluator': g.obj(k, vt, max(d, 1)),
                'subsetter': subsetter(g, vt, .3 if vt in SUBSETTER_FOR else .6), 'depth': g.opt(g.I(1, 1), .8)}
    _wrap(c + 'Conditioned', (_SEL, _DIS, _SLS, _SLD), '*', conditioned)
    _wrap(c + 'TieBreaking', (_SEL, _DIS), '*', lambda g, d, k, vt: {
        'main': g.obj(k, vt, max(d, 1)), 'tiebreaker': g.obj(_SEL, vt, max(d, 1)),
        'subsetter': subsetter(g, vt, .3 if vt in SUBSETTER_FOR else .6)})
    _wrap(c + 'FixedSeatCount', (_SLS, _SLD), '*', lambda g, d, k, vt: {
        'evaluator': g.obj(_SEL if k == _SLS else _DIS, vt, max(d, 1)), 'n_seats': g.I(1, 3)})
    _wrap(c + 'ByConstituency', (_SEL, _DIS), 'nested', lambda g, d, k, vt: {
        'evaluator': g.obj(k, 'simple', max(d, 1)), 'apportioner': g.opt(apportioner(g, d), .5),
        'preselector': g.opt(_NONE if g.p(.3) else g.obj(g.pick((_SEL, _SLS)), 'simple', max(d, 1)), .5),
        'subsetter': subsetter(g, 'simple', .7)})
    ol = _E + 'openlist.'

    def threshold_ol(g, d, k, vt):
        a = {'jump_fraction': g.opt(g.unit()), 'quota_function': g.opt(_NONE if g.p(.2) else g.quota(), .4),
             'take_higher': g.opt(g.B(), .6), 'accept_equal': g.opt(g.B(), .6), 'list_precedence': g.opt(g.B(), .6)}
        if 'quota_function' not in a or a['quota_function'] is _OMIT or a['quota_function'] == _NONE \
                or g.ok('openlist_quota_fraction'):
            a['quota_fraction'] = g.opt(g.pick((g.I(1, 1), g.unit(), g.num(1, 2))), .5)
        return a
    _reg(ol + 'ThresholdOpenList', 'openlist', 'simple', threshold_ol)
    _reg(ol + 'ListOrderTieBreaker', 'openlist', 'simple', lambda g, d, k, vt: {'evaluator': g.obj(_SEL, 'simple', max(d, 1))}, leaf=False)

    def party_list(g, d, k, vt):
        le = _NONE if g.p(.3) else g.obj('openlist', 'simple', max(d, 1))
        cv = _NONE if le == _NONE or g.p(.5) else g.make(_CO + 'GroupVotesByParty', max(d, 1))
        return {'party_eval': g.obj(_DIS, 'simple', max(d, 1)), 'list_eval': g.opt(le, .2), 'list_votes_converter': g.opt(cv, .3)}
    _reg(c + 'PartyListEvaluator', 'partylist', 'parties', party_list, leaf=False)
    _reg('votelib.VotingSystem', 'system', '*', lambda g, d, k, vt: {
        'name': g.S('Test system', 'Chamber of Deputies', 'IRV'),
        'evaluator': g.obj(g.pick((_SEL, _DIS, _SLS) + (('partylist',) if d > 1 else ())), vt, max(d, 1))}, leaf=False)


_build_table()
KINDS = {name: ({'*': 'wrapper'}.get(e.kind, e.kind)) for name, e in _TABLE.items()}
KINDS = {k: {'seatless': 'seatless_selector', 'calculator': 'seat_calculator', 'person': 'candidate', 'party': 'candidate',
             'blank': 'candidate'}.get(v, v) for k, v in KINDS.items()}


def covered():
    """Full names of the classes gen_spec can produce."""
    return sorted(n for n in _TABLE if n in _discover_cached())


# ----------------------------------------------------------------------------------------------------------------------
# generation


def gen_spec(rng, cls=None, depth=4, avoid=()):
    """A random admissible spec of class ``cls`` (a random covered class if None), nested at most ``depth`` deep.

    ``avoid`` may name known-defect triggers from AVOIDABLE which should not be generated."""
    g = _G(rng, avoid)
    if cls is None:        # half of the time a composite class, so that nesting is exercised
        cls = g.pick(covered() if g.p(.5) or depth < 2 else sorted(n for n, e in _TABLE.items() if not e.leaf))
    return g.make(cls, max(depth, 1))


_BAD_TARGETS = [   # (class, parameter, role, evaluator kind, vote type, extra args)
    (_E + 'proportional.HighestAverages', 'divisor_function', 'divisor', _DIS, 'simple', {}),
    (_E + 'proportional.BiproportionalEvaluator', 'divisor_function', 'divisor', _DIS, 'nested', {'signpost_q': {'t': 'int', 'v': 0}}),
    (_E + 'proportional.LargestRemainder', 'quota_function', 'quota', _DIS, 'simple', {}),
    (_E + 'proportional.QuotaDistributor', 'quota_function', 'quota', _DIS, 'simple', {}),
    (_E + 'approval.QuotaSelector', 'quota_function', 'quota', _SEL, 'simple', {}),
    (_E + 'cardinal.AllocatedScoreDistributor', 'quota_function', 'quota', _DIS, 'score', {}),
    (_E + 'sequential.TransferableVoteDistributor', 'quota_function', 'quota', _DIS, 'ranked', {}),
    (_E + 'sequential.TransferableVoteSelector', 'quota_function', 'quota', _SEL, 'ranked', {}),
    (_E + 'openlist.ThresholdOpenList', 'quota_function', 'quota', 'openlist', 'simple', {}),
    (_E + 'core.UnusedVotesDistributor', 'quota_functions', 'quota_list', _DIS, 'simple', {}),
    (_E + 'cardinal.ScoreVoting', 'function', 'agg', _SEL, 'score', {}),
    (_E + 'cardinal.ScoreVoting', 'unscored_value', 'agg', _SEL, 'score', {}),
    (_E + 'cardinal.MajorityJudgment', 'unscored_value', 'agg', _SEL, 'score', {}),
    (_CO + 'ScoreToSimpleVotes', 'function', 'agg', 'converter', 'score', {}),
    (_E + 'condorcet.MinimaxCondorcet', 'pairwin_scoring', 'pairwin', _SEL, 'condorcet', {}),
    (_E + 'condorcet.RankedPairs', 'pairwin_scoring', 'pairwin', _SEL, 'condorcet', {}),
    (_E + 'sequential.PreferenceAddition', 'coefficients', 'divisor', _SEL, 'ranked', {}),
]


def gen_bad_spec(rng):
    """A buildable spec in which exactly one (possibly nested) parameter is a callable that cannot be saved."""
    g = _G(rng)
    if g.p(.08):      # not a callable, but just as unrepresentable: the documented Dict[Constituency, int] apportioner
        bad = {'t': 'closure', 'v': 'constituency_keys', 'seats': [g.r.randint(1, 3) for _ in range(2)]}
        inner = g.make(_E + 'proportional.HighestAverages', 1)
        if g.p(.5):
            return {'t': 'obj', 'cls': _E + 'core.ByConstituency', 'args': {'evaluator': inner, 'apportioner': bad}}
        return {'t': 'obj', 'cls': _E + 'proportional.BiproportionalEvaluator', 'args': {'apportioner': bad}}
    cls, param, role, kind, vt, extra = g.pick(_BAD_TARGETS)
    base = 'quota' if role == 'quota_list' else role
    variants = ['lambda', 'partial'] + {'divisor': ['modified_first_coef'] * 2, 'quota': ['quota_constant'] * 2}.get(base, [])
    bad = {'t': 'closure', 'v': g.pick(variants), 'role': base}
    if bad['v'] == 'modified_first_coef':
        bad.update(base=g.pick(DIVISORS[:5]), coef=g.pick(('7/5', '1.4', '142/100', '2')))
    elif bad['v'] == 'quota_constant':
        bad.update(q=g.pick(('5', '7/2', '2.50')))
    spec = g.make(cls, 1)
    spec['args'] = {k: v for k, v in spec['args'].items() if k != 'quota_fraction'}
    spec['args'].update(extra)
    if role == 'quota_list':
        rounds = [g.make(_E + 'proportional.HighestAverages', 1) for _ in range(3)]
        spec['args'] = {'rounds': {'t': 'list', 'v': rounds}, 'quota_functions': {'t': 'list', 'v': [g.quota(), bad]}}
    else:
        spec['args'][param] = bad
    for _ in range(g.r.randint(0, 2)):           # bury it inside wrappers
        if kind == 'converter':
            spec = {'t': 'obj', 'cls': _CO + 'Chain', 'args': {'converters': {'t': 'list', 'v': [spec]}}}
        elif kind == 'openlist':
            spec = {'t': 'obj', 'cls': _E + 'core.PartyListEvaluator',
                    'args': {'party_eval': g.make(_E + 'proportional.HighestAverages', 1), 'list_eval': spec}}
            kind = 'partylist'
        elif kind == 'partylist' or g.p(.3):
            spec = {'t': 'obj', 'cls': 'votelib.VotingSystem', 'args': {'name': {'t': 'str', 'v': 'bad'}, 'evaluator': spec}}
            kind = 'system'
        elif kind == 'system':
            break
        elif g.p(.5):
            spec = {'t': 'obj', 'cls': _E + 'core.TieBreaking',
                    'args': {'main': spec, 'tiebreaker': g.make(_E + 'auxiliary.InputOrderSelector', 1)}}
        elif kind == _DIS and g.p(.5):
            spec = {'t': 'obj', 'cls': _E + 'core.MultistageDistributor', 'args': {'rounds': {'t': 'list', 'v': [spec]}}}
        else:
            spec = {'t': 'obj', 'cls': _E + 'core.Conditioned',
                    'args': {'eliminator': g.make(_E + 'threshold.AbsoluteThreshold', 1), 'evaluator': spec}}
    return spec


# ----------------------------------------------------------------------------------------------------------------------
# building


def _closure(v):
    import votelib.component.divisor as vd
    import votelib.component.quota as vq
    import votelib.component.pairwin_scorer as vp
    kind, role = v['v'], v.get('role')
    if kind == 'constituency_keys':
        import votelib.candidate
        return {votelib.candidate.Constituency(): n for n in v['seats']}
    if kind == 'modified_first_coef':
        coef = Fraction(v['coef']) if '/' in v['coef'] else Decimal(v['coef'])
        return vd.modified_first_coef(vd.get(v['base']), coef)
    if kind == 'quota_constant':
        return vq.constant(Fraction(v['q']))
    named = {'divisor': vd.d_hondt, 'quota': vq.droop, 'agg': max, 'pairwin': vp.winning_votes}[role]
    if kind == 'partial':
        return functools.partial(named)
    if kind == 'lambda':
        return {'divisor': lambda order: order + 1, 'quota': lambda votes, seats: Fraction(votes, seats + 1),
                'agg': lambda xs: max(xs), 'pairwin': lambda counts: counts}[role]
    raise ValueError('unknown closure %r' % (v,))


def build(spec):
    """Construct the real votelib object (or plain value) from a spec."""
    t, v = spec['t'], spec.get('v')
    if t == 'obj':
        return _resolve(spec['cls'])(**{k: build(x) for k, x in spec['args'].items()})
    if t == 'dict':
        return dict(zip([build(x) for x in spec['k']], [build(x) for x in spec['v']]))
    simple = {'int': lambda: v, 'bool': lambda: v, 'str': lambda: v, 'none': lambda: None, 'frac': lambda: Fraction(v),
              'dec': lambda: Decimal(v), 'list': lambda: [build(x) for x in v], 'tuple': lambda: tuple(build(x) for x in v),
              'callable': lambda: _resolve(v), 'closure': lambda: _closure(spec)}
    if t not in simple:
        raise ValueError('unknown spec type %r' % (t,))
    return simple[t]()


# ----------------------------------------------------------------------------------------------------------------------
# spec inspection


def _children(spec):
    t = spec.get('t')
    return list(spec['args'].values()) if t == 'obj' else spec['v'] if t in ('list', 'tuple') else \
        spec['k'] + spec['v'] if t == 'dict' else []


def _walk(spec):
    yield spec
    for child in _children(spec):
        yield from _walk(child)


def spec_classes(spec):
    return [s['cls'] for s in _walk(spec) if s.get('t') == 'obj']


def spec_depth(spec):
    return (spec.get('t') == 'obj') + max([spec_depth(c) for c in _children(spec)] or [0])


def spec_features(spec):
    out = set()
    for s in _walk(spec):
        t = s.get('t')
        if t in ('frac', 'dec', 'tuple', 'none'):
            out.add({'frac': 'fraction', 'dec': 'decimal'}.get(t, t))
        elif t == 'callable':
            out.add('callable_by_name')
        elif t == 'dict' and any(k.get('t') != 'str' for k in s['k']):
            out.add('dict_keyed')
        elif t == 'obj':
            if any(x.get('t') == 'obj' for v in s['args'].values() for x in _walk(v)):
                out.add('nested')
            for p, v in s['args'].items():
                if v.get('t') == 'str' and (p.endswith('_function') or p in ('function', 'pairwin_scoring', 'transferer',
                                                                               'runoff_evaluator', 'unscored_value')):
                    out.add('str_name_shortcut')
                if p == 'quota_functions' and any(x.get('t') == 'str' for x in v.get('v', [])):
                    out.add('str_name_shortcut')
    return sorted(out)


MIX_KEYS = {'int': {'t': 'int', 'v': 2}, 'none': {'t': 'none'}, 'bool': {'t': 'bool', 'v': True},
            'tuple': {'t': 'tuple', 'v': [{'t': 'str', 'v': 'x'}, {'t': 'int', 'v': 1}]}, 'str': {'t': 'str', 'v': 'extra'}}


def mix_keys(spec, rng, own_only=False):
    """A copy of the spec in which every non-empty dict parameter has keys of MIXED types: a mapping keyed by strings gets an int /
    None / bool / tuple key, any other mapping gets a str key (value: a copy of its first value).  Returns (spec, kinds added) or None
    if there is no dict to mix.  (The typed dict form must be chosen as soon as ONE key is not a string — seeded change C19l.)"""
    spec = json.loads(json.dumps(spec))
    kinds = []

    def visit(s, depth):
        if not isinstance(s, dict):
            return
        if s.get('t') == 'dict' and s['k']:
            have = {k.get('t') for k in s['k']}
            if have == {'str'}:
                kind = rng.choice(['int', 'none', 'bool', 'tuple'])
            elif 'str' not in have:
                kind = 'str'
            else:
                kind = None
            if kind is not None and not any(json.dumps(k, sort_keys=True) == json.dumps(MIX_KEYS[kind], sort_keys=True) for k in s['k']):
                s['k'].append(json.loads(json.dumps(MIX_KEYS[kind])))
                s['v'].append(json.loads(json.dumps(s['v'][0])))
                kinds.append(kind)
        if own_only and depth >= 1 and s.get('t') == 'obj':
            return
        for child in _children(s):
            visit(child, depth + (s.get('t') == 'obj'))
    visit(spec, 0)
    return (spec, kinds) if kinds else None


def has_mixed_keys(spec):
    for s in _walk(spec):
        if s.get('t') == 'dict':
            ts = {k.get('t') for k in s['k']}
            if 'str' in ts and len(ts) > 1:
                return True
    return False


def is_deterministic(spec):
    """False when the object tree contains a random component without an explicit integer seed."""
    for s in _walk(spec):
        if s.get('t') != 'obj':
            continue
        if s['cls'] in RANDOM_CLASSES and s['args'].get('seed', _NONE).get('t') != 'int':
            return False
        if s['args'].get('transferer', {}).get('v') == 'Hare':
            return False
    return True


def spec_hazards(spec):
    """The known-defect triggers (names from AVOIDABLE, plus 'unrepresentable' for bad specs) present in a spec."""
    out = set()

    def inexact(v):
        return v is not None and any(x.get('t') in ('frac', 'dec') for x in _walk(v))

    def given(a, p):
        return a.get(p, _NONE).get('t') != 'none'
    for s in _walk(spec):
        if s.get('t') == 'closure':
            out.add('unrepresentable')
        if s.get('t') != 'obj':
            continue
        short, a = s['cls'].rsplit('.', 1)[1], s['args']
        pairs = {'VoteMagnitudeChecker': [('bounds', None)], 'ApprovalVoteValidator': [('vote_count_bounds', 'count_checker')],
                 'RankedVoteValidator': [('total_vote_count_bounds', 'total_count_checker'),
                                         ('rank_vote_count_bounds', 'rank_vote_count_checkers')],
                 'EnumScoreVoteValidator': [('allowed_scorings', 'n_scorings_checker'), ('sum_bounds', 'sum_checkers')],
                 'RangeVoteValidator': [('allowed_scorings', 'n_scorings_checker'), ('sum_bounds', 'sum_checkers'),
                                        ('range', 'range_checker')]}.get(short, [])
        if any(inexact(a.get(b)) and not (c and given(a, c)) for b, c in pairs):
            out.add('checker_nonint_bounds')
        if (short == 'RankedVoteValidator' and not given(a, 'rank_vote_count_checkers')) or \
                (short in ('EnumScoreVoteValidator', 'RangeVoteValidator') and not given(a, 'sum_checkers')):
            out.add('validator_defaultdict')
        if short == 'STAR' and a.get('runoff_added_fraction', {}).get('t') in ('frac', 'dec'):
            out.add('star_fraction')
        if short == 'STAR' and a.get('unscored_value', {}).get('t') == 'str':
            out.add('star_unscored_name')
        if short == 'ThresholdOpenList' and given(a, 'quota_function') and 'quota_fraction' in a \
                and build(a['quota_fraction']) != 1:
            out.add('openlist_quota_fraction')
    return sorted(out & OPEN_HAZARDS)


# the triggers of defects that are still open (the others were repaired: 1c4ee21, STAR unscored_value, ThresholdOpenList)
OPEN_HAZARDS = {'validator_defaultdict', 'unrepresentable'}


# ----------------------------------------------------------------------------------------------------------------------
# canonical outcomes


def _enc(x, _d=0, full=False):
    """Canonical JSON-able encoding; ``full`` spells out votelib objects with all their public attributes."""
    import votelib.candidate as vc
    import votelib.evaluate.core as vcore
    if _d > 25:
        return {'repr': 'too deep'}
    if full and hasattr(x, '__dict__') and type(x).__module__.startswith('votelib') and _d < 8:
        return {'obj': type(x).__name__,
                'vars': [[k, _enc(v, _d + 1, True)] for k, v in sorted(vars(x).items()) if not k.startswith('_')]}
    if x is None or isinstance(x, (bool, str)):
        return x
    if isinstance(x, float):
        return 'float:' + repr(x)
    if isinstance(x, (int, Fraction, Decimal)):
        try:
            return str(Fraction(x))
        except (ValueError, OverflowError, TypeError):
            return 'num:' + str(x)
    if isinstance(x, vcore.Tie):
        return {'tie': sorted((_enc(i, _d + 1, full) for i in x), key=json.dumps)}
    if isinstance(x, dict):
        return {'dict': sorted(([_enc(k, _d + 1, full), _enc(v, _d + 1, full)] for k, v in x.items()), key=lambda kv: json.dumps(kv[0]))}
    if isinstance(x, (list, tuple)):
        return [_enc(i, _d + 1, full) for i in x]
    if isinstance(x, (set, frozenset)):
        return {'set': sorted((_enc(i, _d + 1, full) for i in x), key=json.dumps)}
    if isinstance(x, (vc.Person, vc.ElectionParty, vc.BlankVoteOption)):
        return {'cand': type(x).__name__, 'name': getattr(x, 'name', None)}
    return {'repr': type(x).__name__}


class _Timeout(Exception):
    pass


@contextlib.contextmanager
def _guard(seconds=0.5):
    """A wall-clock limit for one call (POSIX main thread only; elsewhere there is no limit)."""
    active = hasattr(signal, 'setitimer') and threading.current_thread() is threading.main_thread()
    if active:
        def on_alarm(*_):
            raise _Timeout()
        old = signal.signal(signal.SIGALRM, on_alarm)
        signal.setitimer(signal.ITIMER_REAL, seconds)
    try:
        yield
    finally:
        if active:
            signal.setitimer(signal.ITIMER_REAL, 0)
            signal.signal(signal.SIGALRM, old)


def _try(fn, enc=_enc):
    try:
        with _guard():
            return enc(fn())
    except _Timeout:
        return {'err': 'Timeout'}
    except Exception as e:     # exceptions are outcomes too
        return {'err': type(e).__name__}


# ----------------------------------------------------------------------------------------------------------------------
# inputs


@functools.lru_cache(maxsize=None)
def _cand_classes():
    """Candidate classes hashed by name: votelib iterates over sets of candidates in places (AlternativeThresholds),
    and the default identity hash would make equal inputs built twice give differently ordered results."""
    import votelib.candidate as vc

    def by_name(base):
        return type(base.__name__, (base,), {'__hash__': lambda self: hash((base.__name__, self.name)),
                                             '__module__': base.__module__})
    return by_name(vc.Person), by_name(vc.PoliticalParty), by_name(vc.Coalition), by_name(vc.NoneOfTheAbove)


class _Inputs:
    """Fresh, seed-determined inputs; nothing is shared between calls to outcomes()."""

    def __init__(self, rng):
        Person, Party, Coalition, Nota = _cand_classes()
        self.r = rng
        self.cands = list('ABCDE')[:rng.randint(2, 5)]
        props = [{'minority': True, 'region': 'N', 'tier': 1, 'tags': ('x',)}, {'minority': False, 'region': 'S', 'tier': 2},
                 {'region': 'N', 'tags': ()}, {}]
        self.parties = [Party('P%d' % i, number=i + 1, properties=dict(props[i % 4]), withdrawn=(i == 3))
                        for i in range(rng.randint(2, 4))]
        self.parties.append(Coalition(self.parties[:2], number=9))
        if rng.random() < .5:
            self.parties.append(Coalition([Party('Q%d' % i) for i in range(3)], name='Q3'))
        self.persons = [Person('p%d' % i, number=10 - i, candidacy_for=(self.parties[i % len(self.parties)] if i % 4 != 3 else None),
                                  membership=(self.parties[0] if i % 2 else None), properties=dict(props[i % 4]))
                        for i in range(rng.randint(3, 6))]
        self.blank = Nota('NOTA')
        self.districts = ['X', 'Y', 'Z'][:rng.randint(2, 3)]

    def w(self):
        r = self.r
        return r.randint(1, 12) if r.random() < .9 else Fraction(r.randint(1, 30), r.choice((2, 3, 4)))

    def subset(self, cands=None):
        cands = cands or self.cands
        return self.r.sample(cands, self.r.randint(1, len(cands)))

    def simple(self, cands=None):
        cands = cands or self.cands
        votes = {c: self.w() for c in cands if self.r.random() < .9}
        return votes or {cands[0]: 1}

    def ranked_ballot(self):
        order = self.subset()
        self.r.shuffle(order)
        ballot = list(order)
        if len(ballot) >= 2 and self.r.random() < .25:
            i = self.r.randrange(len(ballot) - 1)
            ballot[i:i + 2] = [frozenset(ballot[i:i + 2])]
        return tuple(ballot)

    def approval_ballot(self): return frozenset(self.subset())                                          # noqa: E704
    def score_ballot(self): return frozenset((c, self.r.randint(0, 5)) for c in self.subset())          # noqa: E704
    def ranked(self): return {self.ranked_ballot(): self.w() for _ in range(self.r.randint(2, 6))}      # noqa: E704
    def approval(self): return {self.approval_ballot(): self.w() for _ in range(self.r.randint(2, 6))}  # noqa: E704
    def score(self): return {self.score_ballot(): self.r.randint(1, 9) for _ in range(self.r.randint(2, 6))}  # noqa: E704
    def condorcet(self): return {(a, b): self.r.randint(0, 9) for a in self.cands for b in self.cands if a != b}  # noqa: E704
    def nested(self): return {d: self.simple() for d in self.districts}                                 # noqa: E704

    def votes(self, vt):
        if vt == 'persons':
            return self.simple(self.persons)
        if vt == 'parties':
            return self.simple(self.parties)
        return getattr(self, vt if vt in VOTE_TYPES else 'simple')()

    def ballot(self, vt):
        if vt in ('ranked', 'approval', 'score'):
            return getattr(self, vt + '_ballot')()
        return self.r.choice(self.cands + [self.persons[0], self.parties[0], self.blank, ('A', 'B'), 3])

    def prev(self, votes):
        keys = list(votes)
        return {k: self.r.randint(0, 2) for k in keys[:self.r.randint(0, len(keys))]}


def _infer_vt(obj, _d=0):
    """The vote type an object expects, from its class and (for wrappers) its parts."""
    e = _TABLE.get(_fullname(type(obj)))
    if e is None or _d > 12:
        return None
    if e.vin != '*':
        return e.vin
    for attr in ('converter', 'validator', 'converters', 'vote_subsetter', 'evaluator', 'main', 'rounds'):
        part = getattr(obj, attr, None)
        for p in (part if isinstance(part, list) else [part]):
            got = _infer_vt(p, _d + 1) if p is not None else None
            if got:
                return got
    return None


def _call_form(ev, _d=0):
    try:
        params = inspect.signature(ev.evaluate).parameters
    except (TypeError, ValueError, AttributeError):
        return 'vn'
    kinds = {p.kind for p in params.values()}
    if 'candidate_list' in params:
        return 'openlist'
    if 'party_lists' in params:
        return 'partylist'
    if inspect.Parameter.VAR_POSITIONAL in kinds and _d < 12:
        inner = getattr(ev, 'evaluator', None) or getattr(ev, 'main', None)
        return _call_form(inner, _d + 1) if inner is not None else 'vn'
    if 'n_seats' in params:
        return 'vnp' if 'prev_gains' in params and params['prev_gains'].default is inspect.Parameter.empty else 'vn'
    if 'prev_gains' in params and params['prev_gains'].default is inspect.Parameter.empty:
        return 'vp'
    return 'v'


def _eval_one(obj, inp, vt, k):
    form = _call_form(obj)
    votes = inp.votes(vt)
    n = inp.r.randint(1, 3)
    if vt == 'nested' and inp.r.random() < .4:
        n = {d: inp.r.randint(0, 2) for d in votes}
    if form == 'v':
        return _try(lambda: obj.evaluate(votes))
    if form == 'vp':
        prev = inp.prev(votes)
        return _try(lambda: obj.evaluate(votes, prev))
    if form == 'vnp':
        prev = inp.prev(votes)
        return _try(lambda: obj.evaluate(votes, n, prev))
    if form == 'openlist':
        clist = list(votes)
        inp.r.shuffle(clist)
        return _try(lambda: obj.evaluate(votes, n, clist))
    if form == 'partylist':
        inner = obj
        while not hasattr(inner, 'list_eval') and hasattr(inner, 'evaluator'):
            inner = inner.evaluator
        votes = inp.simple(inp.parties)
        lists = {p: [c for c in inp.persons if c.candidacy_for is p] + ['%s-%d' % (p.name, i) for i in range(2)] for p in inp.parties}
        kw = {'party_lists': lists}
        if getattr(inner, 'list_eval', None) is not None:
            if getattr(inner, 'list_votes_converter', None) is not None:
                kw['list_votes'] = inp.simple([c for c in inp.persons if c.candidacy_for is not None])
            else:
                kw['list_votes'] = {p: inp.simple(lists[p]) for p in inp.parties}
        return _try(lambda: obj.evaluate(votes, n, **kw))
    return _try(lambda: obj.evaluate(votes, n))


def outcomes(obj, seed, n=6):
    """Deterministic (given the kind of obj and the seed) canonical outcomes on n generated inputs."""
    name = _fullname(type(obj))
    kind = KINDS.get(name)
    state = random.getstate()
    try:
        return _outcomes(obj, kind, random.Random(seed), seed, n)
    finally:
        random.setstate(state)


def _outcomes(obj, kind, rng, seed, n):
    out = []
    own = _infer_vt(obj)
    for k in range(n):
        if out and out[-1] in ({'err': 'Timeout'}, {'err': 'SkippedAfterTimeout'}):
            out.append({'err': 'SkippedAfterTimeout'})      # an endless loop in the system: do not wait n times
            continue
        inp = _Inputs(random.Random(rng.getrandbits(48)))
        rot = VOTE_TYPES[(k // 2 + seed) % len(VOTE_TYPES)]
        vt = (own or 'simple') if k % 2 == 0 else rot
        if kind in ('selector', 'seatless_selector', 'distributor', 'seatless_distributor', 'wrapper', 'openlist',
                    'partylist', 'system'):
            out.append(_eval_one(obj, inp, vt, k))
        elif kind == 'converter':
            votes = inp.votes(vt)
            if own in ('result_list', 'result_nested') and k % 2 == 0:
                cands = inp.persons if k % 4 == 0 else inp.cands
                votes = inp.subset(cands) if own == 'result_list' else \
                    {d: (inp.subset(cands) if k % 4 == 0 else inp.simple()) for d in inp.districts}
            if 'subset' in inspect.signature(obj.convert).parameters:
                sub = inp.subset()
                out.append(_try(lambda: obj.convert(votes, sub)))
            else:
                out.append(_try(lambda: obj.convert(votes)))
        elif kind == 'validator':
            ballot = inp.ballot(vt)
            out.append(_try(lambda: (obj.validate(ballot), 'ok')[1]))
        elif kind == 'nominator':
            cand = inp.r.choice(['A', inp.persons[0], inp.persons[-1], inp.parties[0], inp.parties[-1], inp.blank, 3, ('A',)])
            out.append(_try(lambda: (obj.validate(cand), 'ok')[1]))
        elif kind == 'subsetter':
            ballot, sub = inp.ballot(vt), inp.subset()
            out.append(_try(lambda: obj.subset(ballot, sub)))
        elif kind == 'rank_scorer':
            def run():
                if hasattr(obj, 'set_n_candidates') and k % 3:
                    obj.set_n_candidates(5)
                return obj.scores(k)
            out.append(_try(run))
        elif kind == 'transferer':
            def run():
                import votelib.evaluate.sequential as vs
                alloc = vs.initial_allocation(inp.ranked(), obj)
                first = next(c for c in alloc if alloc[c])
                return [obj.transfer(alloc, [first]), obj.subtract(alloc, {first: 1})]
            out.append(_try(run))
        elif kind == 'mapper':
            person = inp.persons[k % len(inp.persons)]
            out.append(_try(lambda: obj(person)))
        elif kind == 'seat_calculator':
            votes = inp.votes(vt)
            prev = {d: inp.prev(v) for d, v in votes.items()} if vt == 'nested' else inp.prev(votes)
            seats = inp.r.randint(1, 4)
            out.append(_try(lambda: obj.calculate(votes, seats, prev)))
        elif kind == 'checker':
            val = inp.r.choice([0, 1, 2, 3, Fraction(5, 2), 7])
            out.append(_try(lambda: [obj.is_valid(val), bool(obj)]))
        elif kind == 'candidate':
            return [_try(lambda: obj, lambda x: _enc(x, 0, True))]
        else:
            return []
    return out


# ----------------------------------------------------------------------------------------------------------------------
# the C19 check itself, and the self-test


def check_spec(spec, seed, n=6):
    """Round-trip problems of one spec as [(category, detail)]; empty when the property holds for it."""
    import votelib.persist as vp
    try:
        obj = build(spec)
    except Exception as e:
        return [('GENERATOR build failed', repr(e))]
    try:
        d = vp.to_dict(obj)
    except Exception as e:
        return [('to_dict raises ' + type(e).__name__, repr(e))]
    probs, copies = [], []
    for label, prep in (('from_dict(d)', lambda x: x), ('from_dict(json)', lambda x: json.loads(json.dumps(x)))):
        try:
            copies.append((label, vp.from_dict(prep(d))))
        except Exception as e:
            probs.append(('%s raises %s' % (label, type(e).__name__), repr(e)))
    det = is_deterministic(spec)
    base = outcomes(obj, seed, n) if det else ['nondeterministic']
    for label, y in copies:
        try:
            d2 = vp.to_dict(y)
        except Exception as e:
            probs.append(('to_dict of %s raises %s' % (label, type(e).__name__), repr(e)))
            continue
        if d2 != d:
            probs.append(('to_dict differs after ' + label, 'orig %r\nreloaded %r' % (d, d2)))
        got = outcomes(y, seed, n) if det else base
        if got != base:
            idx = [j for j, (a, b) in enumerate(zip(base, got)) if a != b]
            probs.append(('outcomes differ after ' + label, 'inputs %r: orig %r reloaded %r' % (
                idx, [base[j] for j in idx][:2], [got[j] for j in idx][:2])))
    if det and vp.to_dict(obj) != d:
        probs.append(('to_dict changed by evaluation', ''))
    return probs


def _blame(spec, seed, category):
    """The class of the smallest nested object spec that shows the same category of problem on its own."""
    subs = sorted((s for s in _walk(spec) if s.get('t') == 'obj'), key=lambda s: len(json.dumps(s)))
    for sub in subs:
        if any(c == category for c, _ in check_spec(sub, seed)):
            return sub['cls'], sub
    return spec['cls'], spec


def _selftest(seeds=range(6), per_seed=400, bad_per_seed=200, show_all=False):
    import collections
    import time
    import votelib.persist as vp
    t0 = time.time()
    disc, cov = discover(), covered()
    print('discovered %d classes, covered %d' % (len(disc), len(cov)))
    print('discovered but not covered:', sorted(set(disc) - set(cov)))
    print('in table but not discovered:', sorted(set(_TABLE) - set(disc)))
    per_class, depths, feats = collections.Counter(), collections.Counter(), collections.Counter()
    good_by_top, n_by_top = collections.Counter(), collections.Counter()
    failures = collections.defaultdict(list)
    n_total = n_nonerr = n_det = n_failed = 0
    hazard_stats = collections.Counter()
    for s in seeds:
        rng = random.Random(s)
        for i in range(per_seed):
            spec = gen_spec(rng)
            assert json.loads(json.dumps(spec)) == spec, 'spec is not pure JSON'
            n_total += 1
            per_class.update(set(spec_classes(spec)))
            depths[spec_depth(spec)] += 1
            feats.update(spec_features(spec))
            probs = check_spec(spec, s)
            n_failed += bool(probs)
            hazard_stats[(bool(spec_hazards(spec)), bool(probs))] += 1
            for category, detail in probs:
                culprit, sub = _blame(spec, s, category)
                failures[(category, culprit)].append((spec, sub, detail))
            if is_deterministic(spec) and not (probs and probs[0][0].startswith(('GENERATOR', 'to_dict raises'))):
                n_det += 1
                res = outcomes(build(spec), s)
                json.dumps(res)
                ok = any(not (isinstance(o, dict) and 'err' in o) for o in res)
                n_nonerr += ok
                n_by_top[spec['cls']] += 1
                good_by_top[spec['cls']] += ok
    print('specs %d (%d with a problem); deterministic and evaluated %d, of these with at least one non-error outcome '
          '%d (%.1f%%)' % (n_total, n_failed, n_det, n_nonerr, 100.0 * n_nonerr / max(n_det, 1)))
    print('spec_hazards vs problems: hazard&problem %d, hazard&clean %d, NO hazard but problem %d, neither %d' % tuple(
        hazard_stats[k] for k in ((True, True), (True, False), (False, True), (False, False))))
    print('top-level classes that never gave a non-error outcome:', sorted(c for c in n_by_top if not good_by_top[c]))
    print('depth histogram:', sorted(depths.items()))
    print('features:', sorted(feats.items()))
    print('per-class counts (specs containing the class):')
    for name in cov:
        print('  %5d  %s' % (per_class[name], name))
    bad = collections.Counter()
    for s in seeds:
        rng = random.Random(1000 + s)
        for i in range(bad_per_seed):
            spec = gen_bad_spec(rng)
            assert json.loads(json.dumps(spec)) == spec
            closure = next(x for x in _walk(spec) if x.get('t') == 'closure')['v']
            try:
                obj = build(spec)
            except Exception as e:
                failures[('GENERATOR bad-spec build failed', spec['cls'])].append((spec, spec, repr(e)))
                continue
            try:
                vp.to_dict(obj)
                failures[('unrepresentable callable NOT rejected', closure)].append((spec, spec, ''))
            except ValueError:
                bad['ValueError (as required) / ' + closure] += 1
            except Exception as e:
                bad['%s instead of ValueError / %s' % (type(e).__name__, closure)] += 1
    print('bad specs:', sorted(bad.items()))
    print('FAILURE GROUPS (category | smallest failing class): %d' % len(failures))
    for sig, items in sorted(failures.items()):
        print('== %s | %s: %d' % (sig[0], sig[1], len(items)))
        for spec, sub, detail in (items if show_all else items[:2]):
            print('   spec   ', json.dumps(spec)[:3000])
            if sub is not spec:
                print('   minimal', json.dumps(sub)[:1500])
            print('   detail ', detail[:500])
    print('run time %.1f s' % (time.time() - t0))


if __name__ == '__main__':
    _selftest(show_all='--all' in sys.argv)
