#!/usr/bin/env python3
"""Regenerates MANIFEST.json from harness/props/*.py metadata (run by hand after adding a property)."""
import os, sys, json, importlib
HERE = os.path.dirname(os.path.abspath(__file__))
VERIF = os.path.dirname(HERE)
sys.path.insert(0, HERE)
sys.path.insert(0, '/repo')
ALL = [f'C{i:02d}' for i in range(1, 21)]
checks, na = [], []
fix_commits = []
import common
for k in common.load_known():
    if k.get('status') == 'fixed' and k.get('commit') and k['commit'] not in fix_commits:
        fix_commits.append(k['commit'])
NA_REASONS = json.load(open(os.path.join(HERE, 'not_claimed.json'))) if os.path.exists(os.path.join(HERE, 'not_claimed.json')) else {}
CLAIMED = json.load(open(os.path.join(HERE, 'claimed.json')))
for pid in ALL:
    if pid not in CLAIMED:
        na.append({'property_id': pid, 'reason': NA_REASONS.get(pid, 'check under construction (Lean model and correspondence in progress); not claimed yet')})
        continue
    if not os.path.exists(os.path.join(HERE, 'props', pid + '.py')):
        na.append({'property_id': pid, 'reason': NA_REASONS.get(pid, 'check not built yet (Lean model and correspondence in progress); not claimed')})
        continue
    try:
        m = importlib.import_module('props.' + pid)
        _ = (m.LEVEL_TEXT, m.LEVEL_NOTE, m.TECHNIQUE, m.REQUIRED)
        assert os.path.exists(os.path.join(VERIF, 'evidence', pid + '.json'))
    except Exception as e:
        na.append({'property_id': pid, 'reason': NA_REASONS.get(pid, 'check under construction (Lean model and correspondence in progress); not claimed yet')})
        continue
    checks.append({
        'property_id': pid,
        'quick_cmd': f'./check {pid} --tier quick',
        'thorough_cmd': f'./check {pid} --tier thorough',
        'evidence_file': f'evidence/{pid}.json',
        'replay_cmd_template': './check replay {path}',
        'engine': 'lean4-proof+correspondence',
        'level_claimed': {'category': 'proof', 'text': m.LEVEL_TEXT, 'design_ref': f'DESIGN.md section 7 / {pid}'},
        'level_note': m.LEVEL_NOTE,
        'technique': m.TECHNIQUE,
    })
man = {
    'version': 1,
    'setup_cmd': './check --setup',
    'hooks': {'guard': 'VOTELIB_VERIF', 'enable': 'no source hooks: instrumentation is applied from the harness process (monkey-patching); the guard variable is unused by the source',
              'baseline_off_cmd': 'cd /repo && /venv/bin/python -m pytest -ra -q -p no:cacheprovider --timeout=900 --continue-on-collection-errors',
              'source_commits': fix_commits, 'add_only': True},
    'engines': [{'name': 'lean4-proof+correspondence', 'path': 'lean/', 'serves_properties': [c['property_id'] for c in checks],
                 'kind_free_text': 'Lean 4 model + theorems (lake build, axiom audit, leanchecker in thorough tier); translator regenerates leaf arithmetic from /repo each run; differential correspondence of the model driver vs the real votelib; oracle-driven failing-input search'}],
    'checks': checks,
    'not_applicable': na,
    'notes': 'See DESIGN.md (section 12 = as built). Known findings: known_findings/Cxx.json, one file per property (summary FINDINGS.md); seeded changes used to test the checks: seeded/ (summary SEEDED.md).',
}
json.dump(man, open(os.path.join(VERIF, 'MANIFEST.json'), 'w'), indent=1)
print(len(checks), 'checks;', len(na), 'not claimed')
