#!/usr/bin/env python3
"""Python-AST -> Lean translator for votelib's leaf arithmetic (DESIGN 3.1).

Regenerates lean/VotelibModel/Gen/*.lean from /repo/votelib/component/*.py (and two threshold
comprehensions) on every run.  Files are only rewritten when their content changes.

Supported grammar (anything else raises TranslateError = broken tie, see DESIGN 4):
  body   ::= (name = e | self.name = e)* (return e | if e: return e else: return e | if e: body else: body)
  e      ::= name | self.name | int | e+e | e-e | e*e | e**e | e/e? (no) | Fraction(e,e) | Fraction(e) | int(e)
           | math.ceil(e) | round(e) | max(e,e) | e<e | e<=e | e>e | e>=e | e==e | e!=e | e and e | e or e | not e
           | e if e else e | [e for x in range(e)] | f(e,...) for a translated function f
           | v.limit_denominator(k) == v
Types: Nat (order/seats/rank style parameters and non-negative literals), Int, Rat, Bool, List Rat.
"""
import ast
import os
import sys
import hashlib

REPO = os.environ.get('VOTELIB_REPO', '/repo')
HERE = os.path.dirname(os.path.abspath(__file__))
GEN_DIR = os.path.join(os.path.dirname(HERE), 'lean', 'VotelibModel', 'Gen')


class TranslateError(Exception):
    pass


def cast(s, t, to):
    if t == to:
        return s
    order = ['Nat', 'Int', 'Rat']
    if t in order and to in order and order.index(t) < order.index(to):
        return f'(({s} : {t}) : {to})'
    raise TranslateError(f'cannot cast {t} to {to}: {s}')


def join_type(a, b):
    order = ['Nat', 'Int', 'Rat']
    if a in order and b in order:
        return order[max(order.index(a), order.index(b))]
    raise TranslateError(f'no numeric join of {a}, {b}')


class Tr:
    def __init__(self, env, funcs):
        self.env = dict(env)      # python name -> (lean name, type)
        self.funcs = funcs        # python callee name -> (lean name, [param types], ret type)

    def name_of(self, node):
        if isinstance(node, ast.Name):
            return node.id
        if isinstance(node, ast.Attribute) and isinstance(node.value, ast.Name) and node.value.id == 'self':
            return 'self.' + node.attr
        return None

    def expr(self, n):
        nm = self.name_of(n)
        if nm is not None:
            if nm not in self.env:
                raise TranslateError(f'unknown name {nm}')
            return self.env[nm]
        if isinstance(n, ast.Constant):
            if isinstance(n.value, bool):
                return ('true' if n.value else 'false', 'Bool')
            if isinstance(n.value, int) and n.value >= 0:
                return (f'({n.value} : Nat)', 'Nat')
            raise TranslateError(f'constant {n.value!r}')
        if isinstance(n, ast.UnaryOp) and isinstance(n.op, ast.USub):
            s, t = self.expr(n.operand)
            t2 = 'Int' if t == 'Nat' else t
            return (f'(-{cast(s, t, t2)})', t2)
        if isinstance(n, ast.UnaryOp) and isinstance(n.op, ast.Not):
            s, t = self.expr(n.operand)
            if t != 'Bool':
                raise TranslateError('not on non-bool')
            return (f'(!{s})', 'Bool')
        if isinstance(n, ast.BinOp):
            a, ta = self.expr(n.left)
            b, tb = self.expr(n.right)
            if isinstance(n.op, ast.Pow):
                if tb != 'Nat':
                    raise TranslateError('exponent must be Nat')
                return (f'({a} ^ {b})', ta)
            t = join_type(ta, tb)
            if isinstance(n.op, ast.Add):
                return (f'({cast(a, ta, t)} + {cast(b, tb, t)})', t)
            if isinstance(n.op, ast.Mult):
                return (f'({cast(a, ta, t)} * {cast(b, tb, t)})', t)
            if isinstance(n.op, ast.Sub):
                t = 'Int' if t == 'Nat' else t       # Python ints go negative
                return (f'({cast(a, ta, t)} - {cast(b, tb, t)})', t)
            raise TranslateError(f'binop {type(n.op).__name__}')
        if isinstance(n, ast.BoolOp):
            parts = [self.expr(v) for v in n.values]
            if any(t != 'Bool' for _, t in parts):
                raise TranslateError('and/or on non-bool (Python truthiness not supported)')
            op = ' && ' if isinstance(n.op, ast.And) else ' || '
            return ('(' + op.join(s for s, _ in parts) + ')', 'Bool')
        if isinstance(n, ast.Compare):
            if len(n.ops) != 1:
                raise TranslateError('chained comparison')
            # v.limit_denominator(k) == v
            l, r = n.left, n.comparators[0]
            if (isinstance(n.ops[0], ast.Eq) and isinstance(l, ast.Call)
                    and isinstance(l.func, ast.Attribute) and l.func.attr == 'limit_denominator'):
                v, tv = self.expr(l.func.value)
                k, tk = self.expr(l.args[0])
                v2, _ = self.expr(r)
                if v2 != v or tk != 'Nat':
                    raise TranslateError('limit_denominator pattern')
                return (f'(Py.denLe {cast(v, tv, "Rat")} {k})', 'Bool')
            a, ta = self.expr(l)
            b, tb = self.expr(r)
            t = join_type(ta, tb)
            ops = {ast.Lt: '<', ast.LtE: '≤', ast.Gt: '>', ast.GtE: '≥', ast.Eq: '=', ast.NotEq: '≠'}
            o = ops.get(type(n.ops[0]))
            if o is None:
                raise TranslateError('comparison op')
            return (f'(decide ({cast(a, ta, t)} {o} {cast(b, tb, t)}))', 'Bool')
        if isinstance(n, ast.IfExp):
            c, tc = self.expr(n.test)
            a, ta = self.expr(n.body)
            b, tb = self.expr(n.orelse)
            if tc != 'Bool':
                raise TranslateError('if-expression on non-bool')
            t = join_type(ta, tb)
            return (f'(if {c} = true then {cast(a, ta, t)} else {cast(b, tb, t)})', t)
        if isinstance(n, ast.ListComp):
            if len(n.generators) != 1 or n.generators[0].ifs:
                raise TranslateError('comprehension shape')
            g = n.generators[0]
            if not (isinstance(g.iter, ast.Call) and isinstance(g.iter.func, ast.Name)
                    and g.iter.func.id == 'range' and len(g.iter.args) == 1
                    and isinstance(g.target, ast.Name)):
                raise TranslateError('comprehension must be over range(e)')
            hi, th = self.expr(g.iter.args[0])
            if th != 'Nat':
                raise TranslateError('range bound must be Nat')
            sub = Tr(self.env, self.funcs)
            sub.env[g.target.id] = (g.target.id, 'Nat')
            e, te = sub.expr(n.elt)
            return (f'((List.range {hi}).map (fun {g.target.id} => {cast(e, te, "Rat")}))', 'List Rat')
        if (isinstance(n, ast.Call) and isinstance(n.func, ast.Attribute) and n.func.attr == 'get'
                and isinstance(n.func.value, ast.Name) and (n.func.value.id + '.get(reversed)') in self.env
                and len(n.args) == 2 and isinstance(n.args[0], ast.Call) and getattr(n.args[0].func, 'id', None) == 'tuple'
                and isinstance(n.args[1], ast.Constant) and n.args[1].value == 0):
            # counts.get(tuple(reversed(pair)), 0): the count of the reverse pair, 0 when absent
            return self.env[n.func.value.id + '.get(reversed)']
        if isinstance(n, ast.Call):
            f = n.func
            fname = None
            if isinstance(f, ast.Name):
                fname = f.id
            elif isinstance(f, ast.Attribute) and isinstance(f.value, ast.Name):
                fname = f.value.id + '.' + f.attr
            args = [self.expr(a) for a in n.args]
            if n.keywords:
                raise TranslateError('keyword arguments')
            if fname == 'Fraction' and len(args) == 2:
                (a, ta), (b, tb) = args
                return (f'({cast(a, ta, "Rat")} / {cast(b, tb, "Rat")})', 'Rat')
            if fname == 'Fraction' and len(args) == 1:
                (a, ta), = args
                return (cast(a, ta, 'Rat'), 'Rat')
            if fname == 'int' and len(args) == 1:
                (a, ta), = args
                if ta in ('Nat', 'Int'):
                    return (a, ta)
                return (f'(Py.pyInt {a})', 'Int')
            if fname == 'math.ceil' and len(args) == 1:
                (a, ta), = args
                return (f'(Py.pyCeil {cast(a, ta, "Rat")})', 'Int')
            if fname == 'math.floor' and len(args) == 1:
                (a, ta), = args
                return (f'(Py.pyFloor {cast(a, ta, "Rat")})', 'Int')
            if fname == 'round' and len(args) == 1:
                (a, ta), = args
                return (f'(Py.pyRound {cast(a, ta, "Rat")})', 'Int')
            if fname == 'max' and len(args) == 2:
                (a, ta), (b, tb) = args
                return (f'(Py.pyMax {cast(a, ta, "Rat")} {cast(b, tb, "Rat")})', 'Rat')
            if fname == 'sum' and len(args) == 1 and args[0][1] == 'List Rat':
                return (f'(List.sum {args[0][0]})', 'Rat')
            if fname in self.funcs:
                lname, ptypes, rtype = self.funcs[fname]
                if len(ptypes) != len(args):
                    raise TranslateError(f'arity of {fname}')
                cs = ' '.join(cast(a, ta, pt) for (a, ta), pt in zip(args, ptypes))
                return (f'({lname} {cs})', rtype)
            if fname in self.env and self.env[fname][1].startswith('Fn:'):
                # call of a function-typed parameter
                _, sig = self.env[fname]
                ptypes, rtype = sig[3:].split('->')
                ptypes = ptypes.split(',')
                cs = ' '.join(cast(a, ta, pt) for (a, ta), pt in zip(args, ptypes))
                return (f'({self.env[fname][0]} {cs})', rtype)
            raise TranslateError(f'call of {fname}')
        raise TranslateError(f'expression {ast.dump(n)[:80]}')

    def body(self, stmts, ret_type, result_name=None):
        """translate a statement list to a Lean term of type ret_type"""
        stmts = [s for s in stmts if not (isinstance(s, ast.Expr) and isinstance(s.value, ast.Constant))]
        if not stmts:
            if result_name is not None:
                s, t = self.env[result_name]
                return cast(s, t, ret_type) if ret_type != 'List Rat' else s
            raise TranslateError('function falls off the end')
        s0 = stmts[0]
        if isinstance(s0, ast.Assign) and len(s0.targets) == 1:
            nm = self.name_of(s0.targets[0])
            if nm is None:
                raise TranslateError('assignment target')
            e, t = self.expr(s0.value)
            lean_nm = nm.replace('self.', 'self_')
            sub = Tr(self.env, self.funcs)
            sub.env[nm] = (lean_nm, t)
            rest = sub.body(stmts[1:], ret_type, result_name)
            return f'let {lean_nm} : {t} := {e}\n  {rest}'
        if isinstance(s0, ast.Return):
            e, t = self.expr(s0.value)
            if ret_type == 'List Rat' or ret_type == 'Bool':
                if t != ret_type:
                    raise TranslateError(f'return type {t} != {ret_type}')
                return e
            return cast(e, t, ret_type)
        if isinstance(s0, ast.If):
            c, tc = self.expr(s0.test)
            if tc != 'Bool':
                raise TranslateError('if on non-bool')
            a = self.body(s0.body + ([] if self._returns(s0.body) else stmts[1:]), ret_type, result_name)
            b = self.body((s0.orelse if s0.orelse else []) + ([] if (s0.orelse and self._returns(s0.orelse)) else stmts[1:]),
                          ret_type, result_name)
            return f'if {c} = true then\n    {a}\n  else\n    {b}'
        raise TranslateError(f'statement {type(s0).__name__}')

    @staticmethod
    def _returns(stmts):
        return bool(stmts) and isinstance(stmts[-1], (ast.Return, ast.Raise))


def find_def(tree, path):
    """path like 'modified_first_coef/_modified_divisor' or 'Borda.set_n_candidates'"""
    node = tree
    for part in path.replace('.', '/').split('/'):
        for ch in ast.walk(node) if node is tree else ast.iter_child_nodes(node):
            if isinstance(ch, (ast.FunctionDef, ast.ClassDef)) and ch.name == part:
                node = ch
                break
        else:
            # search deeper (nested def)
            for ch in ast.walk(node):
                if isinstance(ch, (ast.FunctionDef, ast.ClassDef)) and ch.name == part and ch is not node:
                    node = ch
                    break
            else:
                raise TranslateError(f'definition {path} not found')
    return node


# ---------------------------------------------------------------------------------------------
# What is translated.  (python file, def path, lean name, [(py param, lean name, type)], return type,
#                       result attribute for procedures that assign self.<attr>)
SPECS = {
    'Divisor': ('votelib/component/divisor.py', [
        ('d_hondt', 'd_hondt', [('order', 'order', 'Nat')], 'Rat', None),
        ('sainte_lague', 'sainte_lague', [('order', 'order', 'Nat')], 'Rat', None),
        ('imperiali', 'imperiali', [('order', 'order', 'Nat')], 'Rat', None),
        ('danish', 'danish', [('order', 'order', 'Nat')], 'Rat', None),
        ('macau', 'macau', [('order', 'order', 'Nat')], 'Rat', None),
        ('modified_first_coef/_modified_divisor', 'modified_first_coef',
         [('divisor_fx', 'divisor_fx', 'Fn:Nat->Rat'), ('first_coef', 'first_coef', 'Rat'), ('order', 'order', 'Nat')],
         'Rat', None),
    ]),
    'Quota': ('votelib/component/quota.py', [
        ('_round_half_up', 'round_half_up', [('var', 'var', 'Rat')], 'Int', None),
        ('hare', 'hare', [('votes', 'votes', 'Rat'), ('seats', 'seats', 'Nat')], 'Rat', None),
        ('hare_rounded', 'hare_rounded', [('votes', 'votes', 'Rat'), ('seats', 'seats', 'Nat')], 'Rat', None),
        ('droop', 'droop', [('votes', 'votes', 'Rat'), ('seats', 'seats', 'Nat')], 'Rat', None),
        ('hagenbach_bischoff', 'hagenbach_bischoff', [('votes', 'votes', 'Rat'), ('seats', 'seats', 'Nat')], 'Rat', None),
        ('hagenbach_bischoff_ceil', 'hagenbach_bischoff_ceil', [('votes', 'votes', 'Rat'), ('seats', 'seats', 'Nat')], 'Rat', None),
        ('hagenbach_bischoff_rounded', 'hagenbach_bischoff_rounded', [('votes', 'votes', 'Rat'), ('seats', 'seats', 'Nat')], 'Rat', None),
        ('imperiali', 'imperiali', [('votes', 'votes', 'Rat'), ('seats', 'seats', 'Nat')], 'Rat', None),
    ]),
    'Threshold': ('votelib/evaluate/threshold.py', [
        # the filter condition of `return [cand for cand, n_votes in sorted_votes(votes) if <cond>]`
        ('AbsoluteThreshold.evaluate#cond', 'abs_threshold_passes',
         [('self.threshold', 'threshold', 'Rat'), ('self.accept_equal', 'accept_equal', 'Bool'), ('n_votes', 'n_votes', 'Rat')],
         'Bool', None),
        ('RelativeThreshold.evaluate#cond', 'rel_threshold_passes',
         [('self.threshold', 'threshold', 'Rat'), ('self.accept_equal', 'accept_equal', 'Bool'), ('total', 'total', 'Rat'),
          ('n_votes', 'n_votes', 'Rat')],
         'Bool', None),
    ]),
    'OpenList': ('votelib/evaluate/openlist.py', [
        # the jump condition of `jumping = [cand for cand, n_votes in sorted_votes(votes) if <cond>]`
        ('ThresholdOpenList.evaluate#cond', 'openlist_jumps',
         [('threshold', 'threshold', 'Rat'), ('self.accept_equal', 'accept_equal', 'Bool'), ('n_votes', 'n_votes', 'Rat')],
         'Bool', None),
    ]),
    'PairwinScorer': ('votelib/component/pairwin_scorer.py', [
        # value of one pair in the dict comprehension, as a function of its own count and the reverse pair's count
        ('winning_votes#dictval', 'winning_votes_value',
         [('count', 'count', 'Rat'), ('counts.get(reversed)', 'rev', 'Rat')], 'Rat', None),
        ('margins#dictval', 'margins_value',
         [('count', 'count', 'Rat'), ('counts.get(reversed)', 'rev', 'Rat')], 'Rat', None),
        ('pairwise_opposition#dictval', 'pairwise_opposition_value',
         [('count', 'count', 'Rat'), ('counts.get(reversed)', 'rev', 'Rat')], 'Rat', None),
    ]),
    'RankScore': ('votelib/component/rankscore.py', [
        ('Borda.set_n_candidates', 'borda_scores',
         [('self.base', 'base', 'Int'), ('n_candidates', 'n_candidates', 'Nat')], 'List Rat', 'self._scores'),
        ('Dowdall.scores', 'dowdall_scores', [('n_ranked', 'n_ranked', 'Nat')], 'List Rat', None),
        ('Geometric.scores', 'geometric_scores', [('self.base', 'base', 'Nat'), ('n_ranked', 'n_ranked', 'Nat')], 'List Rat', None),
        ('ModifiedBorda.scores', 'modified_borda_scores', [('n_ranked', 'n_ranked', 'Nat')], 'List Rat', None),
        ('FixedTop.scores', 'fixed_top_scores', [('self.top', 'top', 'Int'), ('n_ranked', 'n_ranked', 'Nat')], 'List Rat', None),
    ]),
}


# Closures: the statements of the ENCLOSING function that run before the nested def are part of what the closure computes.
# The translator knows them as exact-rational identities (the parameter keeps its value as a Rat); anything else is refused,
# so that e.g. a float() or limit_denominator() sneaking into the conversion breaks the translation instead of passing unseen.
ENCLOSING_PRELUDE = {
    'modified_first_coef/_modified_divisor': [
        "if not isinstance(first_coef, (int, Fraction)):\n    first_coef = Fraction(*first_coef.as_integer_ratio())",
    ],
}


def check_enclosing(tree, path):
    outer_name, inner_name = path.split('/')[0], path.split('/')[-1]
    outer = find_def(tree, outer_name)
    allowed = ENCLOSING_PRELUDE.get(path)
    if allowed is None:
        return
    stmts = []
    for st in outer.body:
        if isinstance(st, ast.Expr) and isinstance(st.value, ast.Constant) and isinstance(st.value.value, str):
            continue                                   # docstring
        if isinstance(st, ast.FunctionDef) and st.name == inner_name:
            continue
        if isinstance(st, ast.Return) and isinstance(st.value, ast.Name) and st.value.id == inner_name:
            continue
        stmts.append(ast.unparse(st))
    if stmts != allowed:
        raise TranslateError(f'{outer_name}: statements around the closure are not the known exact conversion: {stmts!r}')


def translate_module(modname):
    relpath, items = SPECS[modname]
    src = open(os.path.join(REPO, relpath)).read()
    tree = ast.parse(src)
    out = [f'/- GENERATED by harness/translate.py from {relpath} — do not edit. -/',
           'import VotelibModel.Py', 'namespace VL.Gen.' + modname, 'open VL', '']
    funcs = {}
    for path, lname, params, rtype, result_attr in items:
        cond_only = path.endswith('#cond')
        dictval = path.endswith('#dictval')
        node = find_def(tree, path.split('#')[0])
        if not isinstance(node, ast.FunctionDef):
            raise TranslateError(f'{path} is not a function')
        if '/' in path:
            check_enclosing(tree, path)
        env = {}
        declared = {p for p, _, _ in params}
        for p, ln, t in params:
            env[p] = (ln, t)
        tr = Tr(env, funcs)
        if cond_only:
            comps = [n for n in ast.walk(node) if isinstance(n, ast.ListComp) and len(n.generators) == 1
                     and len(n.generators[0].ifs) == 1]
            if len(comps) != 1 or len(comps[0].generators) != 1 or len(comps[0].generators[0].ifs) != 1:
                raise TranslateError(f'{path}: expected one list comprehension with one condition')
            e, t = tr.expr(comps[0].generators[0].ifs[0])
            if t != 'Bool':
                raise TranslateError(f'{path}: condition is not boolean')
            term = e
        elif dictval:
            rets = [st for st in node.body if isinstance(st, ast.Return)]
            if len(rets) != 1:
                raise TranslateError(f'{path}: expected one return')
            rv = rets[0].value
            if isinstance(rv, ast.DictComp):
                if len(rv.generators) != 1 or rv.generators[0].ifs:
                    raise TranslateError(f'{path}: dict comprehension shape')
                e, t = tr.expr(rv.value)
                term = cast(e, t, rtype)
            elif isinstance(rv, ast.Name) and rv.id == node.args.args[0].arg:
                term = 'count'         # the dictionary is returned unchanged: the value of a pair is its own count
            else:
                raise TranslateError(f'{path}: unsupported return')
        else:
            for a in node.args.args:
                if a.arg == 'self':
                    continue
                if a.arg not in declared:
                    raise TranslateError(f'{path}: unexpected parameter {a.arg}')
            body = list(node.body)
            # procedures: `self.n_candidates = n_candidates` style bookkeeping is kept as lets
            term = tr.body(body, rtype, result_attr)

        def lt(t):
            if t.startswith('Fn:'):
                a, r = t[3:].split('->')
                return '(' + ' → '.join(a.split(',') + [r]) + ')'
            return t
        sig = ' '.join(f'({ln} : {lt(t)})' for _, ln, t in params)
        out.append(f'/-- {relpath}: {path} (line {node.lineno}) -/')
        out.append(f'def {lname} {sig} : {rtype} :=\n  {term}\n')
        pyname = path.split('/')[-1].split('.')[-1]
        funcs[pyname] = (lname, [t for _, _, t in params], rtype)
    out.append(f'end VL.Gen.{modname}\n')
    return '\n'.join(out)


def write_if_changed(path, text):
    old = open(path).read() if os.path.exists(path) else None
    if old != text:
        os.makedirs(os.path.dirname(path), exist_ok=True)
        with open(path, 'w') as f:
            f.write(text)
        return True
    return False


def regenerate_roots():
    """root import files and the driver's handler table follow the directory contents"""
    lean = os.path.dirname(os.path.dirname(GEN_DIR))

    def mods(sub):
        out = []
        base = os.path.join(lean, sub)
        for root, _, fs in sorted(os.walk(base)):
            for fn in sorted(fs):
                if fn.endswith('.lean'):
                    rel = os.path.relpath(os.path.join(root, fn), lean)[:-5]
                    out.append(rel.replace(os.sep, '.'))
        return out
    gen = ['VotelibModel.Gen.' + m for m in SPECS]
    model = [m for m in mods('VotelibModel') if m not in gen]
    write_if_changed(os.path.join(lean, 'VotelibModel.lean'),
                     ''.join(f'import {m}\n' for m in sorted(set(model + gen))))
    write_if_changed(os.path.join(lean, 'VotelibProofs.lean'),
                     ''.join(f'import {m}\n' for m in mods('VotelibProofs')))


def regenerate(modules=None):
    """returns dict module -> {'changed': bool, 'error': str|None, 'sha': str}"""
    res = {}
    regenerate_roots()
    for m in (modules or SPECS.keys()):
        path = os.path.join(GEN_DIR, m + '.lean')
        try:
            text = translate_module(m)
            ch = write_if_changed(path, text)
            res[m] = {'changed': ch, 'error': None, 'sha': hashlib.sha256(text.encode()).hexdigest()[:16]}
        except (TranslateError, SyntaxError, OSError) as e:
            res[m] = {'changed': False, 'error': f'{type(e).__name__}: {e}', 'sha': None}
    return res


if __name__ == '__main__':
    r = regenerate(sys.argv[1:] or None)
    for m, v in r.items():
        print(m, v)
    sys.exit(1 if any(v['error'] for v in r.values()) else 0)
