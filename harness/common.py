"""Shared machinery of the votelib verification checks (DESIGN sections 2-4).

One property = one module harness/props/Cxx.py exposing

    ID, NAMESPACE, LEAN_MODULES, REQUIRED (theorem names), GEN_MODULES (translator modules used)
    generate(rng, tier)        -> iterable of cases; a case is a JSON-able dict with key 'op' (protocol line);
                                   keys starting with '_' are harness-only (tags) and are not sent to the model
    impl(case)                 -> canonical JSON-able observable of the real votelib (exceptions -> {'err': enum})
    oracle(case, obs)          -> list of (clause, detail) : property clauses violated by the implementation
    nontrivial(case, obs)      -> bool
  optional:
    model_line(case)           -> dict sent to the Lean driver (default: case without '_' keys); None = not modelled
    compare(case, impl, model) -> None | str   (default: canonical equality)
    search(rng, budget_s, runner) -> iterable of extra cases for the failing-input search
    shrink_candidates(case)    -> iterable of smaller cases
    signature(case, clause)    -> str used to match known findings (default: f'{op}:{clause}')
    REQUIRED_COUNTERS          -> list of tag names that must be hit at least once
"""
import os
import sys
import json
import time
import fcntl
import random
import signal
import hashlib
import subprocess
import traceback
import importlib
from fractions import Fraction
from decimal import Decimal

VERIF = os.path.dirname(os.path.dirname(os.path.abspath(__file__)))
LEAN = os.path.join(VERIF, 'lean')
REPO = os.environ.get('VOTELIB_REPO', '/repo')
def driver_path(pid):
    return os.path.join(LEAN, '.lake', 'build', 'bin', f'vldriver_{pid}')
ALLOWED_AXIOMS = {'propext', 'Classical.choice', 'Quot.sound'}
FORBIDDEN = ['sorry', 'admit', 'native_decide', 'bv_decide', 'implemented_by', 'unsafe ', 'maxHeartbeats 0']

if REPO not in sys.path:
    sys.path.insert(0, REPO)


# ------------------------------------------------------------------------------------------------
# numbers and canonical forms

def num_str(x):
    """exact protocol string of an int / Fraction / Decimal / bool"""
    if isinstance(x, bool):
        x = int(x)
    if isinstance(x, int):
        return str(x)
    if isinstance(x, Decimal):
        x = Fraction(x)
    if isinstance(x, Fraction):
        return str(x.numerator) if x.denominator == 1 else f'{x.numerator}/{x.denominator}'
    if isinstance(x, float):
        return 'float:' + repr(x)
    raise TypeError(f'not an exact number: {x!r} ({type(x).__name__})')


def parse_num(s):
    return Fraction(s)


DECLARED = ('VotingSystemError', 'NotImplementedError')


def err_name(e):
    """map an exception to the protocol enum"""
    import votelib.evaluate.core as vcore
    import votelib.vote
    import votelib.candidate
    if isinstance(e, vcore.VotingSystemError):
        return 'VotingSystemError'
    if isinstance(e, NotImplementedError):
        return 'NotImplementedError'
    if isinstance(e, votelib.vote.VoteError):
        return 'VoteError'
    if isinstance(e, votelib.candidate.CandidateError):
        return 'CandidateError'
    if isinstance(e, TimeoutError):
        return 'Timeout'
    return type(e).__name__


def canon(x):
    """canonical form of a protocol value: Tie members sorted"""
    if isinstance(x, dict):
        if set(x.keys()) == {'tie'}:
            return {'tie': sorted(x['tie'])}
        return {k: canon(v) for k, v in x.items()}
    if isinstance(x, list):
        return [canon(v) for v in x]
    return x


# How protocol ids become candidate objects (modules that declare NAME_MODES get it varied per case, field `_names`):
#   'str'    the string prefix+id (default)
#   'int0'   the int id itself - candidate 0 is falsy (the library's own tests use int candidates)
#   'empty0' candidate 0 is the empty string (a str, hence inside the documented Candidate type, and falsy), others as 'str'
#   'tuple'  the pair (prefix, id): a hashable, orderable, non-string candidate (e.g. (name, party)); `'%s' % cand` and
#            `extend(cand)` treat it as a sequence
#   'person' votelib.candidate.Person objects (documented candidate type; compared and hashed by IDENTITY: a copy of one is a
#            different candidate); an object the harness did not hand in decodes to id 999999 ("unknown candidate")
NAME_MODE = 'str'
_PERSONS = {}
_PERSON_IDS = {}
UNKNOWN_CANDIDATE = 999999


def _person(prefix, i):
    key = (prefix, i)
    if key not in _PERSONS:
        import votelib.candidate
        # candidacy numbers deliberately run AGAINST the ids (and against any order by votes the generators favour)
        p = votelib.candidate.Person(f'{prefix}{i}', number=(7 * (50 - i)) % 53 + 1)
        _PERSONS[key] = p
        _PERSON_IDS[id(p)] = i
    return _PERSONS[key]



class Names:
    """bijection protocol id <-> candidate object used with votelib"""
    def __init__(self, names=None, prefix='c'):
        self.names = names
        self.prefix = prefix
        self.back = {n: i for i, n in enumerate(names)} if names else None

    def n(self, i):
        if self.names:
            return self.names[i]
        if NAME_MODE == 'int0':
            return i
        if NAME_MODE == 'empty0' and i == 0:
            return ''
        if NAME_MODE == 'person':
            return _person(self.prefix, i)
        if NAME_MODE == 'tuple':
            return (self.prefix, i)
        return f'{self.prefix}{i}'

    def i(self, name):
        if self.back is not None:
            return self.back[name]
        if isinstance(name, int) and not isinstance(name, bool):
            return name
        if isinstance(name, str):
            return 0 if name == '' else int(name[len(self.prefix):])
        if isinstance(name, tuple):
            return name[1] if len(name) == 2 and name[0] == self.prefix and isinstance(name[1], int) else UNKNOWN_CANDIDATE
        return _PERSON_IDS.get(id(name), UNKNOWN_CANDIDATE)


def _wrap_name_modes(mod):
    """modules declaring NAME_MODES: every function taking a case runs under that case's naming mode"""
    if not getattr(mod, 'NAME_MODES', None) or getattr(mod, '_name_modes_wrapped', False):
        return
    import functools

    def wrap(f):
        @functools.wraps(f)
        def g(case, *a, **kw):
            global NAME_MODE
            old = NAME_MODE
            NAME_MODE = case.get('_names', 'str') if isinstance(case, dict) else 'str'
            try:
                return f(case, *a, **kw)
            finally:
                NAME_MODE = old
        return g
    for fn in ('impl', 'oracle', 'describe', 'compare', 'model_line', 'signature', 'nontrivial'):
        if hasattr(mod, fn):
            setattr(mod, fn, wrap(getattr(mod, fn)))
    mod._name_modes_wrapped = True


def _assign_names(mod, cases):
    """deterministic in the case itself: about a quarter of the cases use a non-default naming"""
    modes = getattr(mod, 'NAME_MODES', None)
    if not modes:
        return cases
    for c in cases:
        if isinstance(c, dict) and '_names' not in c:
            h = int(hashlib.sha256(json.dumps(strip_case(c), sort_keys=True, default=str).encode()).hexdigest()[:8], 16)
            alt = [m for m in modes if m != 'str']
            if alt and h % 4 == 0:
                c['_names'] = alt[(h // 4) % len(alt)]
                c.setdefault('_tags', []).append('names:' + c['_names'])
    return cases


def enc_slot(x, names):
    """votelib selection entry -> protocol"""
    import votelib.evaluate.core as vcore
    if isinstance(x, vcore.Tie):
        return {'tie': sorted(names.i(c) for c in x)}
    return names.i(x)


def enc_selection(res, names):
    return [enc_slot(x, names) for x in res]


def enc_distribution(res, names):
    """dict -> sorted list of [key, value] with Tie keys"""
    import votelib.evaluate.core as vcore
    out = []
    for k, v in res.items():
        kk = {'tie': sorted(names.i(c) for c in k)} if isinstance(k, vcore.Tie) else names.i(k)
        out.append([kk, v if isinstance(v, int) and not isinstance(v, bool) else num_str(v)])
    out.sort(key=lambda p: json.dumps(p[0], sort_keys=True))
    return out


def canon_dist(model_out):
    """model distribution [[key, n], ...] -> same canonical order as enc_distribution"""
    if isinstance(model_out, dict):
        return model_out
    out = [[canon(k), v] for k, v in model_out]
    out.sort(key=lambda p: json.dumps(p[0], sort_keys=True))
    return out


class _Alarm(Exception):
    pass


def call_with_timeout(fn, seconds=5):
    def handler(signum, frame):
        raise TimeoutError('call exceeded %ss' % seconds)
    old = signal.signal(signal.SIGALRM, handler)
    signal.alarm(seconds)
    try:
        return fn()
    finally:
        signal.alarm(0)
        signal.signal(signal.SIGALRM, old)


def guarded(fn, seconds=5):
    """run fn(); exceptions become {'err': enum}"""
    try:
        return call_with_timeout(fn, seconds)
    except Exception as e:      # noqa
        return {'err': err_name(e)}


# ------------------------------------------------------------------------------------------------
# Lean side

class Lock:
    def __init__(self, path):
        self.path = path

    def __enter__(self):
        os.makedirs(os.path.dirname(self.path), exist_ok=True)
        self.f = open(self.path, 'w')
        fcntl.flock(self.f, fcntl.LOCK_EX)
        return self

    def __exit__(self, *a):
        fcntl.flock(self.f, fcntl.LOCK_UN)
        self.f.close()


def sh(cmd, cwd=None, timeout=3600, env=None):
    p = subprocess.run(cmd, cwd=cwd, stdout=subprocess.PIPE, stderr=subprocess.STDOUT, text=True,
                       timeout=timeout, env=env)
    return p.returncode, p.stdout


def lake_build(targets, timeout=3000):
    with Lock(os.path.join(LEAN, '.lake', 'verif.lock')):
        rc, out = sh(['lake', 'build'] + targets, cwd=LEAN, timeout=timeout)
    return rc == 0, out


def failing_decls(build_output):
    """names of declarations enclosing `error:` positions in lake output"""
    import re
    res = []
    for m in re.finditer(r'error: (\S+\.lean):(\d+):(\d+): (.*)', build_output):
        path, line = m.group(1), int(m.group(2))
        full = path if os.path.isabs(path) else os.path.join(LEAN, path)
        name = None
        try:
            src = open(full).read().split('\n')
            for i in range(min(line, len(src)) - 1, -1, -1):
                mm = re.match(r'\s*(?:private\s+|protected\s+)?(theorem|lemma|def|example|instance|abbrev)\s+(\S+)?', src[i])
                if mm:
                    name = (mm.group(2) or 'example') + f' ({os.path.basename(path)}:{i+1})'
                    break
        except OSError:
            pass
        res.append({'file': path, 'line': line, 'decl': name, 'msg': m.group(4)[:200]})
    if not res and 'error' in build_output:
        res.append({'file': None, 'line': None, 'decl': None, 'msg': build_output[-400:]})
    return res


def audit(prop_id, modules, namespace):
    """list of {'theorem', 'axioms'} for every theorem in namespace"""
    d = os.path.join(LEAN, '.audit')
    os.makedirs(d, exist_ok=True)
    f = os.path.join(d, f'{prop_id}.lean')
    with open(f, 'w') as fh:
        for m in modules:
            fh.write(f'import {m}\n')
        fh.write('import VotelibAudit\n')
        fh.write(f'#audit_ns {namespace}\n')
    rc, out = sh(['lake', 'env', 'lean', f], cwd=LEAN, timeout=1200)
    res = []
    for line in out.split('\n'):
        line = line.strip()
        if line.startswith('{'):
            try:
                res.append(json.loads(line))
            except ValueError:
                pass
    return rc == 0, res, out


def grep_forbidden(modules):
    """textual scan of the Lean sources of the given modules (and everything under VotelibModel/ and Lemmas/)"""
    import re
    hits = []
    # transitive closure of our own modules imported by the property's modules
    seen, todo = set(), list(modules)
    while todo:
        m = todo.pop()
        if m in seen:
            continue
        path = os.path.join(LEAN, m.replace('.', os.sep) + '.lean')
        if not os.path.exists(path):
            continue
        seen.add(m)
        for line in open(path):
            mm = re.match(r'\s*import\s+(\S+)', line)
            if mm and mm.group(1).startswith(('Votelib', 'DriverMain')):
                todo.append(mm.group(1))
    files = [os.path.join(LEAN, m.replace('.', os.sep) + '.lean') for m in sorted(seen)]
    for f in files:
        in_block = False
        for ln, line in enumerate(open(f), 1):
            code = line
            # strip comments (line and simple block)
            if in_block:
                if '-/' in code:
                    code = code.split('-/', 1)[1]
                    in_block = False
                else:
                    continue
            while '/-' in code:
                a, b = code.split('/-', 1)
                if '-/' in b:
                    code = a + b.split('-/', 1)[1]
                else:
                    code = a
                    in_block = True
                    break
            code = code.split('--', 1)[0]
            for w in FORBIDDEN:
                if re.search(r'(?<![A-Za-z_])' + re.escape(w), code):
                    hits.append(f'{os.path.relpath(f, LEAN)}:{ln}: {w.strip()}')
            if re.match(r'\s*axiom\s', code):
                hits.append(f'{os.path.relpath(f, LEAN)}:{ln}: axiom')
    return hits


def run_driver(lines, pid, timeout=1800):
    """pipe protocol lines through vldriver; returns list of parsed answers"""
    if not lines:
        return []
    data = '\n'.join(json.dumps(l, separators=(',', ':')) for l in lines) + '\n'
    p = subprocess.run([driver_path(pid)], input=data, stdout=subprocess.PIPE, stderr=subprocess.PIPE, text=True, timeout=timeout)
    outs = p.stdout.split('\n')
    if outs and outs[-1] == '':
        outs.pop()
    if len(outs) != len(lines):
        raise RuntimeError(f'driver returned {len(outs)} lines for {len(lines)} requests; stderr={p.stderr[-500:]}')
    return [json.loads(o) for o in outs]


# ------------------------------------------------------------------------------------------------
# known findings

def load_known(pid=None):
    """known_findings/Cxx.json files (one per property) + legacy known_findings.json"""
    out = []
    p = os.path.join(VERIF, 'known_findings.json')
    if os.path.exists(p):
        out += json.load(open(p)).get('findings', [])
    d = os.path.join(VERIF, 'known_findings')
    if os.path.isdir(d):
        for fn in sorted(os.listdir(d)):
            if fn.endswith('.json'):
                out += json.load(open(os.path.join(d, fn))).get('findings', [])
    if pid:
        out = [k for k in out if k['property'] == pid]
    return out


# ------------------------------------------------------------------------------------------------
# the check

def strip_case(case):
    return {k: v for k, v in case.items() if not k.startswith('_')}


def case_key(case):
    return hashlib.sha1(json.dumps(strip_case(case), sort_keys=True).encode()).hexdigest()


class Runner:
    def __init__(self, mod, tier, seed):
        self.mod = mod
        self.pid = mod.ID
        self.tier = tier
        self.seed = seed
        self.t0 = time.time()
        self.log = []
        self.counters = {}
        self.lines_out = []

    def say(self, *a):
        msg = ' '.join(str(x) for x in a)
        print(msg, flush=True)

    # -- model/impl plumbing
    def model_line(self, case):
        f = getattr(self.mod, 'model_line', None)
        return f(case) if f else strip_case(case)

    def compare(self, case, iobs, mobs):
        f = getattr(self.mod, 'compare', None)
        if f:
            return f(case, iobs, mobs)
        if canon(iobs) != canon(mobs):
            return f'impl={json.dumps(canon(iobs))} model={json.dumps(canon(mobs))}'
        return None

    def signature(self, case, clause):
        f = getattr(self.mod, 'signature', None)
        return f(case, clause) if f else f"{case.get('op')}:{clause}"

    def eval_cases(self, cases, with_model=True):
        """returns list of records {case, impl, model, diff, viol}"""
        recs = []
        lines, idx = [], []
        for c in cases:
            iobs = self.mod.impl(c)
            rec = {'case': c, 'impl': iobs, 'model': None, 'diff': None, 'viol': []}
            try:
                rec['viol'] = list(self.mod.oracle(c, iobs) or [])
            except Exception as e:
                # The oracle cannot interpret what the implementation returned (a candidate that is not in the votes, a key of an
                # unexpected type ...).  On the unchanged tree this never happens (the check would be broken); on a changed tree it is
                # the change that produced the uninterpretable result, so it is reported with this input instead of ending the run as a
                # harness error.
                if os.environ.get('VERIF_RAISE_ORACLE_ERRORS'):
                    raise
                rec['viol'] = [('result_not_interpretable:' + type(e).__name__, f'oracle raised {type(e).__name__}: {str(e)[:200]} on {str(iobs)[:300]}')]
            recs.append(rec)
            if with_model:
                ml = self.model_line(c)
                if ml is not None:
                    lines.append(ml)
                    idx.append(len(recs) - 1)
        if with_model and lines and os.path.exists(driver_path(self.pid)):
            outs = run_driver(lines, self.pid)
            for i, o in zip(idx, outs):
                recs[i]['model'] = o
                if isinstance(o, dict) and 'driver_error' in o:
                    recs[i]['diff'] = 'driver_error: ' + str(o['driver_error'])
                else:
                    try:
                        recs[i]['diff'] = self.compare(recs[i]['case'], recs[i]['impl'], o)
                    except Exception as e:      # same reasoning as for the oracle: an uninterpretable result is a difference
                        if os.environ.get('VERIF_RAISE_ORACLE_ERRORS'):
                            raise
                        recs[i]['diff'] = f'compare raised {type(e).__name__}: {str(e)[:200]}'
        return recs

    def shrink(self, case, still_fails, budget=200):
        f = getattr(self.mod, 'shrink_candidates', None)
        if not f:
            return case
        cur = case
        n = 0
        improved = True
        while improved and n < budget:
            improved = False
            for cand in f(cur):
                n += 1
                if n > budget:
                    break
                try:
                    if still_fails(cand):
                        cur = cand
                        improved = True
                        break
                except Exception:
                    continue
        return cur

    def write_replay(self, name, payload):
        d = os.path.join(VERIF, 'replays')
        os.makedirs(d, exist_ok=True)
        p = os.path.join(d, name)
        with open(p, 'w') as f:
            json.dump(payload, f, indent=1, default=str)
        return os.path.relpath(p, VERIF)


def run_check(pid, tier, seed):
    mod = importlib.import_module(f'props.{pid}')
    _wrap_name_modes(mod)
    R = Runner(mod, tier, seed)
    rng = random.Random(seed * 1000003 + int(hashlib.sha1(pid.encode()).hexdigest()[:6], 16))
    status = {'translator': None, 'build_ok': None, 'audit': None}
    broken = []          # names of theorems / correspondence ops that no longer check

    # 1. regenerate the translated leaves from the current source
    sys.path.insert(0, os.path.join(VERIF, 'harness'))
    import translate
    tr = translate.regenerate()
    status['translator'] = tr
    for m, v in tr.items():
        if v['error'] and m in getattr(mod, 'GEN_MODULES', []):
            broken.append(f'translator:{m}: {v["error"]}')

    # 2. build proofs + driver
    t = time.time()
    ok, out = lake_build(list(mod.LEAN_MODULES) + ['VotelibAudit', f'vldriver_{pid}'])
    status['build_ok'] = ok
    status['build_s'] = round(time.time() - t, 1)
    fails = []
    if not ok:
        fails = failing_decls(out)
        for f in fails:
            broken.append(f"proof:{f['decl']}: {f['msg']}")
        # the driver may still be buildable from the model alone
        ok2, out2 = lake_build([f'vldriver_{pid}'])
        status['driver_ok'] = ok2
    else:
        status['driver_ok'] = True

    # 3. audit
    theorems = []
    discharged = []
    if ok:
        aok, theorems, aout = audit(pid, mod.LEAN_MODULES, mod.NAMESPACE)
        have = {t['theorem']: t['axioms'] for t in theorems}
        for req in mod.REQUIRED:
            full = f'{mod.NAMESPACE}.{req}'
            if full not in have:
                broken.append(f'proof:{full}: theorem missing')
            elif not set(have[full]) <= ALLOWED_AXIOMS:
                broken.append(f'proof:{full}: axioms {sorted(set(have[full]) - ALLOWED_AXIOMS)}')
            else:
                discharged.append(full)
        for tname, axs in have.items():
            if not set(axs) <= ALLOWED_AXIOMS and f'proof:{tname}' not in ' '.join(broken):
                broken.append(f'proof:{tname}: axioms {sorted(set(axs) - ALLOWED_AXIOMS)}')
        hits = grep_forbidden(mod.LEAN_MODULES)
        if hits:
            broken.append('forbidden tokens: ' + '; '.join(hits[:5]))
        if tier == 'thorough' and not os.environ.get('VERIF_NO_LEANCHECKER'):
            t = time.time()
            rc, lo = sh(['lake', 'env', 'leanchecker'] + list(mod.LEAN_MODULES), cwd=LEAN, timeout=3000)
            status['leanchecker_rc'] = rc
            status['leanchecker_s'] = round(time.time() - t, 1)
            if rc != 0:
                broken.append('leanchecker: ' + lo[-300:])
    obligations = len(mod.REQUIRED)

    # 4. correspondence + oracle on every generated case
    corpus_path = os.path.join(VERIF, 'harness', 'corpus', f'{pid}.jsonl')
    corpus = []
    if os.path.exists(corpus_path):
        corpus = [json.loads(l) for l in open(corpus_path) if l.strip()]
    cases = _assign_names(mod, corpus + list(mod.generate(rng, tier)))
    recs = R.eval_cases(cases, with_model=status['driver_ok'])
    disagreements = [r for r in recs if r['diff']]
    violations = [r for r in recs if r['viol']]
    tags = {}
    distinct = set()
    for r in recs:
        for tg in r['case'].get('_tags', []):
            tags[tg] = tags.get(tg, 0) + 1
        if mod.nontrivial(r['case'], r['impl']):
            distinct.add(case_key(r['case']))
    for d in disagreements:
        op = d['case'].get('op')
        msg = f'correspondence:{op}'
        if msg not in broken:
            broken.append(msg)

    # 5. known findings: replay each listed witness
    known = load_known(pid)
    known_sigs = {}
    exit_code = 0
    printed = []
    for k in known:
        c = k['case']
        iobs = mod.impl(c)
        v = list(mod.oracle(c, iobs) or [])
        still = any(R.signature(c, cl) == k['signature'] for cl, _ in v)
        if k.get('status') == 'fixed':
            if still:
                p = R.write_replay(f'{pid}-regression-{k["id"]}.json',
                                   {'property': pid, 'case': c, 'observed': iobs,
                                    'violated': v, 'note': 'a defect recorded as fixed fails again', 'finding': k})
                R.say(f'VIOLATION property={pid} replay={p}')
                exit_code = 1
        else:
            known_sigs[k['signature']] = k
            if still:
                R.say(f'KNOWN-FINDING: property={pid} {k["what"]}')
                printed.append(k['id'])

    # 6. decide
    new_viol = []
    departed = []        # the clause of a listed finding, but on an input where the implementation has left the model
    known_hit = {}
    for r in violations:
        for cl, detail in r['viol']:
            sig = R.signature(r['case'], cl)
            if sig in known_sigs and not r['diff']:
                known_hit[sig] = known_hit.get(sig, 0) + 1
            elif sig in known_sigs:
                # A listed finding describes behaviour of the recorded code, and the model is that code: where the
                # implementation's answer differs from the model's on this very input, the failure is not the listed one
                # (a different violation of the same property must still be reported).
                departed.append((r, cl, detail, sig))
            else:
                new_viol.append((r, cl, detail, sig))
    for sig, cnt in known_hit.items():
        k = known_sigs[sig]
        if k['id'] not in printed:
            R.say(f'KNOWN-FINDING: property={pid} {k["what"]}')
            printed.append(k['id'])

    def report_violation(r, cl, detail, sig, origin, need_diff=False):
        def still_fails(c):
            if need_diff:
                rec = R.eval_cases([c], with_model=True)[0]
                return bool(rec['diff']) and any(R.signature(c, c2) == sig for c2, _ in rec['viol'])
            io = mod.impl(c)
            return any(R.signature(c, c2) == sig for c2, _ in (mod.oracle(c, io) or []))
        small = R.shrink(r['case'], still_fails)
        io = mod.impl(small)
        vv = list(mod.oracle(small, io) or [])
        p = R.write_replay(f'{pid}-{seed}-{len(os.listdir(os.path.join(VERIF, "replays"))) if os.path.isdir(os.path.join(VERIF, "replays")) else 0}.json',
                           {'property': pid, 'origin': origin, 'signature': sig, 'case': small,
                            'python': getattr(mod, 'describe', lambda c: None)(small),
                            'observed': io, 'violated': vv, 'original_case': strip_case(r['case']),
                            'broken': broken})
        R.say(f'VIOLATION property={pid} replay={p}')

    if new_viol or departed:
        seen = set()
        for r, cl, detail, sig in new_viol:
            if sig in seen:
                continue
            seen.add(sig)
            report_violation(r, cl, detail, sig, 'oracle on generated cases')
        for r, cl, detail, sig in departed:
            if sig in seen:
                continue
            seen.add(sig)
            report_violation(r, cl, detail, sig, 'oracle on a generated case on which the implementation differs from the model of the '
                             'recorded code (the clause is that of a listed finding, the failing input is not: ' + str(r['diff'])[:300] + ')',
                             need_diff=True)
        exit_code = 1
    elif broken:
        # failing-input search: more cases with the oracle on the implementation
        budget = 60 if tier == 'quick' else 600
        found = None
        t_end = time.time() + budget
        # (a) the disagreeing cases were already evaluated (no violation, else new_viol); (b) extra search
        sfun = getattr(mod, 'search', None)
        round_no = 0
        while time.time() < t_end and not found:
            round_no += 1
            rng2 = random.Random(seed * 7919 + round_no)
            extra = _assign_names(mod, list(sfun(rng2, tier)) if sfun else list(mod.generate(rng2, tier)))
            for c in extra:
                io = mod.impl(c)
                v = [(cl, d) for cl, d in (mod.oracle(c, io) or []) if R.signature(c, cl) not in known_sigs]
                if v:
                    found = ({'case': c, 'impl': io, 'viol': v, 'diff': None}, v[0][0], v[0][1], R.signature(c, v[0][0]))
                    break
                if time.time() > t_end:
                    break
        if found:
            report_violation(found[0], found[1], found[2], found[3], 'failing-input search after ' + '; '.join(broken[:3]))
        else:
            samp = [{'case': strip_case(d['case']), 'impl': d['impl'], 'model': d['model']} for d in disagreements[:5]]
            p = R.write_replay(f'{pid}-{seed}-unproved.json',
                               {'property': pid, 'no_longer_checks': broken, 'disagreements': samp,
                                'build_errors': fails[:10],
                                'note': 'no failing input found; the property is no longer shown to hold'})
            R.say(f'VIOLATION property={pid} replay={p} no-failing-input-found')
        exit_code = 1

    # required counters: a generator that never reaches the anchored mechanism validates nothing
    missing = [c for c in getattr(mod, 'REQUIRED_COUNTERS', []) if tags.get(c, 0) == 0]

    # 7. evidence
    samples = []
    for r in recs[:3] + recs[len(recs)//2:len(recs)//2 + 2]:
        samples.append({'request': strip_case(r['case']), 'impl': r['impl'], 'model': r['model']})
    ev = {
        'property_id': pid, 'tier': tier, 'seed': seed, 'level': 'proof',
        'coverage': {
            'obligations': obligations, 'discharged': len(discharged),
            'checker_cmd': f'cd lean && lake build {" ".join(mod.LEAN_MODULES)} vldriver_{pid} && lake env lean .audit/{pid}.lean'
                           + (' && lake env leanchecker ' + ' '.join(mod.LEAN_MODULES) if tier == 'thorough' else ''),
            'trusted_base': [
                'Lean 4.33.0 kernel; axioms propext, Classical.choice, Quot.sound only (audited per theorem)',
                'Mathlib v4.33.0 lemmas used in proofs',
                'harness/translate.py + VotelibModel/Py.lean primitives (validated against CPython)',
                'correspondence harness (generators, canonicalisation) ties the hand-written model to /repo',
                'Lean compiler/runtime of vldriver',
            ] + list(getattr(mod, 'TRUSTED', [])),
            'theorems': sorted(discharged),
            'all_theorems_in_namespace': len(theorems),
            'unproved': list(getattr(mod, 'UNPROVED', [])),
            'unmodelled': list(getattr(mod, 'UNMODELLED', [])),
            'modelled_not_verified': list(getattr(mod, 'NOT_VERIFIED', [])),
            'evaluations': len(recs),
            'distinct_nontrivial': len(distinct),
            'rule': getattr(mod, 'RULE', ''),
            'samples': samples,
            'traces_validated_against_impl': sum(1 for r in recs if r['model'] is not None and not r['diff']),
            'disagreements': len(disagreements),
            'oracle_violations': len(violations),
            'known_findings_hit': known_hit,
            'counters': tags,
            'missing_counters': missing,
            'translator': {m: v['sha'] for m, v in tr.items()},
            'no_longer_checks': broken,
            'exhaustive': bool(getattr(mod, 'EXHAUSTIVE', {}).get(tier, False)),
            'status': status,
        },
        'assumptions': list(getattr(mod, 'ASSUMPTIONS', [])),
        'wall_s': round(time.time() - R.t0, 2),
        'violations': 0 if exit_code == 0 else 1,
    }
    os.makedirs(os.path.join(VERIF, 'evidence'), exist_ok=True)
    with open(os.path.join(VERIF, 'evidence', f'{pid}.json'), 'w') as f:
        json.dump(ev, f, indent=1, default=str)
    if exit_code == 0 and missing:
        R.say(f'harness problem: required counters never hit: {missing}')
        return 2
    R.say(f'{pid} {tier} seed={seed}: {len(recs)} cases, {len(distinct)} distinct non-trivial, '
          f'{len(discharged)}/{obligations} theorems, {len(disagreements)} disagreements, '
          f'{len(violations)} oracle violations ({sum(known_hit.values())} known), exit {exit_code}, '
          f'{ev["wall_s"]}s')
    return exit_code


def replay(path):
    data = json.load(open(path))
    pid = data['property']
    mod = importlib.import_module(f'props.{pid}')
    _wrap_name_modes(mod)
    if 'case' not in data:
        print('replay file names broken obligations only:', data.get('no_longer_checks'))
        return 1
    io = mod.impl(data['case'])
    v = list(mod.oracle(data['case'], io) or [])
    print('case    :', json.dumps(data['case']))
    print('observed:', json.dumps(io, default=str))
    print('violated:', v)
    try:
        rec = Runner(mod, 'quick', 0).eval_cases([data['case']], with_model=True)[0]
        if rec['model'] is not None:
            print('model   :', json.dumps(rec['model'], default=str))
            print('differs :', rec['diff'])
    except Exception as e:      # noqa  (the driver may not be built)
        print('model   : not available (', type(e).__name__, ')')
    return 1 if v else 0


def setup():
    """build what every claimed check needs (MANIFEST.setup_cmd); one property at a time so that a property whose
    build is broken does not take the others down (its own check then reports the broken obligation)"""
    import translate
    tr = translate.regenerate()
    print('translator:', {m: v['error'] or 'ok' for m, v in tr.items()})
    claimed = json.load(open(os.path.join(VERIF, 'harness', 'claimed.json')))
    ok_all = True
    ok, out = lake_build(['VotelibAudit'], timeout=7200)
    for pid in claimed:
        mod = importlib.import_module('props.' + pid)
        t = time.time()
        ok, out = lake_build(list(mod.LEAN_MODULES) + [f'vldriver_{mod.ID}'], timeout=7200)
        print(f'{pid}: build {"ok" if ok else "FAILED"} in {time.time() - t:.0f}s', flush=True)
        if not ok:
            ok_all = False
            print(out[-1500:])
    return 0 if ok_all else 1
