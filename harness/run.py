#!/usr/bin/env python3
import os
import sys
import argparse

sys.path.insert(0, os.path.dirname(os.path.abspath(__file__)))
import common   # noqa


def _watchdog(tier):
    """A check must end with a verdict or with exit 2, never hang or exhaust the machine (a changed tree can send a generator, an
    oracle or a snapshot into a loop): a daemon thread ends the run with exit 2 when the wall clock (VERIF_TIME_LIMIT_S, default
    2400 s quick / 7200 s thorough) or the resident memory (VERIF_MEM_LIMIT_GB, default 24) is exceeded."""
    import threading
    import time
    t_lim = float(os.environ.get('VERIF_TIME_LIMIT_S', 2400 if tier == 'quick' else 7200))
    m_lim = float(os.environ.get('VERIF_MEM_LIMIT_GB', 24)) * (1 << 30)
    t0 = time.time()
    page = os.sysconf('SC_PAGE_SIZE')

    def loop():
        while True:
            time.sleep(2)
            try:
                rss = int(open('/proc/self/statm').read().split()[1]) * page
            except Exception:      # noqa
                rss = 0
            if time.time() - t0 > t_lim or rss > m_lim:
                why = 'time limit' if rss <= m_lim else f'memory limit ({rss >> 30} GB resident)'
                sys.stdout.write(f'harness error (not a verdict): {why} exceeded\n')
                sys.stdout.flush()
                os._exit(2)
    threading.Thread(target=loop, daemon=True).start()


def main():
    if len(sys.argv) >= 2 and sys.argv[1] == 'replay':
        sys.exit(common.replay(sys.argv[2]))
    if len(sys.argv) >= 2 and sys.argv[1] == '--setup':
        sys.exit(common.setup())
    ap = argparse.ArgumentParser()
    ap.add_argument('property')
    ap.add_argument('--tier', default=os.environ.get('VERIF_TIER', 'quick'), choices=['quick', 'thorough'])
    ap.add_argument('--seed', type=int, default=int(os.environ.get('VERIF_SEED', '0') or 0))
    a = ap.parse_args()
    _watchdog(a.tier)
    try:
        rc = common.run_check(a.property, a.tier, a.seed)
    except SystemExit:
        raise
    except BaseException:
        import traceback
        traceback.print_exc()
        print('harness error (not a verdict)')
        sys.exit(2)
    sys.exit(rc)


if __name__ == '__main__':
    main()
