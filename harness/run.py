#!/usr/bin/env python3
import os
import sys
import argparse

sys.path.insert(0, os.path.dirname(os.path.abspath(__file__)))
import common   # noqa


def main():
    if len(sys.argv) >= 2 and sys.argv[1] == 'replay':
        sys.exit(common.replay(sys.argv[2]))
    if len(sys.argv) >= 2 and sys.argv[1] == '--setup':
        sys.exit(common.setup())
    ap = argparse.ArgumentParser()
    ap.add_argument('property')
    ap.add_argument('--tier', default=os.environ.get('VERIF_TIER', 'quick'), choices=['quick', 'thorough'])
    ap.add_argument('--seed', type=int, default=int(os.environ.get('VERIF_SEED', '0') or 0))
    a = ap.parse_args()
    try:
        rc = common.run_check(a.property, a.tier, a.seed)
    except SystemExit:
        raise
    except BaseException:
        import traceback
        traceback.print_exc()
        print('harness error (not a verdict)')
        sys.exit(2)
    sys.exit(rc)


if __name__ == '__main__':
    main()
