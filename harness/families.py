"""Profiles of every vote type in protocol form, and the table of evaluator families used by the cross-cutting
properties C08 (shape), C10 (order / names / hash seed) and C11 (scale invariance).

Protocol form of a profile (JSON-able; candidates are ints):
    simple   : [[cand, "w"], ...]
    ranked   : [[[item, ...], "w"], ...]      item = cand | [cand, ...] (shared rank)
    approval : [[[cand, ...], "w"], ...]      (sorted candidate list)
    score    : [[[[cand, score], ...], "w"], ...]
    pairwise : [[[a, b], "w"], ...]
"""
import itertools
from fractions import Fraction
from decimal import Decimal
from common import *   # noqa


# ------------------------------------------------------------------------------------------------
# generators (protocol form)

def gen_simple(rng, m, tie_bias=True, zero_ok=True):
    base = rng.choice([1, 2, 3, 6, 12]) if tie_bias else 1
    pool = [0, 1, 1, 2, 2, 3, 4, 6] if zero_ok else [1, 1, 2, 2, 3, 4, 6]
    if rng.random() < 0.3:
        vals = [rng.randint(0 if zero_ok else 1, 1000) for _ in range(m)]
    else:
        vals = [base * rng.choice(pool) for _ in range(m)]
    if sum(vals) == 0:
        vals[0] = 1
    return [[i, str(v)] for i, v in enumerate(vals)]


def gen_ranked(rng, m, shared=False, n_ballots=None, full=False):
    nb = n_ballots or rng.randint(1, 7)
    seen = {}
    for _ in range(nb):
        k = m if full else rng.randint(1, m)
        cands = rng.sample(range(m), k)
        ballot = []
        i = 0
        while i < len(cands):
            if shared and rng.random() < 0.25 and i + 1 < len(cands):
                g = rng.randint(2, min(3, len(cands) - i))
                ballot.append(sorted(cands[i:i + g]))
                i += g
            else:
                ballot.append(cands[i])
                i += 1
        key = json.dumps(ballot)
        seen[key] = seen.get(key, 0) + rng.choice([1, 1, 2, 2, 3, 4])
    return [[json.loads(k), str(w)] for k, w in seen.items()]


def gen_ranked_tied(rng, m):
    """tie-heavy ranked profiles: mirrored ballot pairs, full rotations, duplicates of one ranking - the shapes on which
    pairwise contests, Copeland scores, Borda scores and first preferences tie exactly"""
    cands = list(range(m))
    kind = rng.choice(['mirror', 'mirror', 'rotation', 'mirror_plus', 'two_mirrors'])
    out = {}

    def add(b, w):
        k = json.dumps(b)
        out[k] = out.get(k, 0) + w
    w = rng.choice([1, 1, 2, 3])
    b = rng.sample(cands, rng.randint(2, m)) if m >= 2 else cands
    if kind in ('mirror', 'mirror_plus', 'two_mirrors'):
        add(b, w)
        add(b[::-1], w)
    if kind == 'two_mirrors':
        b2 = rng.sample(cands, rng.randint(2, m))
        w2 = rng.choice([1, 2])
        add(b2, w2)
        add(b2[::-1], w2)
    if kind == 'rotation':
        full = rng.sample(cands, m)
        for i in range(m):
            add(full[i:] + full[:i], w)
    if kind == 'mirror_plus':
        extra = rng.sample(cands, rng.randint(1, m))
        add(extra, rng.choice([1, 1, 2]))
    return [[json.loads(k), str(v)] for k, v in out.items()]


def gen_ranked_cycle(rng, m):
    """long majority cycles without pairwise ties: the rotations of one order of k >= 4 candidates with unequal weights
    (every candidate beats its successor k-1 rotations to 1), optionally followed by candidates ranked below the cycle.
    Membership in Smith / Schwartz sets, beatpaths and elimination orders then hinge on chains of three or more defeats,
    and the first-appearance order of the candidates changes with the order of the ballots."""
    k = rng.randint(4, max(4, m))
    full = rng.sample(range(m), k) if m >= k else list(range(k))
    rest = [c for c in range(m) if c not in full]
    rng.shuffle(rest)
    tail = rest if rng.random() < 0.6 else []
    w = rng.choice([2, 3, 4])
    ws = [w - (1 if rng.random() < 0.4 else 0) for _ in range(k)]
    if len(set(ws)) == 1:
        ws[rng.randrange(k)] += 1
    out = [[full[i:] + full[:i] + tail, str(ws[i])] for i in range(k)]
    rng.shuffle(out)
    return out


def gen_approval(rng, m, n_ballots=None):
    nb = n_ballots or rng.randint(1, 7)
    seen = {}
    for _ in range(nb):
        k = rng.randint(1, m)
        key = json.dumps(sorted(rng.sample(range(m), k)))
        seen[key] = seen.get(key, 0) + rng.choice([1, 1, 2, 3, 4])
    return [[json.loads(k), str(w)] for k, w in seen.items()]


def gen_score(rng, m, n_ballots=None, partial=True, maxgrade=5):
    nb = n_ballots or rng.randint(1, 6)
    seen = {}
    for _ in range(nb):
        k = rng.randint(1, m) if partial else m
        cands = sorted(rng.sample(range(m), k))
        key = json.dumps([[c, rng.randint(0, maxgrade)] for c in cands])
        seen[key] = seen.get(key, 0) + rng.choice([1, 1, 2, 3])
    return [[json.loads(k), str(w)] for k, w in seen.items()]


def gen_score_partial_heavy(rng, m):
    """PARTIAL score ballots in a narrow grade band with weights up to 30: candidates hold different numbers of grades and share
    their median - the default tie-break of majority judgment then removes median grades candidate by candidate, and how many it
    removes per step must not depend on which tied candidate comes first"""
    lo = rng.choice([0, 1, 2])
    band = [lo, lo + 1, lo + 2]
    seen = {}
    for _ in range(rng.randint(2, 5)):
        k = rng.randint(1, m)
        cands = sorted(rng.sample(range(m), k))
        key = json.dumps([[c, rng.choice(band)] for c in cands])
        seen[key] = seen.get(key, 0) + rng.choice([1, 2, 3, 5, 8, 13, 21, 30])
    return [[json.loads(k), str(v)] for k, v in seen.items()]


def gen_approval_level(rng, m):
    """approval profiles on which a LATER seat of a sequential / proportional rule is an exact tie or a one-vote race between a
    ballot group already reweighted (it contains an elected candidate) and an untouched one: {A}: 10u, {A,B}: 6u (+d), {C}: 3u
    - after A, B holds 6u/2 against C's 3u"""
    a, b, c = rng.sample(range(m), 3) if m >= 3 else (0, 1, 2)
    u = rng.choice([1, 1, 2, 3])
    d = rng.choice([0, 0, 2, -2])
    prof = [[[a], str(10 * u)], [sorted([a, b]), str(6 * u + d)], [[c], str(3 * u)]]
    if m > 3 and rng.random() < 0.5:
        e = [x for x in range(m) if x not in (a, b, c)][0]
        prof.append([[e], str(rng.randint(1, 2))])
    rng.shuffle(prof)
    return prof


def gen_ranked_shared_only(rng, m):
    """ranked profiles in which some candidate appears ONLY inside shared ranks (never alone at a rank), with enough weight on those
    ballots that it reaches two quotas when many seats are filled"""
    m = max(m, 4)
    a, b, c = 0, 1, 2
    w = rng.choice([6, 8, 10])
    prof = [[[[a, b]], str(w)], [[[a, c]], str(w)], [[3], str(rng.randint(1, 3))]]
    if rng.random() < 0.5:
        prof.append([[[b, c], 3], str(rng.randint(1, 2))])
    rng.shuffle(prof)
    return prof


def gen_score_tied(rng, m):
    """tie-heavy score profiles: full ballots over all m candidates with grades from a narrow band, equal weights - the shape on
    which medians, means and sums of several candidates coincide and the tie-breaks of the cardinal evaluators run"""
    lo = rng.choice([0, 1, 2, 3])
    band = [lo, lo + 1] if rng.random() < 0.5 else [lo, lo + 1, lo + 2]
    w = rng.choice([1, 2, 5, 10])
    seen = {}
    for _ in range(rng.randint(2, 5)):
        key = json.dumps([[c, rng.choice(band)] for c in range(m)])
        seen[key] = seen.get(key, 0) + w
    return [[json.loads(k), str(v)] for k, v in seen.items()]


def gen_pairwise_sparse(rng, m):
    out = []
    for a in range(m):
        for b in range(m):
            if a != b and rng.random() < 0.7:
                out.append([[a, b], str(rng.choice([0, 1, 1, 2, 3, 4]))])
    if not out:
        out.append([[0, 1 % max(m, 2)], '1'])
    return out


# ------------------------------------------------------------------------------------------------
# protocol form -> votelib objects

def _w(s):
    f = Fraction(s)
    return int(f) if f.denominator == 1 else f


def build(vtype, prof, names):
    n = names.n
    if vtype == 'simple':
        return {n(c): _w(w) for c, w in prof}
    if vtype == 'ranked':
        return {tuple(frozenset(n(x) for x in it) if isinstance(it, list) else n(it) for it in b): _w(w) for b, w in prof}
    if vtype == 'approval':
        return {frozenset(n(c) for c in b): _w(w) for b, w in prof}
    if vtype == 'score':
        return {frozenset((n(c), s) for c, s in b): _w(w) for b, w in prof}
    if vtype == 'pairwise':
        return {(n(a), n(b)): _w(w) for (a, b), w in prof}
    raise ValueError(vtype)


def candidates_of(vtype, prof):
    s = set()
    for b, _ in prof:
        if vtype == 'simple':
            s.add(b)
        elif vtype == 'ranked':
            for it in b:
                s.update(it if isinstance(it, list) else [it])
        elif vtype == 'approval':
            s.update(b)
        elif vtype == 'score':
            s.update(c for c, _ in b)
        elif vtype == 'pairwise':
            s.update(b)
    return sorted(s)


def scale(prof, k):
    return [[b, num_str(Fraction(w) * k)] for b, w in prof]


def permute(prof, rng):
    p = list(prof)
    rng.shuffle(p)
    return p


def rename(vtype, prof, sigma):
    """sigma: dict int -> int (bijection on the candidates)"""
    def r(c):
        return sigma[c]
    out = []
    for b, w in prof:
        if vtype == 'simple':
            nb = r(b)
        elif vtype == 'ranked':
            nb = [sorted(r(x) for x in it) if isinstance(it, list) else r(it) for it in b]
        elif vtype == 'approval':
            nb = sorted(r(c) for c in b)
        elif vtype == 'score':
            nb = sorted([r(c), s] for c, s in b)
        elif vtype == 'pairwise':
            nb = [r(b[0]), r(b[1])]
        out.append([nb, w])
    return out


# ------------------------------------------------------------------------------------------------
# evaluator families

class _PureConstrained:
    """PureProportionality with a cap on the (unique) largest party one seat below its exact share and previous seats for the
    (unique) smallest party equal to its exact share rounded up - both chosen from the vote VALUES only, so the election is the
    same under every order of presentation, renaming and positive scaling.  Both constraints bind in the same pass."""
    def evaluate(self, votes, n_seats):
        import math
        import votelib.evaluate.proportional as vp
        total = sum(votes.values())
        prev, caps = {}, {}
        if total > 0 and len(votes) >= 3:
            vals = sorted(votes.values())
            if vals[-1] != vals[-2]:
                top = [c for c, v in votes.items() if v == vals[-1]][0]
                caps[top] = max(math.floor(Fraction(vals[-1]) * n_seats / total) - 1, 0)
            if vals[0] != vals[1]:
                low = [c for c, v in votes.items() if v == vals[0]][0]
                prev[low] = math.ceil(Fraction(vals[0]) * n_seats / total)
        return vp.PureProportionality().evaluate(votes, n_seats, prev_gains=prev, max_seats=caps)


class Family:
    def __init__(self, name, vtype, make, kind='sel', scale_free=True, order_free=True, declared=False,
                 n_seats=True, small_weights=False, notes='', partial=False, pairwise_cands=False, at_bottom=True):
        self.name = name
        self.vtype = vtype            # input vote type
        self.make = make              # () -> evaluator object
        self.kind = kind              # 'sel' list result | 'dist' dict result | 'seatless' list without n_seats
        self.scale_free = scale_free  # named in C11's quantifier as scale-free
        self.order_free = order_free  # in C10's quantifier
        self.declared = declared      # C08 sentence 3 family: only declared refusals besides a valid result
        self.n_seats = n_seats
        self.small_weights = small_weights   # implementation expands one element per vote: only small integer counts
        self.notes = notes
        self.partial = partial            # documented as not always filling all seats (quota-based)
        self.pairwise_cands = pairwise_cands   # candidates present = those occurring in a converted pair
        self.at_bottom = at_bottom             # RankedToCondorcetVotes(unranked_at_bottom=...) in front of a Condorcet evaluator


def families():
    import votelib.evaluate.core as vc
    import votelib.evaluate.proportional as vp
    import votelib.evaluate.condorcet as vcon
    import votelib.evaluate.sequential as vs
    import votelib.evaluate.approval as va
    import votelib.evaluate.cardinal as vcar
    import votelib.evaluate.threshold as vt
    import votelib.convert as cv
    import votelib.component.rankscore as rs
    F = []
    F.append(Family('plurality', 'simple', lambda: vc.Plurality(), declared=True))
    for d in ['d_hondt', 'sainte_lague', 'imperiali', 'danish', 'macau']:
        F.append(Family(f'ha_{d}', 'simple', (lambda d=d: vp.HighestAverages(d)), kind='dist', declared=True))
    for q in ['hare', 'hagenbach_bischoff', 'imperiali']:
        F.append(Family(f'lr_{q}', 'simple', (lambda q=q: vp.LargestRemainder(q)), kind='dist', declared=True))
    for q in ['droop', 'hare_rounded', 'hagenbach_bischoff_ceil', 'hagenbach_bischoff_rounded']:
        F.append(Family(f'lr_{q}', 'simple', (lambda q=q: vp.LargestRemainder(q)), kind='dist', scale_free=False,
                        declared=True))
    for q in ['hare', 'droop']:
        F.append(Family(f'qd_{q}', 'simple', (lambda q=q: vp.QuotaDistributor(q)), kind='dist',
                        scale_free=(q == 'hare'), declared=True, partial=True,
                        notes='quota distributor awards whole quotas only'))
    # exact proportional shares (fractional seats by design: not a family of C08)
    F.append(Family('pure_proportionality', 'simple', lambda: vp.PureProportionality(), kind='dist', declared=False))
    F.append(Family('pure_proportionality_constrained', 'simple', lambda: _PureConstrained(), kind='dist', declared=False))
    for _fam in F[-2:]:
        _fam.fractional = True
    F.append(Family('rel_threshold_5pc', 'simple', lambda: vt.RelativeThreshold(Fraction(5, 100)), kind='seatless',
                    n_seats=False))
    # the library's own idiom (all real-election tests): Decimal thresholds; and a float, whose exact value counts
    F.append(Family('rel_threshold_5pc_decimal', 'simple', lambda: vt.RelativeThreshold(Decimal('.05'), accept_equal=True),
                    kind='seatless', n_seats=False))
    F.append(Family('rel_threshold_5pc_float', 'simple', lambda: vt.RelativeThreshold(.05, accept_equal=True),
                    kind='seatless', n_seats=False))
    F.append(Family('rel_threshold_third', 'simple', lambda: vt.RelativeThreshold(Fraction(1, 3), accept_equal=False),
                    kind='seatless', n_seats=False))
    F.append(Family('abs_threshold_2', 'simple', lambda: vt.AbsoluteThreshold(2), kind='seatless', n_seats=False,
                    scale_free=False))
    F.append(Family('quota_selector_droop', 'simple', lambda: va.QuotaSelector('droop', on_more_over_quota='select'),
                    scale_free=False, declared=True, partial=True))
    F.append(Family('quota_selector_hare', 'simple', lambda: va.QuotaSelector('hare', on_more_over_quota='select'),
                    declared=True, partial=True))
    # Condorcet family on ranked profiles through the real converter
    for nm in vcon.EVALUATORS:
        F.append(Family(f'condorcet_{nm}', 'ranked',
                        (lambda nm=nm: vc.PreConverted(cv.RankedToCondorcetVotes(), vcon.EVALUATORS[nm])),
                        declared=nm.startswith(('schulze', 'copeland', 'minimax')),
                        order_free=not nm.startswith('rankedpairs'), pairwise_cands=True,
                        notes='ranked pairs only on profiles with pairwise distinct strengths (C10)'))
    F.append(Family('condorcet_winner', 'ranked',
                    lambda: vc.PreConverted(cv.RankedToCondorcetVotes(), vcon.CondorcetWinner()), kind='seatless',
                    n_seats=False, pairwise_cands=True))
    F.append(Family('smith_set', 'ranked', lambda: vc.PreConverted(cv.RankedToCondorcetVotes(), vcon.SmithSet()),
                    kind='seatless', n_seats=False, pairwise_cands=True))
    F.append(Family('schwartz_set', 'ranked', lambda: vc.PreConverted(cv.RankedToCondorcetVotes(), vcon.SchwartzSet()),
                    kind='seatless', n_seats=False, pairwise_cands=True))
    # the same evaluators on INCOMPLETE pairwise dictionaries: truncated ballots converted with unranked_at_bottom=False leave pairs
    # of candidates that never share a ballot without any entry (locked graphs with several sources, missing keys, one-sided pairs)
    for nm in vcon.EVALUATORS:
        F.append(Family(f'condorcet_{nm}_sparse', 'ranked',
                        (lambda nm=nm: vc.PreConverted(cv.RankedToCondorcetVotes(unranked_at_bottom=False), vcon.EVALUATORS[nm])),
                        declared=nm.startswith(('schulze', 'copeland', 'minimax')),
                        order_free=not nm.startswith('rankedpairs'), pairwise_cands=True, at_bottom=False,
                        notes='incomplete pairwise dictionary (unranked_at_bottom=False)'))
    for snm, cls in [('condorcet_winner_sparse', vcon.CondorcetWinner), ('smith_set_sparse', vcon.SmithSet),
                     ('schwartz_set_sparse', vcon.SchwartzSet)]:
        F.append(Family(snm, 'ranked', (lambda cls=cls: vc.PreConverted(cv.RankedToCondorcetVotes(unranked_at_bottom=False), cls())),
                        kind='seatless', n_seats=False, pairwise_cands=True, at_bottom=False))
    F.append(Family('benham', 'ranked_noshared', lambda: vs.Benham()))
    F.append(Family('tideman_alternative', 'ranked_noshared', lambda: vs.TidemanAlternative()))
    F.append(Family('baldwin', 'ranked_noshared', lambda: vs.Baldwin()))
    # transferable vote
    F.append(Family('stv_gregory_hare', 'ranked', lambda: vs.TransferableVoteSelector(transferer='Gregory', quota_function='hare'),
                    declared=True))
    F.append(Family('stv_gregory_droop', 'ranked', lambda: vs.TransferableVoteSelector(transferer='Gregory', quota_function='droop'),
                    scale_free=False, declared=True))
    # non-default options: strict quota comparison; a quota below Droop, under which more candidates than seats can reach it
    F.append(Family('stv_gregory_hare_strict', 'ranked',
                    lambda: vs.TransferableVoteSelector(transferer='Gregory', quota_function='hare', accept_quota_equal=False),
                    declared=True))
    F.append(Family('stv_gregory_imperiali', 'ranked',
                    lambda: vs.TransferableVoteSelector(transferer='Gregory', quota_function='imperiali'), declared=True))
    # election by elimination only (instant run-off): no quota at all - the stand-in "infinite" quota must stay above every total
    F.append(Family('stv_gregory_noquota', 'ranked',
                    lambda: vs.TransferableVoteSelector(transferer='Gregory', quota_function=None), declared=True))
    F.append(Family('stv_dist_gregory_droop', 'ranked',
                    lambda: vs.TransferableVoteDistributor(transferer='Gregory', quota_function='droop'),
                    kind='dist', scale_free=False, declared=True))
    # Bucklin / Oklahoma
    F.append(Family('bucklin', 'ranked', lambda: vs.PreferenceAddition()))
    F.append(Family('oklahoma', 'ranked', lambda: vs.PreferenceAddition(coefficients=lambda i: Fraction(1, i + 1))))
    # the same rules with shared ranks counted whole (split_equal_rankings=False: every member of a shared rank gets the full count
    # of the rank's place and the ballot is one place shorter per shared rank)
    F.append(Family('bucklin_whole', 'ranked', lambda: vs.PreferenceAddition(split_equal_rankings=False)))
    F.append(Family('oklahoma_whole', 'ranked',
                    lambda: vs.PreferenceAddition(coefficients=lambda i: Fraction(1, i + 1), split_equal_rankings=False)))
    # positional
    for nm, mk in [('borda', lambda: rs.Borda()), ('borda0', lambda: rs.Borda(base=0)), ('dowdall', lambda: rs.Dowdall()),
                   ('geometric', lambda: rs.Geometric()), ('modified_borda', lambda: rs.ModifiedBorda()),
                   ('fixed_top3', lambda: rs.FixedTop(3))]:
        F.append(Family(f'positional_{nm}', 'ranked',
                        (lambda mk=mk: vc.PreConverted(cv.RankedToPositionalVotes(mk()), vc.Plurality())), declared=True))
    # approval
    F.append(Family('approval_av', 'approval', lambda: vc.PreConverted(cv.ApprovalToSimpleVotes(), vc.Plurality()), declared=True))
    F.append(Family('approval_sav', 'approval', lambda: vc.PreConverted(cv.ApprovalToSimpleVotes(split=True), vc.Plurality()),
                    declared=True))
    F.append(Family('approval_pav', 'approval', lambda: va.ProportionalApproval(), declared=True))
    F.append(Family('approval_spav', 'approval', lambda: va.SequentialProportionalApproval(), declared=True))
    # score family (aggregation expands one list element per vote)
    F.append(Family('score_mean', 'score', lambda: vcar.ScoreVoting(), declared=True, small_weights=True))
    F.append(Family('score_sum0', 'score', lambda: vcar.ScoreVoting('sum', unscored_value=0), declared=True, small_weights=True))
    F.append(Family('score_median', 'score', lambda: vcar.ScoreVoting('median_low'), declared=True, small_weights=True))
    F.append(Family('majority_judgment', 'score', lambda: vcar.MajorityJudgment(), declared=True, small_weights=True))
    F.append(Family('majority_judgment_plus', 'score', lambda: vcar.MajorityJudgment(tie_breaking='plus'), declared=True,
                    small_weights=True))
    F.append(Family('star', 'score', lambda: vcar.STAR(), declared=True, small_weights=True))
    F.append(Family('allocated_score_hare', 'score', lambda: vcar.AllocatedScoreSelector('hare'), declared=True,
                    small_weights=True, scale_free=False))
    # the score family with the non-default CORRECTIONS of ScoreToSimpleVotes (the options ScoreVoting / MajorityJudgment / STAR pass
    # through): truncation as an integer count >= 1 and as a Fraction < 1 (the lowest and highest scores of every candidate are
    # disregarded), min_count (candidates scored by too few voters get bottom_value) and unscored_value (a number, the builtin min).
    # Not scale-free as configured (counts of votes are absolute / int() of a share) and not `declared`: a truncation that leaves a
    # candidate without any grade raises ZeroDivisionError / StatisticsError (C08-score-truncation-empty).
    for nm, mk in SCORE_CORRECTION_FAMILIES.items():
        F.append(Family(nm, 'score', (lambda mk=mk: mk(vcar)), declared=False, small_weights=True, scale_free=False,
                        notes='score family with truncation / min_count / unscored_value'))
    return F


SCORE_CORRECTION_FAMILIES = {
    'score_mean_trunc1': lambda vcar: vcar.ScoreVoting(truncation=1),
    'score_mean_trunc_sixth': lambda vcar: vcar.ScoreVoting(truncation=Fraction(1, 6)),
    'score_median_trunc2': lambda vcar: vcar.ScoreVoting('median_low', truncation=2),
    'score_sum0_trunc1': lambda vcar: vcar.ScoreVoting('sum', unscored_value=0, truncation=1),
    'mj_trunc1': lambda vcar: vcar.MajorityJudgment(truncation=1),
    'mj_plus_trunc_fifth': lambda vcar: vcar.MajorityJudgment(tie_breaking='plus', truncation=Fraction(1, 5)),
    'star_trunc1': lambda vcar: vcar.STAR(truncation=1),
    'score_mean_min3': lambda vcar: vcar.ScoreVoting(min_count=3),
    'score_mean_unscored_min': lambda vcar: vcar.ScoreVoting(unscored_value='min'),
    'mj_unscored0_min2': lambda vcar: vcar.MajorityJudgment(unscored_value=0, min_count=2),
}


def gen_score_nonmonotone(rng, m, partial=0.0):
    """score profiles for the corrections of ScoreToSimpleVotes (truncation, min_count, unscored_value): 4-7 (almost) full ballots with
    a wide spread of grades in which a candidate's distinct grades first appear in NON-MONOTONE order (high, low, middle, ...), and a
    close contest: the grades of candidate 1 are a rearrangement of those of candidate 0 with at most one grade moved by one step, so
    that the trimmed means / medians / sums of the two are equal or one step apart and WHICH grades are disregarded decides.
    `partial` = probability that a ballot leaves a candidate (other than 0 and 1) unscored."""
    k = rng.randint(4, 7)
    w = rng.choice([1, 1, 2, 3])
    while True:
        g0 = [rng.randint(0, 5) for _ in range(k)]
        lv = list(dict.fromkeys(g0))
        if len(lv) >= 3 and lv != sorted(lv) and lv != sorted(lv, reverse=True):
            break
    g1 = rng.sample(g0, k)
    if rng.random() < 0.6:
        i = rng.randrange(k)
        g1[i] = min(5, max(0, g1[i] + rng.choice([-1, 1])))
    rows = [g0, g1] + [[rng.randint(0, 4) for _ in range(k)] for _ in range(m - 2)]
    ids = rng.sample(range(m), m)            # which candidate ids hold the two close rows
    seen = {}
    for j in range(k):
        b = sorted([ids[r], rows[r][j]] for r in range(m) if r < 2 or rng.random() >= partial)
        key = json.dumps(b)
        seen[key] = seen.get(key, 0) + (w if rng.random() < 0.8 else rng.choice([1, 2]))
    prof = [[json.loads(kk), str(v)] for kk, v in seen.items()]
    rng.shuffle(prof)
    return prof


def gen_profile(rng, vtype, m):
    prof = _gen_profile(rng, vtype, m)
    if vtype != 'simple' and vtype != 'pairwise' and rng.random() < 0.1:
        # a ballot of weight ZERO (a row of a tally sheet nobody cast): half of the time it names a candidate that occurs nowhere else
        cands = candidates_of(base_vtype(vtype), prof)
        c = (max(cands) + 1 if cands else 0) if rng.random() < 0.5 else rng.choice(cands or [0])
        other = [x for x in cands if x != c]
        if base_vtype(vtype) == 'ranked':
            b = [c] + ([rng.choice(other)] if other and rng.random() < 0.5 else [])
        elif base_vtype(vtype) == 'approval':
            b = sorted([c] + ([rng.choice(other)] if other and rng.random() < 0.3 else []))
        else:
            b = [[c, rng.randint(0, 5)]]
        if all(bb != b for bb, _ in prof):
            prof = list(prof)
            prof.insert(rng.randrange(len(prof) + 1), [b, '0'])
    return prof


def _gen_profile(rng, vtype, m):
    if vtype == 'simple':
        return gen_simple(rng, m)
    if vtype in ('ranked', 'ranked_noshared') and m >= 4 and rng.random() < 0.2:
        return gen_ranked_cycle(rng, m)
    if vtype in ('ranked', 'ranked_noshared') and rng.random() < 0.25:
        return gen_ranked_tied(rng, m)
    if vtype == 'ranked' and m >= 4 and rng.random() < 0.05:
        return gen_ranked_shared_only(rng, m)
    if vtype == 'ranked':
        return gen_ranked(rng, m, shared=rng.random() < 0.3)
    if vtype == 'ranked_noshared':
        return gen_ranked(rng, m, shared=False)
    if vtype == 'approval' and m >= 3 and rng.random() < 0.15:
        return gen_approval_level(rng, m)
    if vtype == 'approval':
        return gen_approval(rng, m)
    if vtype == 'score' and rng.random() < 0.3:
        return gen_score_tied(rng, m)
    if vtype == 'score' and rng.random() < 0.2:
        return gen_score_partial_heavy(rng, m)
    if vtype == 'score':
        return gen_score(rng, m)
    if vtype == 'pairwise':
        return gen_pairwise_sparse(rng, m)
    raise ValueError(vtype)


def base_vtype(vtype):
    return 'ranked' if vtype == 'ranked_noshared' else vtype


# One long-lived evaluator object per family, used for about half of the calls (decided by the profile): state that an evaluator
# (or a component it holds) keeps between calls then shows up as an outcome that depends on earlier, unrelated elections.
_SHARED = {}


def run_family(fam, prof, n, names, shared=None):
    """evaluate the real votelib; returns canonical protocol observable"""
    votes = build(base_vtype(fam.vtype), prof, names)
    if shared is None:
        shared = (sum(len(str(b)) + len(str(w)) for b, w in prof) + n) % 2 == 0
    if shared and fam.kind != 'rng':
        if fam.name not in _SHARED:
            _SHARED[fam.name] = fam.make()
        ev = _SHARED[fam.name]
    else:
        ev = fam.make()

    def go():
        res = ev.evaluate(votes, n) if fam.n_seats else ev.evaluate(votes)
        if fam.kind == 'dist':
            return enc_distribution(res, names)
        return enc_selection(res, names)
    return guarded(go, 10)


def has_float(x):
    if isinstance(x, float):
        return True
    if isinstance(x, str) and x.startswith('float:'):
        return True
    if isinstance(x, (list, tuple)):
        return any(has_float(v) for v in x)
    if isinstance(x, dict):
        return any(has_float(v) for v in x.values())
    return False


def canon_outcome(kind, obs):
    """outcome up to the order of equally placed winners cannot be decided without the scores; C10/C11 compare:
       - dist: the map
       - sel/seatless: the list with ties canonical (the order is kept: all compared runs use the same rule)"""
    return canon(obs)


def present_candidates(fam, prof):
    """candidates 'appearing in the votes' as the evaluator sees them"""
    vt = base_vtype(fam.vtype)
    if fam.pairwise_cands and vt == 'ranked':
        import votelib.convert as cv
        nm = Names(prefix='cand')
        pw = cv.RankedToCondorcetVotes(unranked_at_bottom=fam.at_bottom).convert(build('ranked', prof, nm))
        return sorted({nm.i(c) for pair in pw for c in pair})
    return candidates_of(vt, prof)
